from vlib import Harness, NCPU

SRC = ["harness/c03_sort_strings_main.cpp", "harness/c03_sort_strings_uchar.cpp", "harness/c03_sort_strings_std.cpp",
       "harness/c03_sort_strings_uptr.cpp", "harness/c03_sort_strings_suffix.cpp", "harness/c03_sort_strings_front.cpp"]


def plan(tier):
    # one TU per string-set representation (heavy templates, compiled in parallel), ASan + asserts
    h = Harness("c03_sort_strings", SRC, flavor="asan")
    T = tier == "thorough"
    runs = [(h, ["--tier", tier, "fam=small"], NCPU),
            (h, ["--tier", tier, "fam=text"], NCPU),
            (h, ["--tier", tier, "fam=big"], NCPU)]
    if T:
        space = ("shapes: k=1 distinct strings of length<=3, k=2 of length<=3 (mult {1,31,32,33,70}), k=3 of length<=2 (mult {1,32,70}) and "
                 "of length<=1 (all mult), k=4 of length<=1 (mult {1,32,70}), alphabet {01,'a','b',FF} + L9='a'*9 + L17='a'*16+'b'; multiplicities {1,2,31,32,33,70}; "
                 "memory {0,1,64,2000,5000,6600,20000,SIZE_MAX}; big family totals {65535,65536,65537,131072} x memory "
                 "{0,5000,600000,2000000,3000000,SIZE_MAX}; texts over {a,b} len<=12, periodic texts (block len<=3 over 4 letters, "
                 "len<=7 over {a,b}) cut to {31,32,33,64,70,97,150}, de-Bruijn based texts of the big totals")
    else:
        space = ("shapes: k=1 distinct strings of length<=3, k=2 of length<=2, k=3 of length<=1 (mult {1,32,70}), alphabet "
                 "{01,'a','b',FF} + L9='a'*9 + L17='a'*16+'b'; multiplicities {1,2,31,32,33,70}; memory {0,1,5000,6600,20000}; big family: 3 inputs of "
                 "65536/65537 strings x memory {0,3000000}; texts over {a,b} len<=12, periodic texts (block len<=3 over 4 letters, len<=5 "
                 "over {a,b}) cut to {32,33,70}, one de-Bruijn based text of 65537 characters")
    return {
        "harnesses": [h],
        "runs": runs,
        "states_key": "inputs", "transitions_key": "sorts", "traces_key": "sorts", "distinct_key": "inputs",
        "rule": "input = shape (set of k distinct NUL-free strings) x multiplicity vector x arrangement {as given, reversed, round-robin, "
                "rotated by 1}, arrangements producing an identical sequence are skipped, so every counted input is a distinct array; "
                "every input is sorted by every entry point (7 detail sorters x {nolcp,lcp} x {UChar,Std,UPtr}StringSet, 20 "
                "sort_strings/sort_strings_lcp overloads; suffix sets: 7 x 2 over StringSuffixSet) under every memory limit; one "
                "transition = one tlx sort call checked by the permutation/order/lcp oracles. " + space,
        "assumptions": ["NUL-free strings only; depth argument 0 as in tests/sort_strings_test.hpp",
                        "alphabet {0x01,'a','b',0xFF} plus two long strings; n <= 131072",
                        "plain insertion_sort entry not run on the >= 65535 inputs (quadratic), nor memory limits 1/64 there",
                        "lcp[0] is unspecified and not compared",
                        "LCP sorters are also run on StringSuffixSet although tests/sort_strings_test.hpp only runs the non-LCP ones there"],
    }
