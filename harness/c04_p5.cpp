// C04: instantiation of the PS5 templates for parameter set p5 (see c04_common.hpp)
#include "harness/c04_common.hpp"
namespace c04 {
void run_p5(const Case& c, FailFn f) { sort_and_check<P5>(c, f); }
}  // namespace c04
