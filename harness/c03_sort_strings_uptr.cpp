// C03 — detail sorters over UPtrStdStringSet (array of std::unique_ptr<std::string>).
// String objects: one heap std::string per array position, owned by the harness (the unique_ptrs
// are released again after every call); "same string objects" = pointer multiset, no nullptr,
// plus unchanged values.
#include "c03_sort_strings_algos.hpp"

namespace c03 {

struct UPtrRunner : Runner {
    typedef ssd::UPtrStdStringSet Set;
    typedef std::unique_ptr<std::string> UP;
    const Input* in = nullptr;
    size_t n = 0;
    std::vector<std::string*> objs, sorted_objs, raw, tmp;
    UP* arr = nullptr;  // exact-size heap array
    bool poisoned = false;
    LcpArray lcp;
    std::vector<View> views;

    const char* key() const override { return "uptr"; }
    int n_entries() const override { return N_ALGO; }
    std::string label(int e, bool l) const override { return std::string(ALGO_NAME[e]) + "[UPtrStdStringSet," + (l ? "lcp]" : "nolcp]"); }
    bool quadratic(int e) const override { return e == A_INS; }

    void prepare(const Input& input) override {
        in = &input;
        n = in->seq.size();
        objs.resize(n);
        for (size_t i = 0; i < n; ++i) objs[i] = new std::string(in->shape[in->seq[i]]);
        sorted_objs = objs;
        std::sort(sorted_objs.begin(), sorted_objs.end());
        arr = new UP[n ? n : 1];
        raw.resize(n);
        poisoned = false;
        lcp.alloc(n);
        views.resize(n);
    }

    void run(int e, bool with_lcp, size_t memory) override {
        if (poisoned) return;  // an earlier call lost/duplicated an object: ownership unknown
        for (size_t i = 0; i < n; ++i) arr[i].reset(objs[i]);
        lcp.fill();
        std::string lab = label(e, with_lcp);
        publish_call(lab, key(), e, with_lcp, memory);
        Set ss(arr, arr + n);
        if (with_lcp) {
            typedef ssd::StringLcpPtr<Set, uint32_t> SP;
            note_path<SP>("UPtrStdStringSet", true, e, n, memory, *in);
            call_algo(e, SP(ss, lcp.p), memory);
        } else {
            typedef ssd::StringPtr<Set> SP;
            note_path<SP>("UPtrStdStringSet", false, e, n, memory, *in);
            call_algo(e, SP(ss), memory);
        }
        counters().sorts++;
        counters().strings += n;
        for (size_t i = 0; i < n; ++i) raw[i] = arr[i].release();
        tmp = raw;
        std::sort(tmp.begin(), tmp.end());
        if (tmp != sorted_objs) {
            size_t bad = 0;
            while (bad < n && tmp[bad] == sorted_objs[bad]) ++bad;
            fail_permutation(lab, vh::fmt("n=%zu: output object multiset differs from the input's (first difference at sorted rank %zu%s)", n, bad,
                                          tmp.size() && tmp[0] == nullptr ? ", output contains nullptr" : ""));
            poisoned = true;
            return;
        }
        for (size_t i = 0; i < n; ++i) views[i] = view_of(*raw[i]);
        // values unchanged: object identity is a permutation, so it suffices that every object
        // still holds a value of the input with the right multiplicity -> checked via order on
        // content plus per-object comparison against the shape it was created from.
        if (check_order_lcp(lab, views.data(), n, with_lcp ? lcp.p : nullptr)) {
            for (size_t i = 0; i < n; ++i)
                if (*objs[i] != in->shape[in->seq[i]]) {
                    fail_permutation(lab, vh::fmt("n=%zu: string object %zu was modified: now %s", n, i, hex(*objs[i]).c_str()));
                    break;
                }
        }
    }

    void release() override {
        if (!poisoned)
            for (std::string* p : objs) delete p;
        objs.clear();
        if (!poisoned) delete[] arr;
        arr = nullptr;
        lcp.free_();
    }
};

Runner* make_runner_uptr() { return new UPtrRunner; }

}  // namespace c03
