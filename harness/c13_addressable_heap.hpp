// C13 — tlx::DAryAddressableIntHeap<KeyType, Arity, Compare>: closure over all operation histories (engine E2).
//
// Documented contract (class comment): keys are unique unsigned integers; update(k) must be called after
// k's priority changed, otherwise the behaviour is undefined; update(k) for an absent k adds it.
// Universe: keys 0..nk-1 (nk = 6; each at most once), comparator = external priority table owned by the
// driver with priorities from {0,1,2} (ties occur).  The table entry of a key is part of the state only
// while the key is in the heap: it is set by the op that inserts the key and reset to 0 by the op that
// removes it (a table change for an absent key needs no update() and is legal at any time).
// Ops (mutating; "k:=v" = table change bundled with the call that the contract requires right after it):
//   push(const&)/push(&&) of an absent k with k:=v, update(k) of an absent k with k:=v (documented = push),
//   pop(), extract_top(), remove(k) for every contained k, update(k) without a change (legal no-op),
//   update(k) after k:=v for every contained k and every other v (raise and lower), update_all() plain, after a
//   single k:=v, and after switching all contained keys to one of 3 table presets, clear(),
//   build_heap(const vector&) / (first,last) / (vector&&) from lists of distinct keys: every list of length <= 3
//   with 3 priority patterns when the heap holds <= full_size keys (incl. the empty heap), every list of length
//   <= 1 in every larger state.  The doc says "Builds a heap from ..." and the rvalue overload explicitly
//   clears a non-empty heap first, DAryHeap::build_heap replaces the contents: the model replaces the contents.
// Oracles after every transition: size(), empty(), contains(k) for k = 0..nk+1 (beyond any handles_ size), top() has
//   minimal priority and is contained, sanity_check(), extract_top() value, own scan of heap_/handles_
//   (permutation of the model set, handles_[heap_[i]] == i, every other handle not_present, heap order),
//   comparator never called with a non-key.  In every new state: drain of a copy (extract_top / top+pop) gives
//   exactly the contained keys in non-decreasing priority, contains() false for all afterwards, original untouched.
// Canonical state = heap_ + handles_ + priority table.
// Second family per instantiation ("<...>/deep"): 2*Arity+2 keys — the smallest heap in which remove() must sift the
// moved last element UP (no closure universe reaches that for arity >= 3) — seeded with 5 full heaps (priority patterns
// S0..S4, built on the fresh heap), every history of <= 2 ops of the same menu (build_heap: lists of length <= 1) from
// every seed, same oracles.
#pragma once
#include <tlx/container/d_ary_addressable_int_heap.hpp>

#include <algorithm>
#include <list>

#include <unordered_map>

#include "c13_common.hpp"

namespace c13 {

enum { A_NKMAX = 20, A_NP = 3, A_NPRESETS = 3, A_NSEEDS = 5 };
// table presets for update_all: P0 = k%3, P1 = 2-k%3, P2 = all 1
inline int addr_preset(unsigned p, int k) { return p == 0 ? k % 3 : p == 1 ? 2 - k % 3 : 1; }
inline char key_char(unsigned long long t) { return (char)(t < 10 ? '0' + t : t < 36 ? 'a' + (t - 10) : '?'); }

template <class KeyT>
struct KeyName;
template <>
struct KeyName<uint8_t> {
    static const char* nm() { return "u8"; }
};
template <>
struct KeyName<uint16_t> {
    static const char* nm() { return "u16"; }
};
template <>
struct KeyName<uint32_t> {
    static const char* nm() { return "u32"; }
};
template <>
struct KeyName<uint64_t> {
    static const char* nm() { return "u64"; }
};

template <class KeyT, unsigned Arity>
struct AddrSys {
    struct PCmp {
        const int* prio;
        bool operator()(KeyT a, KeyT b) const {
            if (a >= A_NKMAX || b >= A_NKMAX) {
                g_ctx->bad("comparator called with a value that is not a key");
                return false;
            }
            return prio[a] < prio[b];
        }
    };
    typedef tlx::DAryAddressableIntHeap<KeyT, Arity, PCmp> Heap;

    int nk;
    size_t full_size;
    bool deep;  // "deep" family: 2*Arity+2 keys, BFS of bounded depth from seeded full heaps (see add_addr)
    AddrSys(int nk_, size_t fs, bool deep_ = false) : nk(nk_), full_size(fs), deep(deep_) {}

    struct State {
        Ctx ctx;
        int table[A_NKMAX] = {};
        unsigned present = 0;
        size_t n = 0;
        size_t steps = 0;
        std::unique_ptr<Heap> heap;
        State() {
            g_ctx = &ctx;
            heap.reset(new Heap(PCmp{table}));
        }
        ~State() {
            g_ctx = &ctx;
            heap.reset();
        }
    };

    std::string name_;
    const std::string& name() {
        if (name_.empty()) name_ = vh::fmt("DAryAddressableIntHeap<%s,a%u>%s", KeyName<KeyT>::nm(), Arity, deep ? "/deep" : "");
        return name_;
    }
    std::unique_ptr<State> fresh() { return std::unique_ptr<State>(new State()); }

    enum Kind {
        PUSH_COPY = 1, PUSH_MOVE, UPDATE_ABSENT, POP, EXTRACT, REMOVE, UPDATE, REPRIO_UPDATE, CLEAR, UPDATE_ALL, REPRIO_UPDATE_ALL,
        RETABLE_UPDATE_ALL, BUILD_VEC, BUILD_ITER, BUILD_MOVE, SEED, RESERVE
    };

    // seed heaps of the deep family: build_heap(const vector&) of the keys 0..nk-1 (in this order) on the fresh heap,
    // with priority pattern p.  Position i of a heap-ordered input stays key i, so pattern 2 places a low-priority
    // last leaf (child of slot 2) next to a high-priority subtree below slot 1: remove(child of slot 1) must sift UP.
    int seed_prio(unsigned p, int i) const {
        int a = (int)Arity;
        int depth = i == 0 ? 0 : i <= a ? 1 : 2;
        switch (p) {
        case 0: return 1;
        case 1: return depth;
        case 2: return i == 0 || i == 2 ? 0 : i <= a ? 1 : i <= 2 * a ? 2 : 0;
        case 3: return 2 - (3 * i) / nk;
        default: return i % 3;
        }
    }
    static uint32_t enc(int k, unsigned arg = 0) { return ((uint32_t)k << 12) | arg; }

    // priority of the j-th element of a build list of length L under pattern p
    static int pat_prio(unsigned p, size_t j, size_t L) {
        static const int p2[3] = {1, 0, 1};
        return p == 0 ? (int)(j % 3) : p == 1 ? (int)((L - 1 - j) % 3) : p2[j % 3];
    }
    std::string build_arg(unsigned a) {
        unsigned p = a / 512;
        const std::vector<int>& l = decode_list(a % 512, nk);
        std::string s = "[";
        for (size_t j = 0; j < l.size(); ++j) s += vh::fmt("%s%d:=%d", j ? " " : "", l[j], pat_prio(p, j, l.size()));
        return s + "]";
    }

    std::unordered_map<uint32_t, std::string> name_cache_;
    std::string op_name(uint32_t op) {
        auto it = name_cache_.find(op);
        if (it != name_cache_.end()) return it->second;
        return name_cache_[op] = op_name_uncached(op);
    }
    std::string op_name_uncached(uint32_t op) {
        unsigned k = op >> 12, a = op & 4095;
        const char* C = "DAryAddressableIntHeap.";
        switch (k) {
        case PUSH_COPY: return vh::fmt("%spush(const& %u with prio %u)", C, a / 4, a % 4);
        case PUSH_MOVE: return vh::fmt("%spush(&& %u with prio %u)", C, a / 4, a % 4);
        case UPDATE_ABSENT: return vh::fmt("%supdate(absent %u with prio %u)", C, a / 4, a % 4);
        case POP: return vh::fmt("%spop()", C);
        case EXTRACT: return vh::fmt("%sextract_top()", C);
        case REMOVE: return vh::fmt("%sremove(%u)", C, a);
        case UPDATE: return vh::fmt("%supdate(%u unchanged)", C, a);
        case REPRIO_UPDATE: return vh::fmt("%supdate(%u after prio:=%u)", C, a / 4, a % 4);
        case CLEAR: return vh::fmt("%sclear()", C);
        case RESERVE: return vh::fmt("%sreserve(%u)", C, a);
        case UPDATE_ALL: return vh::fmt("%supdate_all()", C);
        case REPRIO_UPDATE_ALL: return vh::fmt("%supdate_all(after prio[%u]:=%u)", C, a / 4, a % 4);
        case RETABLE_UPDATE_ALL: return vh::fmt("%supdate_all(after table preset P%u)", C, a);
        case BUILD_VEC: return C + ("build_heap(const vector& " + build_arg(a) + ")");
        case BUILD_ITER: return C + ("build_heap(first,last " + build_arg(a) + ")");
        case BUILD_MOVE: return C + ("build_heap(vector&& " + build_arg(a) + ")");
        case SEED: return vh::fmt("%sbuild_heap(const vector& keys 0..%d with priority pattern S%u on the fresh heap)", C, nk - 1, a);
        }
        return "DAryAddressableIntHeap.?";
    }

    static bool has(const State& s, int k) { return (s.present >> k) & 1; }

    static bool distinct(const std::vector<int>& l) {
        unsigned m = 0;
        for (int k : l) {
            if (m & (1u << k)) return false;
            m |= 1u << k;
        }
        return true;
    }

    std::vector<uint32_t> build_menu_[2];
    std::vector<uint32_t> ops(const State& s) {
        std::vector<uint32_t> r;
        for (int k = 0; k < nk; ++k)
            if (!has(s, k))
                for (int v = 0; v < A_NP; ++v) {
                    r.push_back(enc(PUSH_COPY, k * 4 + v));
                    r.push_back(enc(PUSH_MOVE, k * 4 + v));
                    r.push_back(enc(UPDATE_ABSENT, k * 4 + v));
                }
        if (s.n) {
            r.push_back(enc(POP));
            r.push_back(enc(EXTRACT));
        }
        for (int k = 0; k < nk; ++k)
            if (has(s, k)) r.push_back(enc(REMOVE, k));
        for (int k = 0; k < nk; ++k)
            if (has(s, k)) r.push_back(enc(UPDATE, k));
        for (int k = 0; k < nk; ++k)
            if (has(s, k))
                for (int v = 0; v < A_NP; ++v)
                    if (v != s.table[k]) r.push_back(enc(REPRIO_UPDATE, k * 4 + v));
        r.push_back(enc(CLEAR));
        // reserve() must never lose anything: smaller sizes than the keys stored (no-ops) and one size beyond the key universe
        for (unsigned n : {0u, 1u, 2u, (unsigned)nk + 1u}) r.push_back(enc(RESERVE, n));
        r.push_back(enc(UPDATE_ALL));
        for (int k = 0; k < nk; ++k)
            if (has(s, k))
                for (int v = 0; v < A_NP; ++v)
                    if (v != s.table[k]) r.push_back(enc(REPRIO_UPDATE_ALL, k * 4 + v));
        if (s.n >= 2)
            for (int p = 0; p < A_NPRESETS; ++p) r.push_back(enc(RETABLE_UPDATE_ALL, p));
        bool full = !deep && s.n <= full_size;
        std::vector<uint32_t>& menu = build_menu_[full ? 1 : 0];
        if (menu.empty()) {
            unsigned nl = num_lists(nk, full ? 3 : 1);
            for (unsigned c = 0; c < nl; ++c) {
                const std::vector<int>& l = decode_list(c, nk);
                if (!distinct(l)) continue;
                // patterns: lists of length <= 1: one; length 2: p0 (0,1) and p1 (1,0); length 3: all three
                unsigned np = l.size() <= 1 ? 1 : l.size() == 2 ? 2 : 3;
                for (unsigned p = 0; p < np; ++p) {
                    menu.push_back(enc(BUILD_VEC, p * 512 + c));
                    menu.push_back(enc(BUILD_ITER, p * 512 + c));
                    menu.push_back(enc(BUILD_MOVE, p * 512 + c));
                }
            }
        }
        r.insert(r.end(), menu.begin(), menu.end());
        return r;
    }

    static bool min_prio(const State& s, int* out) {
        bool any = false;
        for (int k = 0; k < A_NKMAX; ++k)
            if (has(s, k) && (!any || s.table[k] < *out)) {
                *out = s.table[k];
                any = true;
            }
        return any;
    }
    static std::string model_str(const State& s) {
        std::string m = "{";
        for (int k = 0; k < A_NKMAX; ++k)
            if (has(s, k)) m += vh::fmt("%d(p%d) ", k, s.table[k]);
        return m + "}";
    }
    static std::string impl_str(const State& s) {
        std::string a = "heap_=[";
        for (KeyT t : s.heap->heap_) a += std::to_string((unsigned long long)t) + " ";
        a += "] handles_=[";
        for (KeyT t : s.heap->handles_) a += (t == (KeyT)-1 ? std::string("-") : std::to_string((unsigned long long)t)) + " ";
        return a + "]";
    }

    void model_insert(State& s, int k, int v) {
        s.table[k] = v;
        s.present |= 1u << k;
        s.n++;
    }
    void model_erase(State& s, int k) {
        s.table[k] = 0;
        s.present &= ~(1u << k);
        s.n--;
    }

    void check_queries(State& s) {
        Heap& h = *s.heap;
        if (h.size() != s.n) {
            vh::fail_here("size", vh::fmt("size()=%zu, model %s", h.size(), model_str(s).c_str()));
            return;
        }
        if (h.empty() != (s.n == 0)) {
            vh::fail_here("empty", vh::fmt("empty()=%d, model %s", (int)h.empty(), model_str(s).c_str()));
            return;
        }
        for (int k = 0; k < nk + 2; ++k) {  // nk, nk+1: beyond any handles_ size
            bool want = k < nk && has(s, k);
            if (h.contains((KeyT)k) != want) {
                vh::fail_here("contains", vh::fmt("contains(%d)=%d, model %s; %s", k, (int)!want, model_str(s).c_str(), impl_str(s).c_str()));
                return;
            }
        }
        int mp = 0;
        if (min_prio(s, &mp) && !h.empty()) {
            KeyT t = h.top();
            if (t >= A_NKMAX || !has(s, (int)t) || s.table[t] != mp) {
                vh::fail_here("top", vh::fmt("top()=%llu is not a minimum-priority key of %s; %s", (unsigned long long)t, model_str(s).c_str(), impl_str(s).c_str()));
                return;
            }
        }
        if (!h.sanity_check()) {
            vh::fail_here("sanity_check", vh::fmt("sanity_check() false, model %s; %s", model_str(s).c_str(), impl_str(s).c_str()));
            return;
        }
        // structure (private members)
        unsigned seen = 0;
        bool perm = h.heap_.size() == s.n;
        for (KeyT t : h.heap_) {
            if (t >= A_NKMAX || (seen & (1u << t))) perm = false;
            else seen |= 1u << t;
        }
        if (seen != s.present) perm = false;
        if (!perm) {
            vh::fail_here("contents", vh::fmt("heap_ is not a permutation of the model %s; %s", model_str(s).c_str(), impl_str(s).c_str()));
            return;
        }
        else {
            bool hok = true;
            for (size_t i = 0; i < h.heap_.size(); ++i)
                if (h.heap_[i] >= h.handles_.size() || h.handles_[h.heap_[i]] != (KeyT)i) hok = false;
            for (size_t k = 0; k < h.handles_.size(); ++k)
                if (!(k < A_NKMAX && has(s, (int)k)) && h.handles_[k] != (KeyT)-1) hok = false;
            if (!hok) {
                vh::advisory("handles", vh::fmt("handles_ inconsistent with heap_, model %s; %s", model_str(s).c_str(), impl_str(s).c_str()));
            }
            for (size_t i = 1; i < h.heap_.size(); ++i) {
                size_t p = (i - 1) / Arity;
                if (s.table[h.heap_[i]] < s.table[h.heap_[p]]) {
                    vh::advisory("heap-order", vh::fmt("slot %zu precedes its parent slot %zu, model %s; %s", i, p, model_str(s).c_str(), impl_str(s).c_str()));
                }
            }
        }
        if (s.ctx.misuse) {
            vh::fail_here("comparator-argument", s.ctx.first_misuse);
            return;
        }
    }

    template <class Container>
    void fill(Container& keys, const std::vector<int>& l) {
        for (int x : l) keys.push_back((KeyT)x);
    }
    void model_build(State& s, const std::vector<int>& l, unsigned p) {
        for (int k = 0; k < A_NKMAX; ++k) s.table[k] = 0;
        s.present = 0;
        s.n = 0;
        for (size_t j = 0; j < l.size(); ++j) model_insert(s, l[j], pat_prio(p, j, l.size()));
    }
    // the table must be switched BEFORE build_heap runs; keys that leave the heap keep their entry until after the call
    void table_for_build(State& s, const std::vector<int>& l, unsigned p) {
        for (size_t j = 0; j < l.size(); ++j) s.table[l[j]] = pat_prio(p, j, l.size());
    }

    void apply(State& s, uint32_t op) {
        g_ctx = &s.ctx;
        Heap& h = *s.heap;
        unsigned k = op >> 12, a = op & 4095;
        switch (k) {
        case PUSH_COPY: {
            KeyT key = (KeyT)(a / 4);
            s.table[a / 4] = (int)(a % 4);
            h.push(key);
            model_insert(s, (int)(a / 4), (int)(a % 4));
            break;
        }
        case PUSH_MOVE: {
            s.table[a / 4] = (int)(a % 4);
            h.push((KeyT)(a / 4));
            model_insert(s, (int)(a / 4), (int)(a % 4));
            break;
        }
        case UPDATE_ABSENT:
            s.table[a / 4] = (int)(a % 4);
            h.update((KeyT)(a / 4));
            model_insert(s, (int)(a / 4), (int)(a % 4));
            break;
        case POP: {
            KeyT t = h.top();
            h.pop();
            if (t < A_NKMAX && has(s, (int)t)) model_erase(s, (int)t);
            else s.n--;
            break;
        }
        case EXTRACT: {
            int mp = 0;
            min_prio(s, &mp);
            KeyT t = h.extract_top();
            if (t >= A_NKMAX || !has(s, (int)t) || s.table[t] != mp) {
                vh::fail_here("returned-value", vh::fmt("extract_top() returned %llu, not a minimum-priority key of %s", (unsigned long long)t, model_str(s).c_str()));
                s.n--;
            } else model_erase(s, (int)t);
            break;
        }
        case REMOVE:
            h.remove((KeyT)a);
            model_erase(s, (int)a);
            break;
        case UPDATE: h.update((KeyT)a); break;
        case REPRIO_UPDATE:
            s.table[a / 4] = (int)(a % 4);
            h.update((KeyT)(a / 4));
            break;
        case CLEAR:
            h.clear();
            model_build(s, {}, 0);
            break;
        case RESERVE: h.reserve((size_t)a); break;
        case UPDATE_ALL: h.update_all(); break;
        case REPRIO_UPDATE_ALL:
            s.table[a / 4] = (int)(a % 4);
            h.update_all();
            break;
        case RETABLE_UPDATE_ALL:
            for (int i = 0; i < A_NKMAX; ++i)
                if (has(s, i)) s.table[i] = addr_preset(a, i);
            h.update_all();
            break;
        case BUILD_VEC: {
            const std::vector<int>& l = decode_list(a % 512, nk);
            table_for_build(s, l, a / 512);
            std::vector<KeyT> keys;
            fill(keys, l);
            h.build_heap(keys);
            bool same = keys.size() == l.size();
            for (size_t i = 0; same && i < l.size(); ++i) same = keys[i] == (KeyT)l[i];
            if (!same) vh::fail_here("argument-modified", "build_heap(const vector&) changed its argument");
            model_build(s, l, a / 512);
            break;
        }
        case BUILD_ITER: {
            const std::vector<int>& l = decode_list(a % 512, nk);
            table_for_build(s, l, a / 512);
            std::list<KeyT> keys;
            fill(keys, l);
            h.build_heap(keys.begin(), keys.end());
            model_build(s, l, a / 512);
            break;
        }
        case BUILD_MOVE: {
            const std::vector<int>& l = decode_list(a % 512, nk);
            table_for_build(s, l, a / 512);
            std::vector<KeyT> keys;
            fill(keys, l);
            h.build_heap(std::move(keys));
            model_build(s, l, a / 512);
            break;
        }
        case SEED: {
            std::vector<KeyT> keys;
            for (int i = 0; i < nk; ++i) {
                s.table[i] = seed_prio(a, i);
                keys.push_back((KeyT)i);
            }
            h.build_heap(keys);
            s.present = (1u << nk) - 1;
            s.n = (size_t)nk;
            break;
        }
        }
        if (is_last_op_of_published_history(++s.steps)) check_queries(s);
    }

    void observe(State& s) {
        g_ctx = &s.ctx;
        std::string before = canon(s);
        {
            Heap c(*s.heap);
            Heap m(std::move(c));
            std::vector<unsigned long long> out;
            bool alt = false;
            while (!m.empty() && out.size() <= s.n + 2) {
                if (alt) {
                    out.push_back(m.top());
                    m.pop();
                } else out.push_back(m.extract_top());
                alt = !alt;
            }
            unsigned seen = 0;
            bool ok = out.size() == s.n;
            for (size_t i = 0; i < out.size(); ++i) {
                if (out[i] >= A_NKMAX || (seen & (1u << out[i]))) {
                    ok = false;
                    break;
                }
                seen |= 1u << out[i];
                if (i && s.table[out[i]] < s.table[out[i - 1]]) ok = false;
            }
            if (seen != s.present) ok = false;
            for (int k = 0; k < nk + 2 && ok; ++k)
                if (m.contains((KeyT)k)) ok = false;
            if (!ok) {
                std::string o;
                for (auto x : out) o += std::to_string(x) + " ";
                vh::fail_here("drain", vh::fmt("draining a copy gave [%s] (or contains() true afterwards), model %s; %s", o.c_str(), model_str(s).c_str(), impl_str(s).c_str()));
            }
        }
        if (canon(s) != before) vh::fail_here("copy-aliases-original", "draining a copy changed the original heap");
        if (s.ctx.misuse) vh::fail_here("comparator-argument", s.ctx.first_misuse);
        vh::outcome(vh::fmt("DAryAddressableIntHeap a%u size=%zu handles=%zu", Arity, s.n, s.heap->handles_.size()));
    }

    std::string canon(const State& s) {
        std::string c;
        for (KeyT t : s.heap->heap_) c += key_char(t);
        c += '|';
        for (KeyT t : s.heap->handles_) c += t == (KeyT)-1 ? '.' : key_char(t);
        c += '|';
        for (int k = 0; k < nk; ++k) c += (char)('0' + s.table[k]);
        return c;
    }
};

template <class KeyT, unsigned Arity>
void add_addr(std::vector<Config>& out, bool thorough, bool in_quick) {
    if (!thorough && !in_quick) return;
    // Universe: thorough: keys 0..5 for uint32_t keys and arity <= 4 (third tree level), keys 0..4 for arity >= 5 (two levels
    // either way) and for the other key types; quick: keys 0..4.  build_heap from every list of length <= 3 in states
    // holding <= 2 (quick: <= 1) keys.  cost = measured CPU seconds, used for shard balancing only.
    bool big = thorough && Arity <= 4 && std::is_same<KeyT, uint32_t>::value;
    int nk = (int)vh::args().opt_int("nk", big ? 6 : 5);
    static const double cost6[5] = {0, 70, 177, 242, 318}, costq[5] = {0, 5.4, 10, 13, 16};
    double cost = big ? cost6[Arity] : thorough ? 20 : costq[Arity <= 4 ? Arity : 4];
    auto sys = std::make_shared<AddrSys<KeyT, Arity>>(nk, (size_t)vh::args().opt_int("afull", thorough ? 2 : 1));
    vhist::Options opt;  // closure
    {
        // deep family: 2*Arity+2 keys (the smallest heap in which remove() has to sift the moved last element UP: it comes
        // from below slot 2 and lands below slot 1), seeded full heaps, every history of <= 2 ops from each seed.
        auto dsys = std::make_shared<AddrSys<KeyT, Arity>>(2 * (int)Arity + 2, 0, true);
        vhist::Options dopt;
        dopt.max_depth = (int)vh::args().opt_int("adeep", 2);
        for (unsigned p = 0; p < A_NSEEDS; ++p) dopt.seeds.push_back({AddrSys<KeyT, Arity>::enc(AddrSys<KeyT, Arity>::SEED, p)});
        out.push_back(make_config(dsys, 0.5 + 0.4 * Arity, dopt));
    }
    out.push_back(make_config(sys, cost, opt,
                              sys->name() + ": e.g. push(&& 3 with prio 2) update(absent 5 with prio 0) update(3 after prio:=0) remove(5) "
                                            "build_heap(vector&& [1:=0 4:=1 2:=2]) pop() update_all(after prio[4]:=0) clear() — closure over all "
                                            "such histories, keys 0..5 unique, priorities {0,1,2}"));
}

}  // namespace c13
