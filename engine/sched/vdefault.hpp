// vdefault.hpp — run a body once under the serialising scheduler on its DEFAULT schedule, inside the
// current process (used by the input-enumeration dimension of C04/C06/C07: every input on one
// deterministic schedule).  A deadlock / livelock / vs_fail ends the process with exit code 77,
// which vh::run_cases turns into a FAIL for the current case via the exit translator.
#pragma once
#include "common/vharness.hpp"
#include "sched/vsched.h"

namespace vx {

inline vs_shared*& default_shared() {
    static vs_shared* s = nullptr;
    return s;
}

inline void install_default_runner() {
    if (default_shared()) return;
    void* p = mmap(nullptr, sizeof(vs_shared), PROT_READ | PROT_WRITE, MAP_SHARED | MAP_ANONYMOUS, -1, 0);
    if (p == MAP_FAILED) {
        perror("mmap");
        exit(2);
    }
    default_shared() = static_cast<vs_shared*>(p);
    vs_set_abnormal_exit_code(77);
    vh::exit_translator() = [](int status, std::string* kind, std::string* msg) -> bool {
        if (!(WIFEXITED(status) && WEXITSTATUS(status) == 77)) return false;
        vs_shared* sh = default_shared();
        switch (sh->status) {
        case VS_DEADLOCK: *kind = "deadlock"; *msg = std::string("no runnable thread: ") + sh->blocked; return true;
        case VS_HORIZON: *kind = "livelock"; *msg = std::string("step horizon exceeded: ") + sh->blocked; return true;
        case VS_FAIL: *kind = sh->fail_sig; *msg = sh->fail_msg; return true;
        case VS_THREADS_LEFT: *kind = "threads-left"; *msg = sh->blocked; return true;
        default: return false;
        }
    };
}

// returns the number of scheduling steps
inline long run_default(const std::function<void()>& body, int horizon = 2000000, bool delay_mode = false) {
    install_default_runner();
    vs_shared* sh = default_shared();
    sh->nprefix = 0;
    sh->horizon = horizon;
    sh->spurious_at = -1;
    sh->user[1] = delay_mode ? 1 : 0;
    sh->user[2] = 1;
    sh->user[3] = 0;
    sh->user[4] = 0;
    vs_begin(sh);
    body();
    vs_end();
    return sh->nsteps;
}

}  // namespace vx
