// C04: instantiation of the PS5 templates for parameter set p1 (see c04_common.hpp)
#include "harness/c04_common.hpp"
namespace c04 {
void run_p1(const Case& c, FailFn f) { sort_and_check<P1>(c, f); }
}  // namespace c04
