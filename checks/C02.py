"""C02: same harness binaries and explorations as C01, reporting the structural oracle family
(verify(), independent structure walk, tree_stats, allocator ledger, element lifetime ledger, ASan/crashes)."""
from checks.C01 import make_plan


def plan(tier):
    p = make_plan(tier, "structural")
    p["rule"] = ("C02 structural oracle (BTree::verify() with die->exception, independent structure walk, get_stats() == structure, nodes live in the counting allocator == "
                 "nodes of the trees using it, every element object constructed/destroyed exactly once and none alive or allocated after destruction, ASan; semantic mismatches "
                 "are reported by C01 on the same exploration). " + p["rule"])
    return p
