// C13 — tlx::RadixHeap with int64_t keys x radix {2,4,8,16,64} (driver and oracles: c13_radix_heap.hpp).
// Quick tier: none of this TU.
#include "c13_radix_heap.hpp"

namespace c13 {
void register_radix_7(std::vector<Config>& out, bool thorough) {
    add_radix<int64_t, 2>(out, thorough, false);
    add_radix<int64_t, 4>(out, thorough, false);
    add_radix<int64_t, 8>(out, thorough, false);
    add_radix<int64_t, 16>(out, thorough, false);
    add_radix<int64_t, 64>(out, thorough, false);
}
}  // namespace c13
