// C01/C02 type configurations, group 1 [quick tier] (see c01_btree.hpp; C01_TYPE(kind, greater, leaf, inner, search 0=linear 1=binary 2=default traits, element))
#include "c01_btree.hpp"
C01_TYPE(MMAP, true, 4, 4, 1, int)
C01_TYPE(MAP, true, 5, 6, 1, int)
