// vexplore.hpp — stateless, preemption-bounded DFS over the schedules of a harness body (engine E1).
//
// One execution = one forked child: vs_begin(); body(); vs_end().  The child's choices come from a
// prefix (then choice 0 = default everywhere); every scheduling point with >= 2 options is streamed
// into a shared mapping, so the parent knows the exact schedule even if the child dies.  For every
// point after the prefix and every alternative whose accumulated preemption cost stays within the
// bound the explorer recurses.  Bounds are iterated 0,1,2,...; the highest bound COMPLETED is reported.
//
// Sharding: nodes at DFS depth 2 are owned by hash(prefix) % nshards; depth 0/1 nodes are executed by
// every shard (cheap) but counted only by their owner.
#pragma once
#include <algorithm>
#include <map>
#include <string>
#include <unordered_map>
#include <vector>

#include "common/vharness.hpp"
#include "sched/vsched.h"

namespace vx {

struct Scenario {
    std::string name;    // unique, used in replay strings
    std::string family;  // used in failure signatures
    std::function<void()> body;
    int bound_quick = 1, bound_thorough = 2;
    int (*quiescent_ok)() = nullptr;  // may a "no runnable thread" state be legal?
    int spurious_kmax = 3;            // spurious pass: inject at the k-th cv wait for k = 0..spurious_kmax-1
    bool spurious_pass = false;       // additionally explore with one injected spurious wake-up
    int horizon = 50000;
    bool delay = false;  // delay-bounded instead of preemption-bounded: option j at any scheduling point costs j
    bool thorough_only = false;
    bool stateful = false;  // explicit-state mode: no bound, prune at abstract states seen before (needs state_cb/tags)
    uint64_t (*state_cb)() = nullptr;
    bool post_points = true;  // scheduling points also after release-type operations (see vsched.c post_point)
    bool whole = false;  // small scenario: explored entirely by one shard (scenario index % nshards)
};

struct ExecResult {
    int status = 0;
    int npoints = 0, nsteps = 0;
    std::vector<vs_point> points;
    std::string obs, fail_sig, fail_msg, blocked;
    bool crashed = false;
    std::string crash_sig, crash_summary;
    bool timed_out = false;
};

inline vs_shared*& SH() {
    static vs_shared* s = nullptr;
    return s;
}

inline void ensure_shared() {
    if (SH()) return;
    void* p = mmap(nullptr, sizeof(vs_shared), PROT_READ | PROT_WRITE, MAP_SHARED | MAP_ANONYMOUS, -1, 0);
    if (p == MAP_FAILED) {
        perror("mmap");
        exit(2);
    }
    SH() = static_cast<vs_shared*>(p);
}

inline std::string choices_str(const std::vector<unsigned char>& c) {
    std::string s;
    for (size_t i = 0; i < c.size(); ++i) {
        if (i) s += ',';
        s += std::to_string((int)c[i]);
    }
    return s.empty() ? "-" : s;
}

inline std::vector<unsigned char> parse_choices(const std::string& s) {
    std::vector<unsigned char> c;
    if (s == "-" || s.empty()) return c;
    size_t p = 0;
    while (p < s.size()) {
        size_t e = s.find(',', p);
        if (e == std::string::npos) e = s.size();
        c.push_back((unsigned char)atoi(s.substr(p, e - p).c_str()));
        p = e + 1;
    }
    return c;
}

// A worker process runs executions back to back (in-process: creating threads in a freshly forked
// child is ~10x more expensive than fork itself under the sanitizers).  Every abnormal end
// (deadlock, oracle failure, sanitizer report, legal quiescent state with blocked threads) ends the
// worker via _exit; the explorer then starts a new one.  A worker is retired after RECYCLE runs.
struct Worker {
    pid_t pid = -1;
    int to_w = -1, from_w = -1;
    int execs = 0;
};
inline Worker& worker() {
    static Worker w;
    return w;
}
inline const std::vector<Scenario>*& scenario_table() {
    static const std::vector<Scenario>* t = nullptr;
    return t;
}
inline std::string& errfile() {
    static std::string f = vh::tmp_path("vxerr");
    return f;
}
enum { RECYCLE = 3000 };

inline void stop_worker() {
    Worker& w = worker();
    if (w.pid < 0) return;
    close(w.to_w);
    close(w.from_w);
    int st;
    waitpid(w.pid, &st, 0);
    w.pid = -1;
}

inline void start_worker(double timeout_s) {
    Worker& w = worker();
    errfile();  // fix the path in the parent (it contains the parent's pid)
    int a[2], b[2];
    if (pipe(a) != 0 || pipe(b) != 0) {
        perror("pipe");
        exit(2);
    }
    pid_t pid = fork();
    if (pid < 0) {
        perror("fork");
        exit(2);
    }
    if (pid == 0) {
        close(a[1]);
        close(b[0]);
        int fd = open(errfile().c_str(), O_CREAT | O_TRUNC | O_WRONLY, 0600);
        if (fd >= 0) {
            dup2(fd, 2);
            close(fd);
        }
        vs_shared* sh = SH();
        for (;;) {
            char c;
            ssize_t n = read(a[0], &c, 1);
            if (n != 1) _exit(0);
            const Scenario& sc = (*scenario_table())[sh->user[0]];
            alarm((unsigned)timeout_s);  // watchdog: ends a worker that stopped reaching scheduling points
            vs_set_quiescence_cb(sc.quiescent_ok);
            vs_set_state_cb(sc.state_cb);
            vs_begin(sh);
            sc.body();
            vs_end();
            alarm(0);
            if (write(b[1], "k", 1) != 1) _exit(0);
        }
    }
    close(a[0]);
    close(b[1]);
    w.pid = pid;
    w.to_w = a[1];
    w.from_w = b[0];
    w.execs = 0;
}

inline ExecResult run_one(const Scenario& sc, const std::vector<unsigned char>& prefix, int spurious_at,
                          double timeout_s = 120) {
    ensure_shared();
    vs_shared* sh = SH();
    sh->status = VS_RUNNING;
    sh->npoints = 0;
    sh->nsteps = 0;
    sh->obs_len = 0;
    sh->obs[0] = 0;
    sh->fail_sig[0] = sh->fail_msg[0] = sh->blocked[0] = 0;
    sh->horizon = sc.horizon;
    sh->spurious_at = spurious_at;
    sh->user[0] = (int)(&sc - scenario_table()->data());
    sh->user[1] = sc.delay ? 1 : 0;
    sh->user[2] = 0;
    sh->user[3] = sc.post_points ? 1 : 0;
    sh->user[4] = sc.stateful ? 1 : 0;
    sh->user[5] = getenv("VS_DBG") ? 1 : 0;
    if (prefix.size() > VS_MAXPREFIX) {
        vh::out_line("ERROR prefix too long");
        exit(2);
    }
    sh->nprefix = (int)prefix.size();
    if (!prefix.empty()) memcpy(sh->prefix, prefix.data(), prefix.size());
    Worker& w = worker();
    if (w.pid >= 0 && w.execs >= RECYCLE) stop_worker();
    if (w.pid < 0) start_worker(timeout_s);
    w.execs++;
    ExecResult r;
    char c = 'g';
    bool alive = write(w.to_w, &c, 1) == 1;
    ssize_t n = alive ? read(w.from_w, &c, 1) : 0;
    int status = 0;
    if (n != 1) {
        // the worker ended (by design via _exit, or by a crash)
        close(w.to_w);
        close(w.from_w);
        waitpid(w.pid, &status, 0);
        w.pid = -1;
        if (WIFSIGNALED(status) && WTERMSIG(status) == SIGALRM) r.timed_out = true;
    }
    r.status = sh->status;
    r.npoints = sh->npoints;
    r.nsteps = sh->nsteps;
    r.points.assign(sh->points, sh->points + r.npoints);
    r.obs.assign(sh->obs, sh->obs_len);
    r.fail_sig = sh->fail_sig;
    r.fail_msg = sh->fail_msg;
    r.blocked = sh->blocked;
    bool clean = n == 1 || (WIFEXITED(status) && WEXITSTATUS(status) == 0);
    if (!r.timed_out && (!clean || r.status == VS_RUNNING)) {
        r.crashed = true;
        std::string err = vh::read_file(errfile());
        r.crash_sig = vh::crash_signature(err, status, &r.crash_summary);
    }
    return r;
}

inline std::string schedule_str(const ExecResult& r, size_t maxn = 60) {
    std::string s;
    for (size_t i = 0; i < r.points.size() && i < maxn; ++i) {
        const vs_point& p = r.points[i];
        char k = p.kind == VS_K_NORMAL ? 'p' : p.kind == VS_K_YIELD ? 'y' : p.kind == VS_K_FREE ? 'f' : 'n';
        s += vh::fmt("%c%d/%d>T%d ", k, (int)p.chosen, (int)p.nopt, (int)p.tids[p.chosen]);
    }
    if (r.points.size() > maxn) s += "...";
    return s;
}

struct Explorer {
    const Scenario& sc;
    int bound;
    int spurious_at;
    int shard, nshards;
    unsigned long long execs = 0, owned = 0, steps = 0, points_total = 0, failures = 0;
    unsigned long long st_ok = 0, st_quiescent = 0;
    int max_points = 0;
    bool stopped = false;  // deadline or failure cap
    std::string stop_reason;
    std::map<std::string, int> fail_count;
    std::unordered_map<uint64_t, uint64_t> visited;  // stateful mode: abstract state -> signature of its option set
    unsigned long long abstraction_conflicts = 0;

    Explorer(const Scenario& s, int b, int sp) : sc(s), bound(b), spurious_at(sp) {
        shard = s.whole ? 0 : vh::args().shard;
        nshards = s.whole ? 1 : vh::args().nshards;
    }

    std::string replay_of(const std::vector<unsigned char>& ch) const {
        return sc.name + "|" + std::to_string(spurious_at) + "|" + choices_str(ch);
    }

    // returns false when the outcome is a failure
    bool judge(const ExecResult& r, const std::vector<unsigned char>& taken) {
        std::string kind, msg;
        switch (r.status) {
        case VS_OK:
            if (!r.crashed && !r.timed_out) {
                st_ok++;
                return true;
            }
            break;
        case VS_QUIESCENT_OK:
            if (!r.crashed && !r.timed_out) {
                st_quiescent++;
                return true;
            }
            break;
        default: break;
        }
        if (r.timed_out) {
            kind = "hang";
            msg = "execution exceeded the wall-clock limit (no scheduling point reached?)";
        } else if (r.status == VS_DEADLOCK) {
            kind = "deadlock";
            msg = "no runnable thread: " + r.blocked;
        } else if (r.status == VS_HORIZON) {
            kind = "livelock";
            msg = "step horizon exceeded: " + r.blocked;
        } else if (r.status == VS_FAIL) {
            kind = r.fail_sig;
            msg = r.fail_msg;
        } else if (r.status == VS_THREADS_LEFT) {
            kind = "threads-left";
            msg = "body returned while threads were still running: " + r.blocked;
        } else if (r.status == VS_DIVERGED || r.status == VS_SPIN_FAULT) {
            vh::out_line("ERROR " + sc.name + ": " + (r.status == VS_DIVERGED ? "replay diverged (harness nondeterministic): " : "scheduler fairness gap: ") +
                         r.fail_msg + " schedule=" + choices_str(taken));
            stopped = true;
            stop_reason = "harness error";
            return false;
        } else {
            kind = r.crash_sig;
            msg = r.crash_summary;
        }
        failures++;
        fail_count[kind]++;
        vh::fail(sc.family + "/" + kind, replay_of(taken),
                 vh::fmt("scenario=%s bound=%d schedule=[%s] obs=[%s] %s", sc.name.c_str(), bound, schedule_str(r).c_str(),
                         r.obs.substr(0, 200).c_str(), msg.c_str()));
        return false;
    }

    void explore() {
        struct Node {
            std::vector<unsigned char> prefix;
            int depth;
        };
        std::vector<Node> stack;
        stack.push_back({{}, 0});
        while (!stack.empty()) {
            if (stopped) break;
            Node nd = std::move(stack.back());
            stack.pop_back();
            uint64_t h = vh::fnv(std::string(nd.prefix.begin(), nd.prefix.end()) + "#" + std::to_string(nd.prefix.size()));
            bool owner = (int)(h % (uint64_t)nshards) == shard;
            if (nd.depth >= 2 && nd.depth == 2 && !owner) continue;
            bool mine = nd.depth > 2 || owner;
            if ((execs & 63) == 0 && vh::past_deadline()) {
                stopped = true;
                stop_reason = "deadline";
                break;
            }
            ExecResult r = run_one(sc, nd.prefix, spurious_at);
            if (r.timed_out) {
                // a deterministic schedule that hit the watchdog is re-run alone with a much longer limit before it
                // is called a hang (the machine may just be overloaded)
                stop_worker();
                r = run_one(sc, nd.prefix, spurious_at, 1200);
                vh::stat_add("watchdog_reruns");
            }
            execs++;
            if (r.npoints < (int)nd.prefix.size() && (r.status == VS_OK || r.status == VS_QUIESCENT_OK)) {
                vh::out_line("ERROR " + sc.name + ": execution ended before the prefix was consumed (nondeterminism) prefix=" +
                             choices_str(nd.prefix));
                stopped = true;
                stop_reason = "harness error";
                break;
            }
            std::vector<unsigned char> taken(r.npoints);
            for (int i = 0; i < r.npoints; ++i) taken[i] = r.points[i].chosen;
            if (mine) {
                owned++;
                steps += r.nsteps;
                points_total += r.npoints;
                max_points = std::max(max_points, r.npoints);
                judge(r, taken);
                if (!r.obs.empty()) vh::outcome(sc.name + ":" + r.obs.substr(0, 300));
                if (owned == 1 && nd.depth == 0 && vh::args().shard == 0 && bound == 0)
                    vh::sample(vh::fmt("%s default schedule (%d choice points, %d steps): %s obs=[%s]", sc.name.c_str(), r.npoints,
                                       r.nsteps, schedule_str(r, 40).c_str(), r.obs.substr(0, 120).c_str()),
                               6);
                if (failures >= 25) {
                    stopped = true;
                    stop_reason = "25 failing schedules in this scenario";
                }
            }
            // children
            auto cost_of = [&](const vs_point& p, int choice) -> int {
                if (choice == 0 || p.altcost == 0) return 0;
                return sc.delay ? p.altcost * choice : p.altcost;
            };
            int cost = 0;
            for (int i = 0; i < (int)nd.prefix.size() && i < r.npoints; ++i) cost += cost_of(r.points[i], r.points[i].chosen);
            std::vector<Node> kids;
            for (int i = (int)nd.prefix.size(); i < r.npoints; ++i) {
                const vs_point& p = r.points[i];
                if (sc.stateful) {
                    // explicit-state mode: a state seen before has had all its alternatives scheduled; everything
                    // later on this execution is reachable from it, so stop branching here
                    // signature of the option SET (the order and the point kind depend on the scheduler's fairness
                    // counter, which is deliberately not part of the abstract state)
                    uint64_t sig = p.kind == VS_K_NOTIFY ? (1ull << 62) : 0;
                    for (int k = 0; k < p.nopt && k < VS_MAXOPT; ++k) sig |= 1ull << (p.tids[k] & 63);
                    auto it = visited.find(p.state);
                    if (it != visited.end()) {
                        if (it->second != sig) abstraction_conflicts++;
                        break;
                    }
                    visited.emplace(p.state, sig);
                    for (int alt = 1; alt < p.nopt; ++alt) {
                        Node k;
                        k.prefix.assign(taken.begin(), taken.begin() + i);
                        k.prefix.push_back((unsigned char)alt);
                        k.depth = nd.depth + 1;
                        kids.push_back(std::move(k));
                    }
                    continue;
                }
                for (int alt = 1; alt < p.nopt; ++alt) {
                    if (cost + cost_of(p, alt) > bound) break;
                    Node k;
                    k.prefix.assign(taken.begin(), taken.begin() + i);
                    k.prefix.push_back((unsigned char)alt);
                    k.depth = nd.depth + 1;
                    kids.push_back(std::move(k));
                }
            }
            for (size_t i = kids.size(); i-- > 0;) stack.push_back(std::move(kids[i]));
        }
    }
};

// replay string: <scenario>|<spurious_at>|<choices>
inline int replay(const std::vector<Scenario>& scs, const std::string& rp) {
    size_t b = rp.rfind('|'), a = rp.rfind('|', b - 1);  // the scenario name may itself contain '|' 
    std::string name = rp.substr(0, a);
    int sp = atoi(rp.substr(a + 1, b - a - 1).c_str());
    std::vector<unsigned char> ch = parse_choices(rp.substr(b + 1));
    for (const Scenario& sc : scs) {
        if (sc.name != name) continue;
        Explorer ex(sc, 99, sp);
        ExecResult r = run_one(sc, ch, sp, 120);
        std::vector<unsigned char> taken(r.npoints);
        for (int i = 0; i < r.npoints; ++i) taken[i] = r.points[i].chosen;
        ex.judge(r, taken);
        vh::out_line("NOTE replay " + name + " status=" + std::to_string(r.status) + " schedule=" + schedule_str(r, 200) + " obs=" + r.obs);
        return vh::finish();
    }
    vh::out_line("ERROR unknown scenario in replay: " + name);
    return vh::finish();
}

// main driver: iterate bounds per scenario
inline int run(int argc, char** argv, const std::vector<Scenario>& scs) {
    vh::init(argc, argv);
    scenario_table() = &scs;
    ensure_shared();
    vh::Args& A = vh::args();
    if (A.has_replay) return replay(scs, A.replay);
    std::string only = A.opt("scenario");
    long bound_override = A.opt_int("bound", -1);
    long bound_delta = A.opt_int("bound_delta", 0);  // e.g. -1 for the TSan build
    int sc_index = -1;
    // diagnostic (VX_TIMING=1): wall time per scenario class = family / number of ':' in the name / explicit-state
    std::map<std::string, double> timing;
    std::string timing_key;
    double timing_t0 = 0;
    auto timing_flush = [&](const std::string& next) {
        if (!getenv("VX_TIMING")) return;
        double now = vh::now();
        if (!timing_key.empty()) timing[timing_key] += now - timing_t0;
        timing_key = next;
        timing_t0 = now;
    };
    for (const Scenario& sc : scs) {
        ++sc_index;
        if (!only.empty() && sc.name.find(only) == std::string::npos) continue;
        if (sc.thorough_only && !A.thorough()) continue;
        if (sc.stateful && A.opt("nostateful") == "1") continue;  // (TSan builds: explicit-state mode is a functional exploration)
        if (sc.whole && sc_index % A.nshards != A.shard) continue;
        if (vh::past_deadline()) {
            vh::cap("deadline reached: scenario " + sc.name + " and later ones not explored");
            break;
        }
        timing_flush(vh::fmt("%s/%d%s", sc.family.c_str(), (int)std::count(sc.name.begin(), sc.name.end(), ':'), sc.stateful ? "/X" : ""));
        int B = A.thorough() ? sc.bound_thorough : sc.bound_quick;
        B += (int)bound_delta;
        if (B < 0) B = 0;
        if (bound_override >= 0) B = (int)bound_override;
        // determinism self-test: the default schedule twice
        {
            ExecResult r1 = run_one(sc, {}, -1), r2 = run_one(sc, {}, -1);
            bool same = r1.status == r2.status && r1.npoints == r2.npoints && r1.obs == r2.obs && r1.nsteps == r2.nsteps;
            for (int i = 0; same && i < r1.npoints; ++i)
                same = memcmp(&r1.points[i], &r2.points[i], sizeof(vs_point)) == 0;
            if (!same) {
                vh::out_line("ERROR " + sc.name + ": replaying the default schedule twice gave different observations (harness nondeterministic)");
                continue;
            }
            vh::stat_add("replay_selftests");
        }
        int completed = -1;
        bool any_fail = false;
        if (sc.stateful) {
            Explorer ex(sc, 0, -1);
            ex.explore();
            vh::stat_add("executions", ex.owned);
            vh::stat_add("transitions", ex.steps);
            vh::stat_add("choice_points", ex.points_total);
            vh::stat_add("ok_runs", ex.st_ok);
            vh::stat_add("quiescent_ok_runs", ex.st_quiescent);
            vh::stat_add("states", ex.visited.size());
            vh::stat_add("stateful_abstract_states", ex.visited.size());
            vh::stat_add("stateful_scenarios_completed", ex.stopped ? 0 : 1);
            vh::stat_max("max_choice_points", ex.max_points);
            if (ex.abstraction_conflicts)
                vh::out_line(vh::fmt("ERROR %s: %llu abstract states were reached with different option sets (state abstraction incomplete)",
                                     sc.name.c_str(), ex.abstraction_conflicts));
            if (ex.stopped && ex.stop_reason == "deadline") vh::cap(sc.name + ": deadline during explicit-state exploration");
            vh::note(vh::fmt("%s: explicit-state exploration: %zu abstract states, %llu executions%s", sc.name.c_str(), ex.visited.size(),
                             ex.owned, ex.stopped ? " (stopped)" : " (complete)"));
            continue;
        }
        for (int b = 0; b <= B; ++b) {
            Explorer ex(sc, b, -1);
            ex.explore();
            vh::stat_add("executions", ex.owned);
            vh::stat_add("transitions", ex.steps);
            vh::stat_add("choice_points", ex.points_total);
            vh::stat_add("ok_runs", ex.st_ok);
            vh::stat_add("quiescent_ok_runs", ex.st_quiescent);
            vh::stat_max("max_choice_points", ex.max_points);
            if (b == B || ex.stopped) {
                vh::stat_add("schedules_at_top_bound", ex.owned);
                vh::stat_add("states", ex.owned);
            }
            if (ex.failures) any_fail = true;
            if (ex.stopped) {
                if (ex.stop_reason == "deadline")
                    vh::cap(vh::fmt("%s: deadline during bound %d (bound %d completed)", sc.name.c_str(), b, completed));
                else if (ex.stop_reason != "harness error")
                    vh::note(vh::fmt("%s: exploration of bound %d stopped: %s", sc.name.c_str(), b, ex.stop_reason.c_str()));
                break;
            }
            completed = b;
        }
        vh::stat_max(("bound_completed_" + sc.family).c_str(), completed < 0 ? 0 : completed);
        if (A.shard == 0 && !sc.whole) vh::note(vh::fmt("%s: bound completed=%d%s", sc.name.c_str(), completed, any_fail ? " (failures)" : ""));
        if (sc.spurious_pass && !any_fail && !vh::past_deadline()) {
            // one injected spurious wake-up at the k-th cv wait, for every k that occurs on the default schedule
            for (int k = 0; k < sc.spurious_kmax; ++k) {
                Explorer ex(sc, std::min(B, 1), k);
                ex.explore();
                vh::stat_add("executions", ex.owned);
                vh::stat_add("spurious_executions", ex.owned);
                vh::stat_add("transitions", ex.steps);
                if (ex.stopped) break;
            }
        }
    }
    timing_flush("");
    for (auto& kv : timing) vh::note(vh::fmt("timing %s: %.1f s", kv.first.c_str(), kv.second));
    stop_worker();
    return vh::finish();
}

}  // namespace vx
