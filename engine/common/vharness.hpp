// vharness.hpp — common harness runtime for /verif checks.
//
// Line protocol on stdout (read by lib/vlib.py):
//   STAT <key> <int>     summed over shards        MAX <key> <int>   max over shards
//   SAMPLE <text>        a written-out case        OUTCOME <text>    distinct observed outcome
//   FAIL <sig>\t<replay>\t<msg>                    CAP <text>        a cap was hit (not exhaustive)
//   NOTE <text>          ERROR <text>              DONE
//
// Crash isolation: the exploration runs in a forked child that publishes "where it is"
// (op label for the signature + a replay string) in a shared mapping; when the child dies
// (ASan report, assert, signal) the parent turns that into a FAIL line whose signature carries
// the sanitizer kind and top tlx frame, and restarts the child past / around the crashing case.
#pragma once
#include <fcntl.h>
#include <signal.h>
#include <sys/mman.h>
#include <sys/stat.h>
#include <sys/time.h>
#include <sys/wait.h>
#include <time.h>
#include <unistd.h>

#include <cstdarg>
#include <cstdint>
#include <cstdio>
#include <cstdlib>
#include <cstring>
#include <functional>
#include <map>
#include <set>
#include <sstream>
#include <string>
#include <vector>

// coverage experiments (-fprofile-instr-generate): children leave through _exit, so flush the profile explicitly
extern "C" int __llvm_profile_write_file(void) __attribute__((weak));

namespace vh {

struct Shared {
    volatile uint64_t cur_case;
    volatile uint64_t cases_done;
    char op[128];
    char replay[3584];
    // counters
    int nstat;
    char stat_name[96][40];
    long long stat_val[96];
    bool stat_is_max[96];
    // per-signature print limiter
    int nsig;
    uint64_t sig_hash[512];
    int sig_cnt[512];
    int nsample;
    int noutcome;
    uint64_t outcome_hash[1024];
};

inline Shared*& shm() {
    static Shared* s = nullptr;
    return s;
}

struct Args {
    std::string tier = "quick";
    int shard = 0, nshards = 1;
    std::string replay;
    bool has_replay = false;
    double deadline = 1e18;  // absolute, seconds since epoch
    std::vector<std::string> rest;
    bool thorough() const { return tier == "thorough"; }
    // generic key=value options
    std::string opt(const std::string& key, const std::string& def = "") const {
        for (auto& r : rest)
            if (r.compare(0, key.size() + 1, key + "=") == 0) return r.substr(key.size() + 1);
        return def;
    }
    long opt_int(const std::string& key, long def) const {
        std::string v = opt(key);
        return v.empty() ? def : atol(v.c_str());
    }
};

inline Args& args() {
    static Args a;
    return a;
}

inline double now() {
    timeval tv;
    gettimeofday(&tv, nullptr);
    return tv.tv_sec + tv.tv_usec * 1e-6;
}

inline bool past_deadline() { return now() > args().deadline; }

inline void out_line(const std::string& s) {
    std::string t = s;
    for (auto& c : t)
        if (c == '\n' || c == '\r') c = ' ';
    t += '\n';
    size_t off = 0;
    while (off < t.size()) {
        ssize_t w = ::write(1, t.data() + off, t.size() - off);
        if (w <= 0) break;
        off += w;
    }
}

inline uint64_t fnv(const std::string& s) {
    uint64_t h = 1469598103934665603ull;
    for (unsigned char c : s) h = (h ^ c) * 1099511628211ull;
    return h;
}

inline std::string fmt(const char* f, ...) {
    char buf[4096];
    va_list ap;
    va_start(ap, f);
    vsnprintf(buf, sizeof buf, f, ap);
    va_end(ap);
    return buf;
}

inline void init(int argc, char** argv) {
    Args& a = args();
    for (int i = 1; i < argc; ++i) {
        std::string s = argv[i];
        if (s == "--tier" && i + 1 < argc) a.tier = argv[++i];
        else if (s == "--shard" && i + 1 < argc) {
            sscanf(argv[++i], "%d/%d", &a.shard, &a.nshards);
        } else if (s == "--replay" && i + 1 < argc) {
            a.replay = argv[++i];
            a.has_replay = true;
        } else if (s == "--deadline" && i + 1 < argc) {
            a.deadline = now() + atof(argv[++i]);
        } else a.rest.push_back(s);
    }
    void* p = mmap(nullptr, sizeof(Shared), PROT_READ | PROT_WRITE, MAP_SHARED | MAP_ANONYMOUS, -1, 0);
    if (p == MAP_FAILED) {
        perror("mmap");
        exit(2);
    }
    memset(p, 0, sizeof(Shared));
    shm() = static_cast<Shared*>(p);
    signal(SIGPIPE, SIG_IGN);
}

inline int stat_slot(const char* name, bool is_max) {
    Shared* s = shm();
    for (int i = 0; i < s->nstat; ++i)
        if (strcmp(s->stat_name[i], name) == 0) return i;
    if (s->nstat >= 96) return 95;
    int i = s->nstat++;
    strncpy(s->stat_name[i], name, 39);
    s->stat_is_max[i] = is_max;
    return i;
}
inline void stat_add(const char* name, long long n = 1) { shm()->stat_val[stat_slot(name, false)] += n; }
inline void stat_max(const char* name, long long v) {
    int i = stat_slot(name, true);
    if (shm()->stat_val[i] < v) shm()->stat_val[i] = v;
}

// where we are: op = short label used in the failure signature; replay = string that
// re-creates the case via --replay.
inline void at_op(const char* op) {
    Shared* s = shm();
    size_t n = strlen(op);
    if (n > sizeof(s->op) - 1) n = sizeof(s->op) - 1;
    memcpy(s->op, op, n);
    s->op[n] = 0;
}
inline void at_replay(const std::string& replay) {
    Shared* s = shm();
    size_t n = replay.size();
    if (n > sizeof(s->replay) - 1) n = sizeof(s->replay) - 1;
    memcpy(s->replay, replay.data(), n);
    s->replay[n] = 0;
}
inline void at(const char* op, const std::string& replay) {
    at_op(op);
    at_replay(replay);
}
inline std::string cur_replay() { return shm()->replay; }
inline std::string cur_op() { return shm()->op; }

inline void sample(const std::string& text, int limit = 4) {
    if (shm()->nsample < limit) {
        shm()->nsample++;
        out_line("SAMPLE " + text);
    }
}

inline void outcome(const std::string& text) {
    Shared* s = shm();
    uint64_t h = fnv(text);
    for (int i = 0; i < s->noutcome; ++i)
        if (s->outcome_hash[i] == h) return;
    if (s->noutcome >= 1024) return;
    s->outcome_hash[s->noutcome++] = h;
    out_line("OUTCOME " + text);
}

// report a failure; the first `limit` per signature are printed, all are counted.
inline void fail(const std::string& sig, const std::string& replay, const std::string& msg, int limit = 2) {
    Shared* s = shm();
    uint64_t h = fnv(sig);
    int i;
    for (i = 0; i < s->nsig; ++i)
        if (s->sig_hash[i] == h) break;
    if (i == s->nsig) {
        if (s->nsig >= 512) return;
        s->sig_hash[i] = h;
        s->sig_cnt[i] = 0;
        s->nsig++;
    }
    stat_add("failing_cases");
    if (s->sig_cnt[i]++ < limit) out_line("FAIL " + sig + "\t" + replay + "\t" + msg);
}
// failure at the current position
inline void fail_here(const std::string& kind, const std::string& msg) {
    fail(std::string(shm()->op) + "/" + kind, shm()->replay, msg);
}

#define VH_CHECK(cond, kind, ...)                                  \
    do {                                                           \
        if (!(cond)) ::vh::fail_here(kind, ::vh::fmt(__VA_ARGS__)); \
    } while (0)

inline void cap(const std::string& text) { out_line("CAP " + text); }
inline void note(const std::string& text) { out_line("NOTE " + text); }
// An invariant of the CURRENT internal representation (array layout, cursor range, list direction ...) that the property
// does not state.  Not a verdict: a violation of the property must also show through an observable oracle (reference
// comparison, sanitizer, the library's own asserts / self-check), which the exploration reaches in this or a successor
// state.  Reported once per kind as a NOTE so that a representation-changing but correct refactoring raises no alarm.
inline void advisory(const char* kind, const std::string& text) {
    static std::set<std::string> seen;
    stat_add("internal_anomalies");
    if (seen.insert(kind).second) out_line(std::string("NOTE internal-representation anomaly (advisory, not a verdict) ") + kind + ": " + text.substr(0, 400));
}

// ---------------------------------------------------------------------------
// crash report parsing

inline std::string simplify_func(std::string f) {
    // strip template arguments and parameter lists: tlx::RingBuffer<int, A>::pop_back() -> tlx::RingBuffer::pop_back
    std::string o;
    int depth = 0;
    for (size_t i = 0; i < f.size(); ++i) {
        char c = f[i];
        if (c == '<') {
            // keep "operator<" forms
            if (o.size() >= 8 && o.compare(o.size() - 8, 8, "operator") == 0) { o += c; continue; }
            depth++;
        } else if (c == '>') {
            if (depth > 0) depth--;
            else o += c;
        } else if (c == '(' && depth == 0) break;
        else if (depth == 0) o += c;
    }
    while (!o.empty() && o.back() == ' ') o.pop_back();
    for (auto& c : o)
        if (c == ' ' || c == '\t') c = '_';
    return o;
}

inline std::string read_file(const std::string& path, size_t max = 1 << 20) {
    std::string r;
    FILE* f = fopen(path.c_str(), "r");
    if (!f) return r;
    char buf[4096];
    size_t n;
    while ((n = fread(buf, 1, sizeof buf, f)) > 0 && r.size() < max) r.append(buf, n);
    fclose(f);
    return r;
}

// derive "<kind>/<top tlx frame>" from a sanitizer / assert report
inline std::string crash_signature(const std::string& err, int status, std::string* summary) {
    std::string kind = "crash", frame;
    size_t p;
    if ((p = err.find("ERROR: AddressSanitizer: ")) != std::string::npos) {
        size_t e = err.find_first_of(" \n", p + 25);
        kind = "asan:" + err.substr(p + 25, e - (p + 25));
        if (kind == "asan:attempting") kind = "asan:bad-free";
    } else if ((p = err.find("WARNING: ThreadSanitizer: ")) != std::string::npos) {
        size_t e = err.find_first_of("(\n", p + 26);
        kind = "tsan:" + err.substr(p + 26, e - (p + 26));
        while (!kind.empty() && kind.back() == ' ') kind.pop_back();
        for (auto& c : kind)
            if (c == ' ') c = '-';
    } else if ((p = err.find("Assertion `")) != std::string::npos) {
        size_t e = err.find("' failed", p);
        std::string ex = err.substr(p + 11, e == std::string::npos ? 40 : e - (p + 11));
        for (auto& c : ex)
            if (c == ' ' || c == '\t') c = '_';
        kind = "assert:" + ex.substr(0, 60);
        // "file:line: func: Assertion"
        size_t ls = err.rfind('\n', p);
        std::string line = err.substr(ls == std::string::npos ? 0 : ls + 1, p - (ls == std::string::npos ? 0 : ls + 1));
        size_t c1 = line.find(": ");
        if (c1 != std::string::npos) {
            std::string fn = line.substr(c1 + 2);
            size_t c2 = fn.rfind(": ");
            if (c2 != std::string::npos) fn = fn.substr(0, c2);
            // drop return type
            size_t par = fn.find('(');
            std::string head = fn.substr(0, par);
            size_t sp = head.rfind(' ');
            if (sp != std::string::npos) fn = fn.substr(sp + 1);
            frame = simplify_func(fn);
        }
    } else if (WIFSIGNALED(status) && WTERMSIG(status) == SIGALRM) {
        kind = "hang";  // watchdog: no progress within the per-case time limit
    } else if (WIFSIGNALED(status)) {
        kind = fmt("signal:%d", WTERMSIG(status));
    } else if (WIFEXITED(status)) {
        kind = fmt("exit:%d", WEXITSTATUS(status));
        if ((p = err.find("DIE: ")) != std::string::npos) kind = "die";
    }
    if (frame.empty()) {
        // first stack frame located in a tlx source file
        size_t pos = 0;
        while ((pos = err.find("    #", pos)) != std::string::npos) {
            size_t eol = err.find('\n', pos);
            std::string line = err.substr(pos, eol - pos);
            pos = eol == std::string::npos ? err.size() : eol;
            size_t in = line.find(" in ");
            if (in == std::string::npos) continue;
            if (line.find("/tlx/") == std::string::npos) continue;
            if (line.find("/verif/") != std::string::npos) continue;
            std::string rest = line.substr(in + 4);
            size_t sp = rest.rfind(" /");
            if (sp != std::string::npos) rest = rest.substr(0, sp);
            frame = simplify_func(rest);
            break;
        }
    }
    if (summary) {
        size_t s = err.find("ERROR: AddressSanitizer");
        if (s == std::string::npos) s = err.find("WARNING: ThreadSanitizer");
        if (s == std::string::npos) s = err.find("Assertion `");
        if (s == std::string::npos) s = err.size() > 600 ? err.size() - 600 : 0;
        *summary = err.substr(s, 900);
    }
    return frame.empty() ? kind : kind + "/" + frame;
}

// optional hook: turn a child's exit status into a failure kind (used by in-process scheduler runs,
// where the scheduler ends the process with a reserved exit code on deadlock / oracle failure)
inline std::function<bool(int status, std::string* kind, std::string* msg)>& exit_translator() {
    static std::function<bool(int, std::string*, std::string*)> f;
    return f;
}

inline std::string tmp_path(const char* tag) {
    const char* d = getenv("VERIF_TMP");
    std::string dir = d ? d : "/tmp";
    return fmt("%s/%s.%d.%d", dir.c_str(), tag, (int)getpid(), args().shard);
}

// Run body() in a forked child with stderr captured.  Returns true if the child finished
// normally.  On a crash a FAIL line is emitted for the position published with at().
inline bool run_child(const std::function<void()>& body, double timeout_s = 0) {
    std::string errfile = tmp_path("stderr");
    fflush(stdout);
    pid_t pid = fork();
    if (pid < 0) {
        perror("fork");
        exit(2);
    }
    if (pid == 0) {
        int fd = open(errfile.c_str(), O_CREAT | O_TRUNC | O_WRONLY, 0600);
        if (fd >= 0) {
            dup2(fd, 2);
            close(fd);
        }
        body();
        fflush(stdout);
        if (__llvm_profile_write_file) __llvm_profile_write_file();
        _exit(0);
    }
    int status = 0;
    if (timeout_s > 0) {
        double t0 = now();
        for (;;) {
            pid_t r = waitpid(pid, &status, WNOHANG);
            if (r == pid) break;
            if (now() - t0 > timeout_s) {
                kill(pid, SIGKILL);
                waitpid(pid, &status, 0);
                unlink(errfile.c_str());
                fail(std::string(shm()->op) + "/hang", shm()->replay,
                     fmt("no progress: case exceeded %.0fs", timeout_s));
                return false;
            }
            usleep(2000);
        }
    } else {
        waitpid(pid, &status, 0);
    }
    bool ok = WIFEXITED(status) && WEXITSTATUS(status) == 0;
    if (!ok) {
        std::string err = read_file(errfile);
        std::string summary;
        std::string sig;
        if (!(exit_translator() && exit_translator()(status, &sig, &summary))) sig = crash_signature(err, status, &summary);
        fail(std::string(shm()->op) + "/" + sig, shm()->replay, summary);
    }
    unlink(errfile.c_str());
    return ok;
}

// E3: enumerate case ids [0,n) that belong to this shard; resume after a crashing case.
inline void run_cases(uint64_t n, const std::function<void(uint64_t)>& fn) {
    Args& a = args();
    uint64_t start = a.shard;
    int crashes = 0;
    bool capped = false;
    while (start < n) {
        bool ok = run_child([&] {
            unsigned watchdog = (unsigned)a.opt_int("case_timeout", 120);
            double armed = 0;
            for (uint64_t c = start; c < n; c += a.nshards) {
                // watchdog re-armed at most once per second of progress: a single case that
                // makes no progress for `watchdog` seconds ends the child as <op>/hang
                timespec ts;
                clock_gettime(CLOCK_MONOTONIC_COARSE, &ts);
                double t = ts.tv_sec + ts.tv_nsec * 1e-9;
                if (t - armed > 1.0) {
                    alarm(watchdog);
                    armed = t;
                }
                shm()->cur_case = c;
                if ((c & 0xff) == 0 && past_deadline()) {
                    shm()->cur_case = UINT64_MAX;  // deadline marker
                    return;
                }
                fn(c);
                shm()->cases_done++;
            }
            shm()->cur_case = n;
        });
        if (ok && shm()->cur_case == UINT64_MAX) {
            capped = true;
            break;
        }
        if (ok && shm()->cur_case >= n) break;
        if (ok)  // the child left through exit(0) in the middle of a case
            fail(std::string(shm()->op) + "/premature-exit", shm()->replay, "the process exited inside this case");
        start = shm()->cur_case + a.nshards;
        if (++crashes >= 200) {
            cap("more than 200 crashing cases in one shard; remaining cases skipped");
            break;
        }
    }
    if (capped) cap(fmt("deadline reached after %llu cases of this shard", (unsigned long long)shm()->cases_done));
}

// E2: run a whole exploration in a child; on a crash, remember the crashing transition label
// (the replay string) in `skip` and start over, treating it as terminal.
// `skip` holds the replay strings of crashing transitions (treated as terminal by the caller); when the
// same op label crashes `class_limit` times the label is added to disabled_labels() and the caller
// stops driving that class of transitions altogether (reported as CAP: the run is then not exhaustive).
inline std::set<std::string>& disabled_labels() {
    static std::set<std::string> d;
    return d;
}
inline void run_isolated(const std::function<void(const std::set<std::string>&)>& fn, int max_restarts = 60,
                         int class_limit = 3) {
    std::set<std::string> skip;
    std::map<std::string, int> crashes_by_label;
    // counters added by fn are re-computed by every restart; counters of earlier work in this process stay
    Shared* s = shm();
    long long saved[96];
    int saved_n = s->nstat;
    for (int i = 0; i < 96; ++i) saved[i] = s->stat_val[i];
    int saved_samples = s->nsample;
    for (int r = 0;; ++r) {
        for (int i = 0; i < s->nstat; ++i) s->stat_val[i] = i < saved_n ? saved[i] : 0;
        s->nsample = saved_samples;
        bool ok = run_child([&] { fn(skip); });
        if (ok) break;
        skip.insert(shm()->replay);
        std::string label = shm()->op;
        if (++crashes_by_label[label] >= class_limit && !disabled_labels().count(label)) {
            disabled_labels().insert(label);
            cap("transitions labelled '" + label + "' crashed " + std::to_string(class_limit) + " times and are no longer driven");
        }
        if (r + 1 >= max_restarts) {
            cap("too many crashing transitions; exploration stopped");
            break;
        }
    }
}

inline int finish() {
    Shared* s = shm();
    for (int i = 0; i < s->nstat; ++i)
        out_line(fmt("%s %s %lld", s->stat_is_max[i] ? "MAX" : "STAT", s->stat_name[i], s->stat_val[i]));
    out_line("DONE");
    return 0;
}

// run one replay case in an isolated child and finish
inline int replay_one(const std::function<void(const std::string&)>& fn) {
    run_child([&] { fn(args().replay); });
    return finish();
}

}  // namespace vh
