// C01/C02 type configurations, group 17 (see c01_btree.hpp; C01_TYPE(kind, greater, leaf, inner, search 0=linear 1=binary 2=default traits, element))
#include "c01_btree.hpp"
C01_TYPE(MSET, false, 7, 8, 0, int)
C01_TYPE(SET, false, 7, 9, 0, int)
C01_TYPE(MMAP, true, 7, 9, 1, int)
C01_TYPE(SET, false, 8, 4, 0, int)
C01_TYPE(MMAP, true, 8, 4, 1, int)
C01_TYPE(MAP, true, 8, 5, 1, int)
C01_TYPE(MSET, false, 8, 5, 0, int)
