// c04_common.hpp — C04: tlx parallel string sample sort (PS5) with tiny thresholds.
// The harness calls the real template code parallel_sample_sort_params<P>(strptr, 0) — the same code
// sort_strings_parallel() runs with PS5ParametersDefault, only the constants differ (with the default
// 1 Mi-string threshold every small input is a single sequential job and nothing concurrent runs).
// Compiled with the shadow-std shim: ThreadPool, the step counters and the sampler's RNG are owned by
// the scheduler / harness.
#pragma once
#include <tlx/sort/strings/parallel_sample_sort.hpp>
#include <tlx/sort/strings_parallel.hpp>

#include <algorithm>
#include <string>
#include <vector>

#include "common/vharness.hpp"
#include "sched/vsched.h"

namespace c04 {

namespace ssd = tlx::sort_strings_detail;

template <unsigned TB, size_t SS, size_t IS, bool WS, bool RS, typename KT>
struct Params : public ssd::PS5ParametersDefault {
    static const bool enable_work_sharing = WS;
    static const bool enable_rest_size = RS;
    typedef KT key_type;
    static const unsigned TreeBits = TB;
    using Classify = ssd::SSClassifyTreeCalcUnrollInterleave<key_type, TreeBits>;
    static const size_t smallsort_threshold = SS;
    static const size_t inssort_threshold = IS;
};

struct Case {
    std::vector<std::string> strs;
    int workers;
    int param;  // index into the parameter table
    int lcp;    // 0/1
    int set;    // 0 = UCharStringSet (char pointers), 1 = StdStringSet
    unsigned seed;
    std::string strs_str() const {
        std::string s;
        for (size_t i = 0; i < strs.size(); ++i) s += (i ? "," : "") + (strs[i].empty() ? std::string("_") : strs[i]);
        return strs.empty() ? "none" : s;
    }
    std::string str() const { return vh::fmt("%s|w%d|p%d|l%d|s%d|r%u", strs_str().c_str(), workers, param, lcp, set, seed); }
    std::string label() const { return vh::fmt("parallel_sample_sort[%s]", lcp ? "lcp" : "nolcp"); }
};

inline Case parse_case(const std::string& s) {
    Case c;
    std::vector<std::string> f;
    size_t p = 0;
    while (true) {
        size_t e = s.find('|', p);
        f.push_back(s.substr(p, e == std::string::npos ? std::string::npos : e - p));
        if (e == std::string::npos) break;
        p = e + 1;
    }
    if (f[0] != "none") {
        size_t q = 0;
        while (true) {
            size_t e = f[0].find(',', q);
            std::string t = f[0].substr(q, e == std::string::npos ? std::string::npos : e - q);
            c.strs.push_back(t == "_" ? "" : t);
            if (e == std::string::npos) break;
            q = e + 1;
        }
    }
    c.workers = atoi(f[1].c_str() + 1);
    c.param = atoi(f[2].c_str() + 1);
    c.lcp = atoi(f[3].c_str() + 1);
    c.set = atoi(f[4].c_str() + 1);
    c.seed = (unsigned)atoi(f[5].c_str() + 1);
    return c;
}

typedef void (*FailFn)(const char* kind, const std::string& msg);

inline size_t common_prefix(const std::string& a, const std::string& b) {
    size_t i = 0;
    while (i < a.size() && i < b.size() && a[i] == b[i]) ++i;
    return i;
}

// sort with parameter set P and check the result
template <class P>
void sort_and_check(const Case& c, FailFn failfn) {
    size_t n = c.strs.size();
    vshim::config::hardware_concurrency() = (unsigned)c.workers;
    vshim::config::rng_seed() = c.seed;
    std::vector<std::string> sorted_ref = c.strs;
    std::sort(sorted_ref.begin(), sorted_ref.end(), [](const std::string& a, const std::string& b) {
        return std::lexicographical_compare(a.begin(), a.end(), b.begin(), b.end(),
                                            [](char x, char y) { return (unsigned char)x < (unsigned char)y; });
    });
    std::vector<size_t> lcp(n + 1, 0xDEAD);
    std::vector<std::string> out(n);
    bool identity_ok = true;
    if (c.set == 0) {
        // C strings: each string object is its own exact-size heap block (NUL terminated)
        std::vector<unsigned char*> blocks(n);
        for (size_t i = 0; i < n; ++i) {
            blocks[i] = new unsigned char[c.strs[i].size() + 1];
            memcpy(blocks[i], c.strs[i].data(), c.strs[i].size());
            blocks[i][c.strs[i].size()] = 0;
        }
        unsigned char** arr = new unsigned char*[n ? n : 1];
        for (size_t i = 0; i < n; ++i) arr[i] = blocks[i];
        ssd::UCharStringSet ss(arr, arr + n);
        if (c.lcp)
            ssd::parallel_sample_sort_params<P>(ssd::StringLcpPtr<ssd::UCharStringSet, size_t>(ss, lcp.data()), 0);
        else
            ssd::parallel_sample_sort_params<P>(ssd::StringPtr<ssd::UCharStringSet>(ss), 0);
        // permutation of the same string objects
        std::vector<unsigned char*> a(arr, arr + n), b(blocks);
        std::sort(a.begin(), a.end());
        std::sort(b.begin(), b.end());
        identity_ok = a == b;
        if (identity_ok)
            for (size_t i = 0; i < n; ++i) out[i] = reinterpret_cast<char*>(arr[i]);
        for (size_t i = 0; i < n; ++i) delete[] blocks[i];
        delete[] arr;
    } else {
        std::string* arr = new std::string[n ? n : 1];
        for (size_t i = 0; i < n; ++i) arr[i] = c.strs[i] + std::string(24, '\x01');  // defeat SSO: heap-owning strings
        for (size_t i = 0; i < n; ++i) arr[i].resize(c.strs[i].size());
        ssd::StdStringSet ss(arr, arr + n);
        if (c.lcp)
            ssd::parallel_sample_sort_params<P>(ssd::StringLcpPtr<ssd::StdStringSet, size_t>(ss, lcp.data()), 0);
        else
            ssd::parallel_sample_sort_params<P>(ssd::StringPtr<ssd::StdStringSet>(ss), 0);
        for (size_t i = 0; i < n; ++i) out[i] = arr[i];
        delete[] arr;
    }
    std::string outs;
    for (size_t i = 0; i < n && i < 40; ++i) outs += (out[i].empty() ? std::string("_") : out[i]) + " ";
    if (!identity_ok) {
        failfn("not-a-permutation", c.str() + ": the pointer array is not a permutation of the original string objects");
        return;
    }
    std::vector<std::string> o2 = out;
    std::sort(o2.begin(), o2.end(), [](const std::string& a, const std::string& b) {
        return std::lexicographical_compare(a.begin(), a.end(), b.begin(), b.end(),
                                            [](char x, char y) { return (unsigned char)x < (unsigned char)y; });
    });
    if (o2 != sorted_ref) {
        failfn("not-a-permutation", c.str() + " -> " + outs);
        return;
    }
    if (out != sorted_ref) {
        failfn("not-sorted", c.str() + " -> " + outs);
        return;
    }
    if (c.lcp)
        for (size_t i = 1; i < n; ++i)
            if (lcp[i] != common_prefix(out[i - 1], out[i])) {
                failfn("lcp", vh::fmt("%s -> %s: lcp[%zu]=%zu, expected %zu", c.str().c_str(), outs.c_str(), i, lcp[i], common_prefix(out[i - 1], out[i])));
                return;
            }
}

// parameter table: (TreeBits, smallsort, inssort, work_sharing, rest_size, key type)
typedef Params<1, 4, 2, true, false, uint32_t> P0;
typedef Params<2, 4, 3, true, true, uint64_t> P1;
typedef Params<1, 8, 3, false, false, uint64_t> P2;
typedef Params<2, 8, 2, true, false, uint32_t> P3;
typedef Params<1, 4, 3, false, true, uint32_t> P4;
typedef Params<2, 4, 2, true, true, uint32_t> P5;
typedef Params<1, 8, 5, true, false, uint32_t> P6;  // larger insertion-sort groups (cached insertion sort with >2 elements)
static const int NPARAMS = 7;
static const char* const PARAM_DESC[NPARAMS] = {
    "p0: TreeBits=1 smallsort=4 inssort=2 work_sharing rest_size=0 key=u32",
    "p1: TreeBits=2 smallsort=4 inssort=3 work_sharing rest_size=1 key=u64",
    "p2: TreeBits=1 smallsort=8 inssort=3 no_work_sharing rest_size=0 key=u64",
    "p3: TreeBits=2 smallsort=8 inssort=2 work_sharing rest_size=0 key=u32",
    "p4: TreeBits=1 smallsort=4 inssort=3 no_work_sharing rest_size=1 key=u32",
    "p5: TreeBits=2 smallsort=4 inssort=2 work_sharing rest_size=1 key=u32",
    "p6: TreeBits=1 smallsort=8 inssort=5 work_sharing rest_size=0 key=u32"};

// one function per parameter set, each defined in its own TU (compile time)
void run_p0(const Case&, FailFn);
void run_p1(const Case&, FailFn);
void run_p2(const Case&, FailFn);
void run_p3(const Case&, FailFn);
void run_p4(const Case&, FailFn);
void run_p5(const Case&, FailFn);
void run_p6(const Case&, FailFn);

inline void run_case(const Case& c, FailFn f) {
    switch (c.param) {
    case 0: run_p0(c, f); break;
    case 1: run_p1(c, f); break;
    case 2: run_p2(c, f); break;
    case 3: run_p3(c, f); break;
    case 4: run_p4(c, f); break;
    case 5: run_p5(c, f); break;
    default: run_p6(c, f); break;
    }
}

}  // namespace c04
