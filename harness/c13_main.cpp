// C13 — heaps: main() of the c13_heaps harness (see c13_common.hpp for the layout of the TUs).
//
// Collects the configurations of the tier, balances them over the shards (longest-processing-time-first on
// the cost estimates; deterministic), runs the BFS of every configuration owned by this shard.
// Options:  only=<substring>  run only configurations whose name contains the substring (debugging)
//           below_top=1       RadixHeap: allow pushes below the key last returned by top() (see c13_radix_heap.hpp)
// Replay string: <configuration name>|<op,op,...>
#include <algorithm>

#include "c13_common.hpp"

namespace c13 {
Ctx* g_ctx = nullptr;
}

int main(int argc, char** argv) {
    vh::init(argc, argv);
    bool T = vh::args().thorough();
    std::vector<c13::Config> cfgs;
    c13::register_dary_a(cfgs, T);
    c13::register_dary_b(cfgs, T);
    c13::register_addr_a(cfgs, T);
    c13::register_addr_b(cfgs, T);
    c13::register_radix_a(cfgs, T);
    c13::register_radix_b(cfgs, T);
    c13::register_radix_c(cfgs, T);
    c13::register_radix_d(cfgs, T);

    if (vh::args().has_replay) {
        return vh::replay_one([&](const std::string& r) {
            size_t bar = r.rfind('|');
            std::string cfg = r.substr(0, bar), h = bar == std::string::npos ? "" : r.substr(bar + 1);
            for (auto& c : cfgs)
                if (c.name == cfg) {
                    c.replay(h);
                    return;
                }
            vh::out_line("ERROR unknown configuration in replay string: " + cfg);
        });
    }

    std::string only = vh::args().opt("only");
    if (!only.empty()) {
        std::vector<c13::Config> f;
        for (auto& c : cfgs)
            if (c.name.find(only) != std::string::npos) f.push_back(c);
        cfgs.swap(f);
    }

    int sh = vh::args().shard, n = vh::args().nshards;
    std::vector<size_t> order(cfgs.size());
    for (size_t i = 0; i < order.size(); ++i) order[i] = i;
    std::stable_sort(order.begin(), order.end(), [&](size_t a, size_t b) { return cfgs[a].cost > cfgs[b].cost; });
    std::vector<double> load(n, 0.0);
    std::vector<size_t> mine;
    for (size_t i : order) {
        int best = 0;
        for (int s = 1; s < n; ++s)
            if (load[s] < load[best]) best = s;
        load[best] += cfgs[i].cost;
        if (best == sh) mine.push_back(i);
    }
    // one written-out sample per heap class (the first configuration of each class, whoever owns it)
    std::set<std::string> sampled;
    for (size_t i = 0; i < cfgs.size(); ++i) {
        std::string cls = cfgs[i].name.substr(0, cfgs[i].name.find('<'));
        if (!sampled.insert(cls).second || cfgs[i].sample.empty()) continue;
        if (std::find(mine.begin(), mine.end(), i) != mine.end()) vh::out_line("SAMPLE " + cfgs[i].sample);
    }
    for (size_t i : mine) {
        double t0 = vh::now();
        // vh::run_isolated() zeroes every counter when it (re)starts an exploration, so the counters of the
        // configurations this shard has already finished are saved here and added back afterwards.
        struct Saved {
            std::string name;
            long long v;
            bool mx;
        };
        std::vector<Saved> saved;
        for (int k = 0; k < vh::shm()->nstat; ++k) saved.push_back({vh::shm()->stat_name[k], vh::shm()->stat_val[k], vh::shm()->stat_is_max[k]});
        cfgs[i].run();
        for (auto& sv : saved) {
            if (sv.mx) vh::stat_max(sv.name.c_str(), sv.v);
            else vh::stat_add(sv.name.c_str(), sv.v);
        }
        vh::note(vh::fmt("%s: %.1fs (shard %d)", cfgs[i].name.c_str(), vh::now() - t0, sh));
        vh::stat_add("configurations");
    }
    return vh::finish();
}
