#!/usr/bin/env python3
"""setup: compile the harness binaries of every registered check once (quick-tier plans), so that the first
bin/check of each property only pays for what /repo changes invalidate.  The cache is keyed on the content of
/repo/tlx/** + harness + flags, so this is purely an optimisation; failures here are reported but not fatal
(bin/check builds whatever is missing)."""
import importlib
import json
import os
import sys

HERE = os.path.dirname(os.path.dirname(os.path.abspath(__file__)))
sys.path.insert(0, os.path.join(HERE, "lib"))
sys.path.insert(0, HERE)
import vlib  # noqa: E402

ids = [c["property_id"] for c in json.load(open(os.path.join(HERE, "MANIFEST.json")))["checks"]]
hs = {}
for i in ids:
    try:
        for h in importlib.import_module("checks." + i).plan("quick")["harnesses"]:
            hs[h.name] = h
    except Exception as e:  # noqa: BLE001
        print("prebuild: cannot plan", i, e)
failed = 0
for name, h in sorted(hs.items()):
    try:
        h.build()
    except Exception as e:  # noqa: BLE001
        failed += 1
        print("prebuild: build of %s failed: %s" % (name, str(e)[-400:]))
print("prebuild: %d harness binaries ready, %d failed" % (len(hs) - failed, failed))
sys.exit(0)
