from vlib import Harness, NCPU

TLX_CPP = [
    "tlx/die/core.cpp",
    "tlx/string/base64.cpp", "tlx/string/hexdump.cpp",
    "tlx/string/split.cpp", "tlx/string/join.cpp",
    "tlx/string/join_quoted.cpp", "tlx/string/split_quoted.cpp",
    "tlx/string/replace.cpp", "tlx/string/trim.cpp",
    "tlx/string/starts_with.cpp", "tlx/string/ends_with.cpp", "tlx/string/contains.cpp",
    "tlx/string/to_lower.cpp", "tlx/string/to_upper.cpp",
    "tlx/string/compare_icase.cpp", "tlx/string/equal_icase.cpp", "tlx/string/less_icase.cpp",
    "tlx/string/erase_all.cpp", "tlx/string/pad.cpp",
]


def plan(tier):
    h = Harness("c19_strings", ["harness/c19_strings.cpp", "harness/c19_helpers.cpp"], flavor="asan", tlx_cpp=TLX_CPP)
    T = tier == "thorough"
    return {
        "harnesses": [h],
        "runs": [(h, ["--tier", tier], NCPU)],
        "states_key": "cases", "transitions_key": "comparisons", "traces_key": "comparisons",
        "distinct_key": "cases",
        "rule": "bounded exhaustive enumeration per family (all strings / vectors over a small alphabet up to a length bound; "
                "the families and their exact spaces are listed in the samples and counted in stats cases.<family>/calls.<family>): "
                "codec (base64 + hexdump, |s|<=%d over {00,'a','=',FF,'\\n'} + all 1-/2-byte strings + 3-byte grid), b64dec, hexparse, "
                "splitjoin (1..3 parts |p|<=2 x 13 separators), quoted (every vector of <=3 strings of length <=3 over "
                "{'a',sep,quote,escape,'\\n'}: default triple%s), split (|str|<=%d x 12 separators x 9 limits x min_fields), "
                "replace, trim, pairs (|a|,|b|<=%d: starts/ends_with, contains, *_icase, levenshtein), case, erase, pad. "
                "A case is one distinct input (string, pair, triple or vector); all cases are distinct; comparisons = real tlx calls "
                "compared with the reference"
                % ((7, " and custom triple", 5, 5) if T else
                   (6, "; custom triple: <=2 strings of length <=3 and 3 strings of length <=2", 4, 4)),
        "assumptions": [
            "references are naive loops written from the doc comments (RFC 4648 table built from character ranges)",
            "alphabets of 4-10 bytes per family (always with NUL, 0xFF and the family's special characters) and the stated length bounds",
            "where a doc comment is ambiguous the behaviour pinned by tests/string_test.cpp is used, or the oracle is weakened to what "
            "every reading of the doc comment implies (see the header comments of harness/c19_strings.cpp and c19_helpers.cpp)",
            "functions are never called outside their documented contract (non-empty needle, min_fields <= limit, NUL-free const char*)",
        ],
    }
