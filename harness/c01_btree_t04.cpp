// C01/C02 type configurations, group 4 [quick tier] (see c01_btree.hpp; C01_TYPE(kind, greater, leaf, inner, search 0=linear 1=binary 2=default traits, element))
#include "c01_btree.hpp"
C01_TYPE(MMAP, false, 4, 4, 0, c01::Tracked)
C01_TYPE(SET, false, 6, 4, 0, int)
