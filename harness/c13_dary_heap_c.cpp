// C13 — tlx::DAryHeap, arity 5 and 6 x {std::less, std::greater, table comparator}
// (driver and oracles: c13_dary_heap.hpp).  Thorough tier only.
#include "c13_dary_heap.hpp"

namespace c13 {
void register_dary_3(std::vector<Config>& out, bool thorough) {
    add_dary<5, 0>(out, thorough, false);
    add_dary<5, 1>(out, thorough, false);
    add_dary<5, 2>(out, thorough, false);
    add_dary<6, 0>(out, thorough, false);
    add_dary<6, 1>(out, thorough, false);
    add_dary<6, 2>(out, thorough, false);
}
}  // namespace c13
