// C13 — tlx::DAryAddressableIntHeap instantiations of this TU (driver and oracles: c13_addressable_heap.hpp).
// uint32_t keys for every arity 1..8; uint8_t/uint16_t/uint64_t keys for one arity each (handles_ stores positions
// as key_type and not_present() is key_type(-1)).
#include "c13_addressable_heap.hpp"

namespace c13 {
void register_addr_3(std::vector<Config>& out, bool thorough) {
    add_addr<uint32_t, 7>(out, thorough, false);
    add_addr<uint32_t, 8>(out, thorough, false);
    add_addr<uint16_t, 8>(out, thorough, false);
}
}  // namespace c13
