// C19 — "definition" families: every helper against a naive reference written from its doc comment.
// (overview and the list of families: c19_strings.cpp)
//
// Decisions where a doc comment is ambiguous (behaviour taken from /repo/tests/string_test.cpp or
// left unconstrained):
//  * split: limit = "maximum number of parts returned"; string_test pins limit 0 -> {} and that the
//    last permitted part is the unsplit remainder ("/usr/bin/test" limit 3 -> {"","usr","bin/test"}),
//    and that a trailing separator yields a trailing empty part ('/' on "/usr/bin/test/" -> 5 parts);
//    the string-separator overload has word-for-word the same documentation as the char overload, so
//    the same reference (leftmost, non-overlapping scan) is used for both.
//    - Inputs in which two occurrences of the separator OVERLAP ("//" in "///") have no documented
//      partition: there only `no exception`, `size <= limit` and `join(sep, result) == str` are demanded
//      (oracle "overlap-rejoin"), which holds for every reading of the doc comment.
//    - Empty separator: string_test pins split("", "abcdef") -> one part per character.  With a limit
//      only the documented bound (size <= limit), concatenation == str and "limit >= |str| -> one part
//      per character" are demanded (oracle "emptysep").
//    - min_fields > limit contradicts "at least min_fields and at most limit": never called.
//  * replace_*: empty needle is outside the contract (never called).  replace_all replaces the
//    leftmost non-overlapping occurrences and does not rescan the inserted text (string_test:
//    replace_all("abcdef abcdef","a","aaa") == "aaabcdef aaabcdef").
//  * compare_icase: "returns +1/0/-1 like strcmp(a, b) but without regard for letter case": only the
//    SIGN is compared with the reference; the reference folds A-Z to a-z and compares bytes as
//    unsigned char like strcmp.  Pairs whose first difference involves a byte >= 0x80 get their own
//    oracle kind "highbyte" (signed/unsigned char is a separate question from case folding).
//    Bytes 0x5B-0x60 (between 'Z' and 'a'), whose order relative to letters depends on the folding
//    direction, are not used in the ordering families.
//  * trim family: "in-place" forms must return a reference to the argument object.
#include <tlx/string/compare_icase.hpp>
#include <tlx/string/contains.hpp>
#include <tlx/string/ends_with.hpp>
#include <tlx/string/equal_icase.hpp>
#include <tlx/string/erase_all.hpp>
#include <tlx/string/less_icase.hpp>
#include <tlx/string/levenshtein.hpp>
#include <tlx/string/pad.hpp>
#include <tlx/string/replace.hpp>
#include <tlx/string/split.hpp>
#include <tlx/string/starts_with.hpp>
#include <tlx/string/to_lower.hpp>
#include <tlx/string/to_upper.hpp>
#include <tlx/string/trim.hpp>

#include <algorithm>

#include "c19_common.hpp"

namespace c19 {

enum { OC_SPLIT = 8, OC_REPLACE, OC_TRIM, OC_PAIRS, OC_LEV, OC_CASE, OC_ERASE, OC_PAD, OC_CMP };

static Str sv2s(tlx::string_view v) { return v.size() ? Str(v.data(), v.size()) : Str(); }

// ---------------------------------------------------------------------------------------------
// split

static SVec ref_split(const Str& sep, const Str& str, size_t limit) {
    SVec out;
    if (limit == 0) return out;
    size_t m = sep.size(), last = 0, i = 0;
    while (i + m <= str.size()) {
        if (out.size() + 1 < limit && str.compare(i, m, sep) == 0) {
            out.push_back(str.substr(last, i - last));
            i += m;
            last = i;
        } else
            ++i;
    }
    out.push_back(str.substr(last));
    return out;
}
static bool has_overlapping_occurrences(const Str& sep, const Str& str) {
    size_t m = sep.size();
    long prev = -1;
    for (size_t i = 0; i + m <= str.size(); ++i)
        if (str.compare(i, m, sep) == 0) {
            if (prev >= 0 && i - (size_t)prev < m) return true;
            prev = (long)i;
        }
    return false;
}
static Str join_ref(const Str& glue, const SVec& parts) {
    Str o;
    for (size_t i = 0; i < parts.size(); ++i) {
        if (i) o += glue;
        o += parts[i];
    }
    return o;
}
static SVec junk() { return SVec{"junk", "junk2"}; }
// min_fields in {0, 1, 3, limit (7 for npos)}, never above limit
static std::vector<size_t> min_fields_values(size_t limit) {
    std::vector<size_t> r;
    for (size_t mf : {(size_t)0, (size_t)1, (size_t)3, limit == npos ? (size_t)7 : limit})
        if (mf <= limit && std::find(r.begin(), r.end(), mf) == r.end()) r.push_back(mf);
    return r;
}

// c.s = {str, sep}, c.n = {0: string separator, 1: char separator}
static void run_split(const Case& c) {
    const Str &str = c.s[0], &sep = c.s[1];
    bool is_char = !c.n.empty() && c.n[0] == 1;
    Buf sb(str), pb(sep);
    tlx::string_view sv(sb.p, sb.n), sepv(pb.p, pb.n);
    static const size_t LIM[9] = {0, 1, 2, 3, 4, 5, 6, 7, npos};
    if (is_char) {
        char ch = sep[0];
        for (size_t limit : LIM) {
            SVec ref = ref_split(sep, str, limit);
            C19_OUTCOME(OC_SPLIT, (int)ref.size() + (limit != npos && ref.size() == limit ? 16 : 0), vh::fmt("split: %zu fields%s", ref.size(), limit != npos && ref.size() == limit ? " (limit reached)" : ""));
            Str w = "limit=" + N(limit);
            bool base_ok = guard([&] { return V(tlx::split(ch, sv, limit)); }) == V(ref);
            C19_CHECK("split(char)", "mismatch", w, V(tlx::split(ch, sv, limit)), V(ref));
            C19_CHECK("split(char)", "mismatch", w + " into-form", [&] { SVec o = junk(); SVec& r = tlx::split(&o, ch, sv, limit); return V(o) + (&r == &o ? "" : " (returned reference is not *into)"); }(), V(ref));
            if (limit == npos) {
                C19_CHECK("split(char)", "mismatch", "default limit", V(tlx::split(ch, sv)), V(ref));
                C19_CHECK("split(char)", "mismatch", "default limit into-form", [&] { SVec o = junk(); tlx::split(&o, ch, sv); return V(o); }(), V(ref));
            }
            if (!base_ok) continue;  // same defect: do not report it again under the min_fields signature
            for (size_t mf : min_fields_values(limit)) {
                if (mf > limit) continue;
                SVec ref2 = ref;
                if (ref2.size() < mf) ref2.resize(mf);
                Str w2 = vh::fmt("min_fields=%zu ", mf) + w;
                C19_CHECK("split(char,min_fields)", "mismatch", w2, V(tlx::split(ch, sv, mf, limit)), V(ref2));
                C19_CHECK("split(char,min_fields)", "mismatch", w2 + " into-form", [&] { SVec o = junk(); SVec& r = tlx::split(&o, ch, sv, mf, limit); return V(o) + (&r == &o ? "" : " (returned reference is not *into)"); }(), V(ref2));
            }
        }
        return;
    }
    if (sep.empty()) {
        SVec chars;
        for (char x : str) chars.push_back(Str(1, x));
        for (size_t limit : LIM) {
            auto verdict = [&](const SVec& o) -> Str {
                if (limit == 0) return o.empty() ? "ok" : "limit 0 but parts returned: " + V(o);
                if (o.size() > limit) return vh::fmt("%zu parts although limit=%zu: ", o.size(), limit) + V(o);
                if (join_ref("", o) != str) return "concatenation of the parts != str: " + V(o);
                if (limit >= str.size() && o != chars) return "not one part per character: " + V(o);
                return "ok";
            };
            Str w = "limit=" + N(limit);
            C19_CHECK("split(str)", "emptysep", w, verdict(tlx::split(sepv, sv, limit)), Str("ok"));
            C19_CHECK("split(str)", "emptysep", w + " into-form", [&] { SVec o = junk(); tlx::split(&o, sepv, sv, limit); return verdict(o); }(), Str("ok"));
        }
        C19_OUTCOME(OC_SPLIT, 40, "split: empty separator");
        return;
    }
    bool overlap = has_overlapping_occurrences(sep, str);
    for (size_t limit : LIM) {
        Str w = "limit=" + N(limit);
        if (overlap) {
            C19_OUTCOME(OC_SPLIT, 41, "split: overlapping separator occurrences (weak oracle)");
            auto verdict = [&](const SVec& o) -> Str {
                if (limit == 0) return o.empty() ? "ok" : "limit 0 but parts returned: " + V(o);
                if (o.size() > limit) return vh::fmt("%zu parts although limit=%zu: ", o.size(), limit) + V(o);
                if (o.empty() || join_ref(sep, o) != str) return "join(sep, parts) != str: " + V(o);
                return "ok";
            };
            C19_CHECK("split(str)", "overlap-rejoin", w, verdict(tlx::split(sepv, sv, limit)), Str("ok"));
            C19_CHECK("split(str)", "overlap-rejoin", w + " into-form", [&] { SVec o = junk(); tlx::split(&o, sepv, sv, limit); return verdict(o); }(), Str("ok"));
            continue;
        }
        SVec ref = ref_split(sep, str, limit);
        C19_OUTCOME(OC_SPLIT, (int)ref.size() + (limit != npos && ref.size() == limit ? 16 : 0), vh::fmt("split: %zu fields%s", ref.size(), limit != npos && ref.size() == limit ? " (limit reached)" : ""));
        bool base_ok = guard([&] { return V(tlx::split(sepv, sv, limit)); }) == V(ref);
        C19_CHECK("split(str)", "mismatch", w, V(tlx::split(sepv, sv, limit)), V(ref));
        C19_CHECK("split(str)", "mismatch", w + " into-form", [&] { SVec o = junk(); SVec& r = tlx::split(&o, sepv, sv, limit); return V(o) + (&r == &o ? "" : " (returned reference is not *into)"); }(), V(ref));
        if (limit == npos) {
            C19_CHECK("split(str)", "mismatch", "default limit", V(tlx::split(sepv, sv)), V(ref));
            C19_CHECK("split(str)", "mismatch", "default limit into-form", [&] { SVec o = junk(); tlx::split(&o, sepv, sv); return V(o); }(), V(ref));
        }
        if (!base_ok) continue;
        for (size_t mf : min_fields_values(limit)) {
            if (mf > limit) continue;
            SVec ref2 = ref;
            if (ref2.size() < mf) ref2.resize(mf);
            Str w2 = vh::fmt("min_fields=%zu ", mf) + w;
            C19_CHECK("split(str,min_fields)", "mismatch", w2, V(tlx::split(sepv, sv, mf, limit)), V(ref2));
            C19_CHECK("split(str,min_fields)", "mismatch", w2 + " into-form", [&] { SVec o = junk(); SVec& r = tlx::split(&o, sepv, sv, mf, limit); return V(o) + (&r == &o ? "" : " (returned reference is not *into)"); }(), V(ref2));
        }
    }
}

// ---------------------------------------------------------------------------------------------
// replace: c.s = {str, needle (non-empty), instead}

static Str ref_replace(const Str& s, const Str& needle, const Str& instead, bool all, int* count) {
    Str o;
    size_t i = 0, m = needle.size();
    int k = 0;
    while (i < s.size()) {
        if ((all || k == 0) && i + m <= s.size() && s.compare(i, m, needle) == 0) {
            o += instead;
            i += m;
            ++k;
        } else
            o += s[i++];
    }
    if (count) *count = k;
    return o;
}

static void run_replace(const Case& c) {
    const Str &s = c.s[0], &needle = c.s[1], &instead = c.s[2];
    if (needle.empty()) return;  // outside the contract (only reachable through a hand-written replay)
    Buf sb(s), nb(needle), ib(instead);
    tlx::string_view sv(sb.p, sb.n), nv(nb.p, nb.n), iv(ib.p, ib.n);
    int k = 0;
    const Str rf = ref_replace(s, needle, instead, false, nullptr), ra = ref_replace(s, needle, instead, true, &k);
    C19_OUTCOME(OC_REPLACE, k + (instead.find(needle) != npos ? 8 : 0), vh::fmt("replace: %d occurrence(s)%s", k, instead.find(needle) != npos ? ", needle contained in replacement" : ""));
    C19_CHECK("replace_first", "mismatch", "copy form", Q(tlx::replace_first(sv, nv, iv)), Q(rf));
    C19_CHECK("replace_first", "mismatch", "in-place form", [&] { Str t = s; Str& r = tlx::replace_first(&t, nv, iv); return Q(t) + (&r == &t ? "" : " (returned reference is not *str)"); }(), Q(rf));
    C19_CHECK("replace_all", "mismatch", "copy form", Q(tlx::replace_all(sv, nv, iv)), Q(ra));
    C19_CHECK("replace_all", "mismatch", "in-place form", [&] { Str t = s; Str& r = tlx::replace_all(&t, nv, iv); return Q(t) + (&r == &t ? "" : " (returned reference is not *str)"); }(), Q(ra));
    if (needle.size() == 1 && instead.size() == 1) {
        char a = needle[0], b = instead[0];
        C19_CHECK("replace_first(char)", "mismatch", "copy form", Q(tlx::replace_first(sv, a, b)), Q(rf));
        C19_CHECK("replace_first(char)", "mismatch", "in-place form", [&] { Str t = s; Str& r = tlx::replace_first(&t, a, b); return Q(t) + (&r == &t ? "" : " (returned reference is not *str)"); }(), Q(rf));
        C19_CHECK("replace_all(char)", "mismatch", "copy form", Q(tlx::replace_all(sv, a, b)), Q(ra));
        C19_CHECK("replace_all(char)", "mismatch", "in-place form", [&] { Str t = s; Str& r = tlx::replace_all(&t, a, b); return Q(t) + (&r == &t ? "" : " (returned reference is not *str)"); }(), Q(ra));
    }
}

// ---------------------------------------------------------------------------------------------
// trim: c.s = {str}; all drop sets are looped inside the case

static bool in_set(const Str& set, char ch) { return set.find(ch) != npos; }
static Str ref_trim(const Str& s, const Str& drop, bool left, bool right) {
    size_t i = 0, j = s.size();
    if (left)
        while (i < j && in_set(drop, s[i])) ++i;
    if (right)
        while (j > i && in_set(drop, s[j - 1])) --j;
    return s.substr(i, j - i);
}

static void run_trim(const Case& c) {
    const Str& s = c.s[0];
    Buf sb(s);
    const tlx::string_view sv(sb.p, sb.n);
    const Str DEF = " \r\n\t";
    {
        Str l = ref_trim(s, DEF, true, false), r = ref_trim(s, DEF, false, true);
        C19_OUTCOME(OC_TRIM, (l != s) + 2 * (r != s) + 4 * (ref_trim(s, DEF, true, true).empty()), vh::fmt("trim: left %s, right %s, result %s", l != s ? "trimmed" : "kept", r != s ? "trimmed" : "kept", ref_trim(s, DEF, true, true).empty() ? "empty" : "non-empty"));
    }
    static const char* NAME[3] = {"trim", "trim_left", "trim_right"};
    for (int f = 0; f < 3; ++f) {
        bool L = f != 2, R = f != 1;
        const char* op = NAME[f];
        // --- default drop set
        {
            Str ref = Q(ref_trim(s, DEF, L, R));
            C19_CHECK(op, "mismatch", "default drop, string* form", [&] {
                Str t = s;
                Str& r = f == 0 ? tlx::trim(&t) : f == 1 ? tlx::trim_left(&t) : tlx::trim_right(&t);
                return Q(t) + (&r == &t ? "" : " (returned reference is not *str)");
            }(), ref);
            C19_CHECK(op, "mismatch", "default drop, string_view* form", [&] {
                tlx::string_view t = sv;
                tlx::string_view& r = f == 0 ? tlx::trim(&t) : f == 1 ? tlx::trim_left(&t) : tlx::trim_right(&t);
                return Q(sv2s(t)) + (&r == &t ? "" : " (returned reference is not *str)");
            }(), ref);
            C19_CHECK(op, "mismatch", "default drop, string_view form", Q(sv2s(f == 0 ? tlx::trim(sv) : f == 1 ? tlx::trim_left(sv) : tlx::trim_right(sv))), ref);
        }
        // --- custom drop sets (string_view): "", "a", " a", NUL+0xFF, 0xFF
        static const Str DROPS[5] = {Str(""), Str("a"), Str(" a"), Str("\0\xff", 2), Str("\xff")};
        for (const Str& drop : DROPS) {
            Buf db(drop);
            tlx::string_view dv(db.p, db.n);
            Str ref = Q(ref_trim(s, drop, L, R));
            Str w = "drop=" + Q(drop);
            C19_CHECK(op, "mismatch", w + ", string* form", [&] {
                Str t = s;
                Str& r = f == 0 ? tlx::trim(&t, dv) : f == 1 ? tlx::trim_left(&t, dv) : tlx::trim_right(&t, dv);
                return Q(t) + (&r == &t ? "" : " (returned reference is not *str)");
            }(), ref);
            C19_CHECK(op, "mismatch", w + ", string_view* form", [&] {
                tlx::string_view t = sv;
                tlx::string_view& r = f == 0 ? tlx::trim(&t, dv) : f == 1 ? tlx::trim_left(&t, dv) : tlx::trim_right(&t, dv);
                return Q(sv2s(t)) + (&r == &t ? "" : " (returned reference is not *str)");
            }(), ref);
            C19_CHECK(op, "mismatch", w + ", string_view form", Q(sv2s(f == 0 ? tlx::trim(sv, dv) : f == 1 ? tlx::trim_left(sv, dv) : tlx::trim_right(sv, dv))), ref);
        }
        // --- single drop character
        static const char DC[4] = {' ', 'a', '\0', (char)0xFF};
        for (char dc : DC) {
            Str ref = Q(ref_trim(s, Str(1, dc), L, R));
            Str w = "drop char=" + Q(Str(1, dc));
            C19_CHECK(op, "mismatch", w + ", string* form", [&] {
                Str t = s;
                Str& r = f == 0 ? tlx::trim(&t, dc) : f == 1 ? tlx::trim_left(&t, dc) : tlx::trim_right(&t, dc);
                return Q(t) + (&r == &t ? "" : " (returned reference is not *str)");
            }(), ref);
            C19_CHECK(op, "mismatch", w + ", string_view* form", [&] {
                tlx::string_view t = sv;
                tlx::string_view& r = f == 0 ? tlx::trim(&t, dc) : f == 1 ? tlx::trim_left(&t, dc) : tlx::trim_right(&t, dc);
                return Q(sv2s(t)) + (&r == &t ? "" : " (returned reference is not *str)");
            }(), ref);
            C19_CHECK(op, "mismatch", w + ", string_view form", Q(sv2s(f == 0 ? tlx::trim(sv, dc) : f == 1 ? tlx::trim_left(sv, dc) : tlx::trim_right(sv, dc))), ref);
        }
    }
}

// ---------------------------------------------------------------------------------------------
// pairs: c.s = {a, b}: starts_with/ends_with(+_icase), contains, compare/equal/less_icase, levenshtein

static Str fold(const Str& s) {
    Str o = s;
    for (auto& ch : o) ch = (char)ref_lower((unsigned char)ch);
    return o;
}
static int sgn(long long v) { return v < 0 ? -1 : v > 0 ? 1 : 0; }
// strcmp-like on folded bytes (unsigned char), a proper prefix is smaller
static int ref_cmp(const Str& a, const Str& b, bool* highbyte) {
    size_t n = std::min(a.size(), b.size());
    for (size_t i = 0; i < n; ++i) {
        unsigned char x = (unsigned char)a[i], y = (unsigned char)b[i];
        if (x != y) {
            *highbyte = (x >= 0x80 || y >= 0x80);
            return x < y ? -1 : 1;
        }
    }
    *highbyte = false;
    return a.size() < b.size() ? -1 : a.size() > b.size() ? 1 : 0;
}
static bool ref_contains(const Str& s, const Str& p) {
    for (size_t i = 0; i + p.size() <= s.size(); ++i) {
        size_t j = 0;
        while (j < p.size() && s[i + j] == p[j]) ++j;
        if (j == p.size()) return true;
    }
    return false;
}
// textbook full-matrix Wagner-Fischer
static size_t ref_lev(const Str& a, const Str& b) {
    std::vector<std::vector<size_t>> d(a.size() + 1, std::vector<size_t>(b.size() + 1));
    for (size_t i = 0; i <= a.size(); ++i) d[i][0] = i;
    for (size_t j = 0; j <= b.size(); ++j) d[0][j] = j;
    for (size_t i = 1; i <= a.size(); ++i)
        for (size_t j = 1; j <= b.size(); ++j)
            d[i][j] = std::min({d[i - 1][j] + 1, d[i][j - 1] + 1, d[i - 1][j - 1] + (a[i - 1] == b[j - 1] ? 0 : 1)});
    return d[a.size()][b.size()];
}

static void run_pairs(const Case& c) {
    const Str &a = c.s[0], &b = c.s[1];
    Buf ab(a), bb(b);
    const tlx::string_view av(ab.p, ab.n), bv(bb.p, bb.n);
    const Str fa = fold(a), fb = fold(b);
    const bool anf = nul_free(a), bnf = nul_free(b);
    CBuf ac(anf ? a : Str()), bc(bnf ? b : Str());
    const char *ap = ac.p, *bp = bc.p;

    // --- starts_with / ends_with
    bool sw = a.size() >= b.size() && a.compare(0, b.size(), b) == 0;
    bool swi = a.size() >= b.size() && fa.compare(0, b.size(), fb) == 0;
    bool ew = a.size() >= b.size() && a.compare(a.size() - b.size(), b.size(), b) == 0;
    bool ewi = a.size() >= b.size() && fa.compare(a.size() - b.size(), b.size(), fb) == 0;
    C19_OUTCOME(OC_PAIRS, sw + 2 * swi + 4 * ew + 8 * ewi, vh::fmt("pairs: starts_with=%d icase=%d ends_with=%d icase=%d", sw, swi, ew, ewi));
    C19_CHECK("starts_with", "mismatch", "", B(tlx::starts_with(av, bv)), B(sw));
    C19_CHECK("starts_with_icase", "mismatch", "", B(tlx::starts_with_icase(av, bv)), B(swi));
    C19_CHECK("ends_with", "mismatch", "(string_view,string_view)", B(tlx::ends_with(av, bv)), B(ew));
    C19_CHECK("ends_with_icase", "mismatch", "(string_view,string_view)", B(tlx::ends_with_icase(av, bv)), B(ewi));
    if (bnf) {
        C19_CHECK("ends_with", "mismatch", "(string_view,cstr)", B(tlx::ends_with(av, bp)), B(ew));
        C19_CHECK("ends_with_icase", "mismatch", "(string_view,cstr)", B(tlx::ends_with_icase(av, bp)), B(ewi));
    }
    if (anf) {
        C19_CHECK("ends_with", "mismatch", "(cstr,string_view)", B(tlx::ends_with(ap, bv)), B(ew));
        C19_CHECK("ends_with_icase", "mismatch", "(cstr,string_view)", B(tlx::ends_with_icase(ap, bv)), B(ewi));
    }
    if (anf && bnf) {
        C19_CHECK("ends_with", "mismatch", "(cstr,cstr)", B(tlx::ends_with(ap, bp)), B(ew));
        C19_CHECK("ends_with_icase", "mismatch", "(cstr,cstr)", B(tlx::ends_with_icase(ap, bp)), B(ewi));
    }

    // --- contains
    C19_CHECK("contains", "mismatch", "(string_view,string_view)", B(tlx::contains(av, bv)), B(ref_contains(a, b)));
    if (b.size() == 1) C19_CHECK("contains(char)", "mismatch", "", B(tlx::contains(av, b[0])), B(a.find(b[0]) != npos));

    // --- compare_icase / equal_icase / less_icase
    bool hb = false;
    int cmp = ref_cmp(fa, fb, &hb);
    C19_OUTCOME(OC_CMP, cmp + 1 + 3 * hb, vh::fmt("pairs: icase order %d%s", cmp, hb ? " (decided by a byte >= 0x80)" : ""));
    const char* ok = hb ? "highbyte" : "mismatch";
    C19_CHECK("compare_icase", ok, "(string_view,string_view)", I(sgn(tlx::compare_icase(av, bv))), I(cmp));
    C19_CHECK("less_icase", ok, "(string_view,string_view)", B(tlx::less_icase(av, bv)), B(cmp < 0));
    C19_CHECK("equal_icase", "mismatch", "(string_view,string_view)", B(tlx::equal_icase(av, bv)), B(cmp == 0));
    C19_CHECK("less_icase", ok, "less_icase_asc functor", B(tlx::less_icase_asc()(av, bv)), B(cmp < 0));
    // "Descending case-insensitive less order relation functional class for std::map": as an order
    // relation usable by std::map it must be the strict order b < a (irreflexive).
    C19_CHECK("less_icase_desc", ok, "functor", B(tlx::less_icase_desc()(av, bv)), B(cmp > 0));
    if (bnf) {
        C19_CHECK("compare_icase", ok, "(string_view,cstr)", I(sgn(tlx::compare_icase(av, bp))), I(cmp));
        C19_CHECK("less_icase", ok, "(string_view,cstr)", B(tlx::less_icase(av, bp)), B(cmp < 0));
        C19_CHECK("equal_icase", "mismatch", "(string_view,cstr)", B(tlx::equal_icase(av, bp)), B(cmp == 0));
    }
    if (anf) {
        C19_CHECK("compare_icase", ok, "(cstr,string_view)", I(sgn(tlx::compare_icase(ap, bv))), I(cmp));
        C19_CHECK("less_icase", ok, "(cstr,string_view)", B(tlx::less_icase(ap, bv)), B(cmp < 0));
        C19_CHECK("equal_icase", "mismatch", "(cstr,string_view)", B(tlx::equal_icase(ap, bv)), B(cmp == 0));
    }
    if (anf && bnf) {
        C19_CHECK("compare_icase", ok, "(cstr,cstr)", I(sgn(tlx::compare_icase(ap, bp))), I(cmp));
        C19_CHECK("less_icase", ok, "(cstr,cstr)", B(tlx::less_icase(ap, bp)), B(cmp < 0));
        C19_CHECK("equal_icase", "mismatch", "(cstr,cstr)", B(tlx::equal_icase(ap, bp)), B(cmp == 0));
    }

    // --- levenshtein
    size_t lv = ref_lev(a, b), lvi = ref_lev(fa, fb);
    C19_OUTCOME(OC_LEV, (int)lv * 7 + (int)lvi, vh::fmt("pairs: levenshtein=%zu icase=%zu", lv, lvi));
    C19_CHECK("levenshtein", "mismatch", "(string_view,string_view)", N(tlx::levenshtein(av, bv)), N(lv));
    C19_CHECK("levenshtein_icase", "mismatch", "(string_view,string_view)", N(tlx::levenshtein_icase(av, bv)), N(lvi));
    if (anf && bnf) {
        C19_CHECK("levenshtein", "mismatch", "(cstr,cstr)", N(tlx::levenshtein(ap, bp)), N(lv));
        C19_CHECK("levenshtein_icase", "mismatch", "(cstr,cstr)", N(tlx::levenshtein_icase(ap, bp)), N(lvi));
    }
}

// ---------------------------------------------------------------------------------------------
// case: c.s = {str} (string forms) or c.n = {byte} (char forms)

static void run_case_str(const Case& c) {
    const Str& s = c.s[0];
    Buf sb(s);
    tlx::string_view sv(sb.p, sb.n);
    Str lo = s, up = s;
    for (auto& ch : lo) ch = (char)ref_lower((unsigned char)ch);
    for (auto& ch : up) ch = (char)ref_upper((unsigned char)ch);
    C19_OUTCOME(OC_CASE, (lo != s) + 2 * (up != s), vh::fmt("case: to_lower %s, to_upper %s", lo != s ? "changes" : "keeps", up != s ? "changes" : "keeps"));
    C19_CHECK("to_lower", "mismatch", "copy form", Q(tlx::to_lower(sv)), Q(lo));
    C19_CHECK("to_upper", "mismatch", "copy form", Q(tlx::to_upper(sv)), Q(up));
    C19_CHECK("to_lower", "mismatch", "in-place form", [&] { Str t = s; Str& r = tlx::to_lower(&t); return Q(t) + (&r == &t ? "" : " (returned reference is not *str)"); }(), Q(lo));
    C19_CHECK("to_upper", "mismatch", "in-place form", [&] { Str t = s; Str& r = tlx::to_upper(&t); return Q(t) + (&r == &t ? "" : " (returned reference is not *str)"); }(), Q(up));
}
static void run_case_char(const Case& c) {
    unsigned char ch = (unsigned char)c.n[0];
    C19_OUTCOME(OC_CASE, 8 + (ref_lower(ch) != ch) + 2 * (ref_upper(ch) != ch), vh::fmt("case(char): lower %s upper %s", ref_lower(ch) != ch ? "changes" : "keeps", ref_upper(ch) != ch ? "changes" : "keeps"));
    C19_CHECK("to_lower(char)", "mismatch", "", I((unsigned char)tlx::to_lower((char)ch)), I(ref_lower(ch)));
    C19_CHECK("to_upper(char)", "mismatch", "", I((unsigned char)tlx::to_upper((char)ch)), I(ref_upper(ch)));
}

// ---------------------------------------------------------------------------------------------
// erase: c.s = {str}

static Str ref_erase(const Str& s, const Str& drop) {
    Str o;
    for (char ch : s)
        if (!in_set(drop, ch)) o += ch;
    return o;
}
static void run_erase(const Case& c) {
    const Str& s = c.s[0];
    Buf sb(s);
    tlx::string_view sv(sb.p, sb.n);
    C19_OUTCOME(OC_ERASE, (int)(s.size() - ref_erase(s, " ").size()), vh::fmt("erase: %zu blanks removed", s.size() - ref_erase(s, " ").size()));
    C19_CHECK("erase_all(char)", "mismatch", "default drop, copy form", Q(tlx::erase_all(sv)), Q(ref_erase(s, " ")));
    C19_CHECK("erase_all(char)", "mismatch", "default drop, in-place form", [&] { Str t = s; Str& r = tlx::erase_all(&t); return Q(t) + (&r == &t ? "" : " (returned reference is not *str)"); }(), Q(ref_erase(s, " ")));
    static const char DC[4] = {' ', 'a', '\0', (char)0xFF};
    for (char dc : DC) {
        Str ref = Q(ref_erase(s, Str(1, dc)));
        Str w = "drop char=" + Q(Str(1, dc));
        C19_CHECK("erase_all(char)", "mismatch", w + ", copy form", Q(tlx::erase_all(sv, dc)), ref);
        C19_CHECK("erase_all(char)", "mismatch", w + ", in-place form", [&] { Str t = s; Str& r = tlx::erase_all(&t, dc); return Q(t) + (&r == &t ? "" : " (returned reference is not *str)"); }(), ref);
    }
    static const Str DROPS[5] = {Str(""), Str(" "), Str(" b"), Str("\0\xff", 2), Str("ab \0\xff", 5)};
    for (const Str& drop : DROPS) {
        Buf db(drop);
        tlx::string_view dv(db.p, db.n);
        Str ref = Q(ref_erase(s, drop));
        Str w = "drop=" + Q(drop);
        C19_CHECK("erase_all(str)", "mismatch", w + ", copy form", Q(tlx::erase_all(sv, dv)), ref);
        C19_CHECK("erase_all(str)", "mismatch", w + ", in-place form", [&] { Str t = s; Str& r = tlx::erase_all(&t, dv); return Q(t) + (&r == &t ? "" : " (returned reference is not *str)"); }(), ref);
    }
}

// ---------------------------------------------------------------------------------------------
// pad: c.s = {str}

static void run_pad(const Case& c) {
    const Str& s = c.s[0];
    Buf sb(s);
    tlx::string_view sv(sb.p, sb.n);
    for (size_t len = 0; len <= 7; ++len) {
        auto ref = [&](char pc) {
            Str o = s.substr(0, std::min(len, s.size()));
            while (o.size() < len) o += pc;
            return Q(o);
        };
        C19_OUTCOME(OC_PAD, len < s.size() ? 0 : len == s.size() ? 1 : 2, len < s.size() ? "pad: truncates" : len == s.size() ? "pad: exact" : "pad: pads");
        C19_CHECK("pad", "mismatch", "len=" + N(len) + " default pad_char", Q(tlx::pad(sv, len)), ref(' '));
        static const char PC[3] = {'a', '\0', (char)0xFF};
        for (char pc : PC) C19_CHECK("pad", "mismatch", "len=" + N(len) + " pad_char=" + Q(Str(1, pc)), Q(tlx::pad(sv, len, pc)), ref(pc));
    }
}

// ---------------------------------------------------------------------------------------------

static Family strings_family(const char* name, const std::vector<Str>* L, void (*run)(const Case&), const char* what) {
    return Family{name, L->size(), [L](uint64_t id) { Case c; c.s.push_back((*L)[id]); return c; }, run, what};
}
static Family pairs_family(const char* name, const std::vector<Str>* LA, const std::vector<Str>* LB, void (*run)(const Case&), const char* what) {
    return Family{name, (uint64_t)LA->size() * LB->size(),
                  [LA, LB](uint64_t id) { Case c; c.s.push_back((*LA)[id / LB->size()]); c.s.push_back((*LB)[id % LB->size()]); return c; }, run, what};
}

void register_helper_families(std::vector<Family>& F, bool T) {
    // split: str over {'/',';','a',00,FF} up to 5 (T) / 4 (Q); separators listed below
    static std::vector<Str> L_split = all_strings(Str("/;a\0\xff", 5), T ? 5 : 4);
    static std::vector<std::pair<Str, int>> SEPS = {
        {"/", 1}, {Str("\0", 1), 1}, {"\xff", 1},                                                                   // char overloads
        {"/", 0}, {";/", 0}, {"//", 0}, {"/;/", 0}, {Str("\0", 1), 0}, {"\xff/", 0}, {"a", 0}, {"a/a", 0}, {"", 0}  // string overloads
    };
    F.push_back(Family{"split", (uint64_t)L_split.size() * SEPS.size(),
                       [](uint64_t id) {
                           Case c;
                           c.s.push_back(L_split[id / SEPS.size()]);
                           c.s.push_back(SEPS[id % SEPS.size()].first);
                           c.n.push_back(SEPS[id % SEPS.size()].second);
                           return c;
                       },
                       run_split,
                       T ? "all str over {'/',';','a',00,FF} |str|<=5 x separators {'/',NUL,FF as char; \"/\",\";/\",\"//\",\"/;/\",NUL,\"FF/\",\"a\",\"a/a\",\"\" as string} x limit {0..7,npos} x min_fields {0,1,3,limit}"
                         : "all str over {'/',';','a',00,FF} |str|<=4 x separators {'/',NUL,FF as char; \"/\",\";/\",\"//\",\"/;/\",NUL,\"FF/\",\"a\",\"a/a\",\"\" as string} x limit {0..7,npos} x min_fields {0,1,3,limit}"});

    // replace: str over {'a','b',00,FF} up to 5 (T) / 4 (Q); needle over {'a','b',00} length 1..3;
    // instead: all strings over {'a','b',FF} up to 2 + needle+"a", "a"+needle, needle+needle
    static std::vector<Str> L_rs = all_strings(Str("ab\0\xff", 4), T ? 5 : 4);
    static std::vector<Str> L_rn = all_strings(Str("ab\0", 3), 3);
    static std::vector<Str> L_ri = all_strings("ab\xff", 2);
    static const uint64_t NN = L_rn.size() - 1, NI = L_ri.size() + 3;
    F.push_back(Family{"replace", (uint64_t)L_rs.size() * NN * NI,
                       [](uint64_t id) {
                           Case c;
                           uint64_t ii = id % NI, ni = (id / NI) % NN, si = id / NI / NN;
                           const Str& needle = L_rn[ni + 1];
                           c.s.push_back(L_rs[si]);
                           c.s.push_back(needle);
                           if (ii < L_ri.size()) c.s.push_back(L_ri[ii]);
                           else if (ii == L_ri.size()) c.s.push_back(needle + "a");
                           else if (ii == L_ri.size() + 1) c.s.push_back("a" + needle);
                           else c.s.push_back(needle + needle);
                           return c;
                       },
                       run_replace,
                       T ? "all (str over {'a','b',00,FF} |str|<=5) x (needle over {'a','b',00} 1<=|n|<=3) x (instead over {'a','b',FF} |i|<=2, needle+'a', 'a'+needle, needle+needle)"
                         : "all (str over {'a','b',00,FF} |str|<=4) x (needle over {'a','b',00} 1<=|n|<=3) x (instead over {'a','b',FF} |i|<=2, needle+'a', 'a'+needle, needle+needle)"});

    static std::vector<Str> L_trim = all_strings(Str(" \t\r\na\0\xff", 7), T ? 5 : 4);
    F.push_back(strings_family("trim", &L_trim, run_trim,
                               T ? "all str over {' ','\\t','\\r','\\n','a',00,FF} |str|<=5 x {trim,trim_left,trim_right} x {string*,string_view*,string_view} x 10 drop sets"
                                 : "all str over {' ','\\t','\\r','\\n','a',00,FF} |str|<=4 x {trim,trim_left,trim_right} x {string*,string_view*,string_view} x 10 drop sets"));

    // pairs: alphabet 1 {'a','A','b',00,FF}, alphabet 2 (range borders) {'Z','z','@','{','A'}
    static std::vector<Str> L_p1 = all_strings(Str("aAb\0\xff", 5), T ? 5 : 4);
    static std::vector<Str> L_p2 = all_strings("Zz@{A", 3);
    F.push_back(pairs_family("pairs", &L_p1, &L_p1, run_pairs,
                             T ? "all pairs (a,b) over {'a','A','b',00,FF}, |a|,|b|<=5: starts/ends_with(+_icase), contains, compare/equal/less_icase (all overloads), levenshtein(+_icase)"
                               : "all pairs (a,b) over {'a','A','b',00,FF}, |a|,|b|<=4: starts/ends_with(+_icase), contains, compare/equal/less_icase (all overloads), levenshtein(+_icase)"));
    F.push_back(pairs_family("pairs_borders", &L_p2, &L_p2, run_pairs, "all pairs (a,b) over {'Z','z','@','{','A'}, |a|,|b|<=3 (same functions)"));

    static std::vector<Str> L_case = all_strings(Str("azAZ@[`{\0\xff", 10), T ? 5 : 4);
    F.push_back(strings_family("case", &L_case, run_case_str,
                               T ? "all str over {'a','z','A','Z','@','[','`','{',00,FF} |str|<=5: to_lower/to_upper copy and in-place"
                                 : "all str over {'a','z','A','Z','@','[','`','{',00,FF} |str|<=4: to_lower/to_upper copy and in-place"));
    F.push_back(Family{"case_char", 256, [](uint64_t id) { Case c; c.n.push_back((long long)id); return c; }, run_case_char, "to_lower(char)/to_upper(char) for all 256 byte values"});

    static std::vector<Str> L_erase = all_strings(Str(" ab\0\xff", 5), T ? 6 : 4);
    F.push_back(strings_family("erase", &L_erase, run_erase,
                               T ? "all str over {' ','a','b',00,FF} |str|<=6 x 5 drop characters (incl. default) x 5 drop sets x {copy,in-place}"
                                 : "all str over {' ','a','b',00,FF} |str|<=4 x 5 drop characters (incl. default) x 5 drop sets x {copy,in-place}"));
    static std::vector<Str> L_pad = all_strings(Str(" ab\0\xff", 5), T ? 5 : 4);
    F.push_back(strings_family("pad", &L_pad, run_pad,
                               T ? "all str over {' ','a','b',00,FF} |str|<=5 x len 0..7 x pad_char {default,'a',00,FF}"
                                 : "all str over {' ','a','b',00,FF} |str|<=4 x len 0..7 x pad_char {default,'a',00,FF}"));
}

}  // namespace c19
