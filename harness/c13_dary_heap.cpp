// C13 — tlx::DAryHeap, arity 1 and 2 x {std::less, std::greater, table comparator}
// (driver and oracles: c13_dary_heap.hpp).
#include "c13_dary_heap.hpp"

namespace c13 {
void register_dary_1(std::vector<Config>& out, bool thorough) {
    add_dary<1, 0>(out, thorough, true);
    add_dary<1, 1>(out, thorough, true);
    add_dary<1, 2>(out, thorough, true);
    add_dary<2, 0>(out, thorough, true);
    add_dary<2, 1>(out, thorough, true);
    add_dary<2, 2>(out, thorough, true);
}
}  // namespace c13
