// C13 — tlx::DAryHeap, arity 5..8 (thorough tier only; see c13_dary_heap.hpp for the driver/oracles).
#include "c13_dary_heap.hpp"

namespace c13 {
void register_dary_b(std::vector<Config>& out, bool thorough) {
    add_dary<5, 0>(out, thorough, false, 5);
    add_dary<5, 1>(out, thorough, false, 5);
    add_dary<5, 2>(out, thorough, false, 20);
    add_dary<6, 0>(out, thorough, false, 6);
    add_dary<6, 1>(out, thorough, false, 6);
    add_dary<6, 2>(out, thorough, false, 24);
    add_dary<7, 0>(out, thorough, false, 7);
    add_dary<7, 1>(out, thorough, false, 7);
    add_dary<7, 2>(out, thorough, false, 28);
    add_dary<8, 0>(out, thorough, false, 8);
    add_dary<8, 1>(out, thorough, false, 8);
    add_dary<8, 2>(out, thorough, false, 32);
}
}  // namespace c13
