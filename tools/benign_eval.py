#!/usr/bin/env python3
"""tools/benign_eval.py <name> <property-id> <worktree> [--tier quick|thorough] [--checks C01,C02]

False-alarm test: takes a BEHAVIOUR-PRESERVING change to tlx produced by an independent sub-agent
(a refactoring under which the property still holds), applies it to /repo, runs our checks and
expects them to stay silent (exit 0, no VIOLATION, no HARNESS-ERROR).  The patch and the outcome are
kept under /verif/benign/<name>/.  If a check alarms, either the change is not benign after all
(then it is a seeded change: move it to seeded/) or the check is wrong (fix the machinery).
"""
import json
import os
import re
import shutil
import subprocess
import sys
import time

VERIF = os.path.dirname(os.path.dirname(os.path.abspath(__file__)))


def sh(cmd, cwd=None, timeout=7200, env=None):
    r = subprocess.run(cmd, shell=True, cwd=cwd, stdout=subprocess.PIPE, stderr=subprocess.STDOUT, text=True,
                       errors="replace", timeout=timeout, env=env)
    return r.returncode, r.stdout


def main():
    name, prop, wt = sys.argv[1:4]
    tier = "quick"
    checks = [prop]
    a = sys.argv[4:]
    while a:
        if a[0] == "--tier":
            tier = a[1]
        elif a[0] == "--checks":
            checks = a[1].split(",")
        a = a[2:]
    out = os.path.join(VERIF, "benign", name)
    os.makedirs(out, exist_ok=True)
    so = os.path.join(wt, "seed_out")
    meta = {"name": name, "property": prop, "worktree_commit": sh("git rev-parse HEAD", wt)[1].strip(), "expected": "no alarm"}
    rc, diff = sh("git diff -- tlx", wt)
    open(os.path.join(out, "patch.diff"), "w").write(diff)
    meta["files_changed"] = re.findall(r"^\+\+\+ b/(\S+)", diff, re.M)
    meta["lines_changed"] = len([l for l in diff.splitlines() if re.match(r"^[+-][^+-]", l)])
    if os.path.exists(os.path.join(so, "meta.txt")):
        shutil.copy(os.path.join(so, "meta.txt"), os.path.join(out, "meta.txt"))
    st = sh("git -C /repo status --porcelain -- tlx tests")[1].strip()
    if st:
        print("refusing: /repo has local changes:\n" + st)
        return 2
    rc, o = sh("git -C /repo apply %s" % os.path.join(out, "patch.diff"))
    if rc != 0:
        print("patch does not apply to /repo:", o)
        return 2
    res = {}
    try:
        for c in checks:
            env = dict(os.environ)
            t1 = time.time()
            # evidence / replays of this run must not overwrite those of the unchanged tree
            env["VERIF_OUT_DIR"] = "/tmp/benign_out_%s" % name
            rc, o = sh("bin/check %s --tier %s" % (c, tier), VERIF, env=env)
            viol = [l[:400] for l in o.splitlines() if l.startswith("VIOLATION")]
            errs = [l[:400] for l in o.splitlines() if "HARNESS-ERROR" in l or l.startswith("ERROR")]
            summ = [l for l in o.splitlines() if l.startswith("SUMMARY")]
            res[c] = {"exit": rc, "violations": viol[:6], "errors": errs[:6], "summary": summ[-1] if summ else o[-800:], "tier": tier,
                      "wall_s": round(time.time() - t1, 1), "silent": rc == 0 and not viol and not errs}
    finally:
        sh("git -C /repo checkout -- .")
        shutil.rmtree("/tmp/benign_out_%s" % name, ignore_errors=True)
    meta["checks"] = res
    meta["silent"] = all(v["silent"] for v in res.values())
    json.dump(meta, open(os.path.join(out, "meta.json"), "w"), indent=1)
    print(json.dumps({k: meta[k] for k in ("name", "property", "silent", "lines_changed")}))
    for c, v in res.items():
        print(" ", c, v["summary"][:220], v["violations"][:2], v["errors"][:2])
    return 0


if __name__ == "__main__":
    sys.exit(main())
