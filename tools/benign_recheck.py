#!/usr/bin/env python3
"""tools/benign_recheck.py [name...]  — re-runs the checks recorded in benign/<name>/meta.json against the stored
behaviour-preserving patch (applied to /repo, undone afterwards) and expects silence.  Exit 1 if any check alarms."""
import glob
import json
import os
import shutil
import subprocess
import sys
import time

VERIF = os.path.dirname(os.path.dirname(os.path.abspath(__file__)))


def sh(cmd, cwd=None, env=None):
    r = subprocess.run(cmd, shell=True, cwd=cwd, stdout=subprocess.PIPE, stderr=subprocess.STDOUT, text=True, errors="replace", env=env)
    return r.returncode, r.stdout


def main():
    names = sys.argv[1:] or sorted(os.path.basename(os.path.dirname(f)) for f in glob.glob(os.path.join(VERIF, "benign", "*", "meta.json")))
    bad = 0
    for name in names:
        if name.endswith("-thorough"):
            continue
        d = os.path.join(VERIF, "benign", name)
        meta = json.load(open(os.path.join(d, "meta.json")))
        if sh("git -C /repo status --porcelain -- tlx tests")[1].strip():
            print("refusing: /repo has local changes")
            return 2
        rc, o = sh("git -C /repo apply %s" % os.path.join(d, "patch.diff"))
        if rc != 0:
            print(name, "patch does not apply:", o[:200])
            continue
        res = {}
        try:
            for c in meta["checks"]:
                env = dict(os.environ)
                env["VERIF_OUT_DIR"] = "/tmp/benign_out_%s" % name
                t1 = time.time()
                rc, o = sh("bin/check %s --tier quick" % c, VERIF, env=env)
                viol = [l[:300] for l in o.splitlines() if l.startswith("VIOLATION")]
                errs = [l[:300] for l in o.splitlines() if "HARNESS-ERROR" in l or l.startswith("ERROR")]
                res[c] = {"exit": rc, "violations": viol[:4], "errors": errs[:4], "tier": "quick", "wall_s": round(time.time() - t1, 1), "silent": rc == 0 and not viol and not errs}
        finally:
            sh("git -C /repo checkout -- .")
            shutil.rmtree("/tmp/benign_out_%s" % name, ignore_errors=True)
        meta["recheck"] = res
        json.dump(meta, open(os.path.join(d, "meta.json"), "w"), indent=1)
        ok = all(v["silent"] for v in res.values())
        if not ok:
            bad += 1
        print(name, "silent" if ok else "ALARM", {c: (v["exit"], v["violations"][:1], v["errors"][:1]) for c, v in res.items() if not v["silent"]})
    return 1 if bad else 0


if __name__ == "__main__":
    sys.exit(main())
