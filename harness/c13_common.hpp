// C13 — heaps (engine E2): shared pieces of the c13_* translation units.
//
// One binary, several TUs (the template instantiations are heavy, so they are compiled in parallel):
//   c13_main.cpp                 main(): collects the configurations, balances them over the shards, replay
//   c13_dary_heap[_b].cpp        tlx::DAryHeap                 arity 1..4 [5..8] x {less, greater, table comparator}
//   c13_addressable_heap[_b].cpp tlx::DAryAddressableIntHeap   arity 1..4 [5..8], comparator = external priority table
//   c13_radix_heap[_b,_c,_d].cpp tlx::RadixHeap                8 key types x radix {2,4,8,16,64}
// A configuration = one template instantiation driven by vhist (closure or depth-bounded BFS).
#pragma once
#include <cstdint>
#include <functional>
#include <memory>
#include <string>
#include <vector>

#include "hist/vhist.hpp"

namespace c13 {

// ---------------------------------------------------------------------------------------------
// lifetime ledger.  Elements stored in the heaps carry a `Life` member: every constructor counts the
// object in, the destructor counts it out and marks it DEAD, a move marks the source MOVED.  Reading the
// value of a MOVED/DEAD element, copying/moving from one, destroying twice are recorded as misuse; after
// every transition `live == number of elements the model says are stored`.  (The light-weight form of the
// guide's `Tracked`: no heap block per element — ASan already watches the vector storage, and the DEAD
// marker catches reads of destroyed slots inside a vector's capacity, which ASan does not see.)
struct Ctx {
    long live = 0;
    long misuse = 0;
    std::string first_misuse;
    void bad(const char* what) {
        if (!misuse++) first_misuse = what;
    }
};
extern Ctx* g_ctx;  // ledger of the State currently driven (set on every entry into a System)

enum : uint32_t { L_ALIVE = 0xA11CE5EDu, L_MOVED = 0x30BED0FFu, L_DEAD = 0xDEADDEADu };

struct Life {
    uint32_t st;
    Life() noexcept : st(L_ALIVE) { g_ctx->live++; }
    Life(const Life& o) noexcept : st(L_ALIVE) {
        g_ctx->live++;
        if (o.st != L_ALIVE) g_ctx->bad(o.st == L_MOVED ? "copy-constructed from a moved-from element" : "copy-constructed from a destroyed element");
    }
    Life(Life&& o) noexcept : st(L_ALIVE) {
        g_ctx->live++;
        if (o.st != L_ALIVE) g_ctx->bad(o.st == L_MOVED ? "move-constructed from a moved-from element" : "move-constructed from a destroyed element");
        o.st = L_MOVED;
    }
    Life& operator=(const Life& o) noexcept {
        if (this == &o) return *this;
        if (st == L_DEAD) g_ctx->bad("assignment to a destroyed element");
        if (o.st != L_ALIVE) g_ctx->bad(o.st == L_MOVED ? "copy-assigned from a moved-from element" : "copy-assigned from a destroyed element");
        st = L_ALIVE;
        return *this;
    }
    Life& operator=(Life&& o) noexcept {
        if (this == &o) return *this;
        if (st == L_DEAD) g_ctx->bad("assignment to a destroyed element");
        if (o.st != L_ALIVE) g_ctx->bad(o.st == L_MOVED ? "move-assigned from a moved-from element" : "move-assigned from a destroyed element");
        st = L_ALIVE;
        o.st = L_MOVED;
        return *this;
    }
    ~Life() {
        if (st == L_DEAD) g_ctx->bad("element destroyed twice");
        st = L_DEAD;
        g_ctx->live--;
    }
    bool alive() const { return st == L_ALIVE; }
    // called whenever the element's value is read
    void touch() const {
        if (st != L_ALIVE) g_ctx->bad(st == L_MOVED ? "value of a moved-from element read" : "value of a destroyed element read");
    }
};

// ---------------------------------------------------------------------------------------------
// configuration registry

struct Config {
    std::string name;
    double cost = 1;                                  // relative cost estimate (shard balancing only)
    std::function<void()> run;                        // BFS of this configuration (crash-isolated inside)
    std::function<void(const std::string&)> replay;   // replay one history "op,op,..."
    std::string sample;                               // human-readable example history (optional)
};

template <class Sys>
Config make_config(std::shared_ptr<Sys> sys, double cost, const vhist::Options& opt, const std::string& sample = "") {
    Config c;
    c.name = sys->name();
    c.cost = cost;
    c.sample = sample;
    c.run = [sys, opt] { vhist::run_config(*sys, opt); };
    c.replay = [sys](const std::string& h) { vhist::replay_config(*sys, h); };
    return c;
}

// key lists for build_heap: code -> list of length <= 3 over nk keys (code 0 = empty list)
inline std::vector<int> decode_list(unsigned code, int nk) {
    std::vector<int> l;
    unsigned off = 0, cnt = 1;
    for (int len = 0; len <= 3; ++len) {
        if (code < off + cnt) {
            unsigned c = code - off;
            for (int i = 0; i < len; ++i) {
                l.push_back((int)(c % nk));
                c /= nk;
            }
            return l;
        }
        off += cnt;
        cnt *= nk;
    }
    return l;
}
inline unsigned num_lists(int nk, int maxlen) {
    unsigned n = 0, cnt = 1;
    for (int len = 0; len <= maxlen; ++len) {
        n += cnt;
        cnt *= nk;
    }
    return n;
}
inline std::string list_str(const std::vector<int>& l) {
    std::string s = "[";
    for (size_t i = 0; i < l.size(); ++i) s += (i ? " " : "") + std::to_string(l[i]);
    return s + "]";
}

// registration functions of the TUs
void register_dary_a(std::vector<Config>&, bool thorough);
void register_dary_b(std::vector<Config>&, bool thorough);
void register_addr_a(std::vector<Config>&, bool thorough);
void register_addr_b(std::vector<Config>&, bool thorough);
void register_radix_a(std::vector<Config>&, bool thorough);
void register_radix_b(std::vector<Config>&, bool thorough);
void register_radix_c(std::vector<Config>&, bool thorough);
void register_radix_d(std::vector<Config>&, bool thorough);

}  // namespace c13
