// C04 — parallel string sample sort: inputs x configurations on the default schedule (mode=inputs)
// and small drivers under every interleaving within the bound (mode=schedules).
#include "harness/c04_common.hpp"
#include "sched/vdefault.hpp"
#include "sched/vexplore.hpp"

using namespace c04;

static void fail_inputs(const char* kind, const std::string& msg) { vh::fail_here(kind, msg); }
static void fail_sched(const char* kind, const std::string& msg) { vs_fail(kind, msg.c_str()); }

// all sequences of at most `maxn` strings over the string alphabet A
static void gen_seqs(const std::vector<std::string>& A, int maxn, std::vector<std::vector<std::string>>& out) {
    std::vector<std::vector<std::string>> cur(1);
    out.push_back({});
    for (int l = 1; l <= maxn; ++l) {
        std::vector<std::vector<std::string>> next;
        for (auto& v : cur)
            for (auto& a : A) {
                auto w = v;
                w.push_back(a);
                next.push_back(w);
            }
        for (auto& v : next) out.push_back(v);
        cur.swap(next);
    }
}

int main(int argc, char** argv) {
    bool schedules = false, thorough = false;
    for (int i = 1; i < argc; ++i) {
        if (!strcmp(argv[i], "mode=schedules")) schedules = true;
        if (!strcmp(argv[i], "thorough")) thorough = true;
    }
    if (schedules) {
        std::vector<vx::Scenario> scs;
        // drivers: small inputs that take different paths of the job graph (big step with/without children,
        // sequential sample sort, mkqs, work sharing), 2 and 3 workers
        const char* ins[] = {"b,a,b,a,b|w2|p0", "a,a,a,a,a,a|w2|p0", "b,a,ab,aa,b,a,ba|w2|p0", "ab,aa,ab,aa,b,a|w2|p1", "b,a,b,a,b,a|w3|p0",
                             "bb,ba,ab,aa,b,a,bb,ab,a|w2|p3", "a,a,a,a,a,a,a,a,a,a,a,a|w2|p0", "ab,ab,aa,ab,aa,ab,b,a,ab|w3|p5", "b,a,c,b,a,c|w2|p4"};
        // thorough only: std::string sets, the 64-bit-key / larger-threshold parameter sets, another sampler seed
        const char* ins_t[] = {"b,a,b,a,b,a|w2|p2", "ab,aa,ab,aa,b,a,ab,aa,b|w2|p6", "a,a,a,a,a,a,a,a,a|w3|p2", "bb,ba,ab,aa,b,a,bb|w2|p5"};
        std::vector<std::pair<std::string, bool>> all;
        for (const char* in : ins)
            for (int l = 0; l <= 1; ++l) all.push_back({std::string(in) + vh::fmt("|l%d|s0|r1", l), false});
        for (const char* in : ins_t)
            for (int l = 0; l <= 1; ++l) all.push_back({std::string(in) + vh::fmt("|l%d|s1|r2", l), true});
        for (auto& ent : all)
            for (int once = 0; once < 1; ++once) {
                Case c = parse_case(ent.first);
                vx::Scenario s;
                s.name = "ps5:" + c.str();
                s.family = c.label();
                s.body = [c]() {
                    run_case(c, &fail_sched);
                    vs_observe("sorted");
                };
                s.delay = true;
                s.bound_quick = 1;
                s.bound_thorough = 2;
                s.thorough_only = ent.second;
                s.horizon = 400000;
                scs.push_back(s);
            }
        return vx::run(argc, argv, scs);
    }
    vh::init(argc, argv);
    if (vh::args().has_replay)
        return vh::replay_one([&](const std::string& r) {
            Case c = parse_case(r);
            vh::at(c.label().c_str(), c.str());
            vx::run_default([&] { run_case(c, &fail_inputs); }, 5000000);
        });
    bool light = vh::args().opt("light") == "1";
    std::vector<std::vector<std::string>> in;
    gen_seqs({"a", "b", "", "ab", "aa", "ba", "bb"}, thorough ? 5 : 4, in);
    // families: all-equal, long common prefixes, many duplicates, sizes up to 40
    for (int n : {6, 7, 8, 9, 12, 13, 16, 17, 24, 33, 40}) {
        in.push_back(std::vector<std::string>(n, "a"));
        in.push_back(std::vector<std::string>(n, ""));
        in.push_back(std::vector<std::string>(n, "aaaaaaaaab"));
        std::vector<std::string> v;
        for (int i = 0; i < n; ++i) v.push_back(std::string("aaaaaaaaa") + (char)('a' + (n - i) % 3));
        in.push_back(v);
        v.clear();
        for (int i = 0; i < n; ++i) v.push_back(std::string(1, (char)('a' + (i * 7) % 5)) + std::string((i * 3) % 4, 'x'));
        in.push_back(v);
        v.clear();
        for (int i = 0; i < n; ++i) v.push_back(i % 2 ? "b" : "a");
        in.push_back(v);
        v.clear();
        for (int i = 0; i < n; ++i) v.push_back(std::string((n - i) % 11, 'a'));  // prefixes of each other
        in.push_back(v);
        v.clear();
        for (int i = 0; i < n; ++i) v.push_back(std::string(8, 'q') + std::string(1, (char)(1 + (i * 37) % 250)) + "z");  // high bytes, 8-byte key boundary
        in.push_back(v);
    }
    std::vector<int> workers = {1, 2, 3};
    std::vector<unsigned> seeds = thorough ? std::vector<unsigned>{1, 2, 3} : std::vector<unsigned>{1};
    uint64_t per = workers.size() * NPARAMS * 2 * 2 * seeds.size();
    uint64_t ncases = in.size() * per;
    if (vh::args().shard == 0) {
        Case ex{in[in.size() / 2], 2, 0, 1, 0, 1};
        vh::sample("case " + ex.str() + " = strings ('_' = empty) | workers | parameter set | lcp | string set | sampler seed");
        for (int i = 0; i < NPARAMS; ++i) vh::sample(PARAM_DESC[i], 12);
    }
    vh::run_cases(ncases, [&](uint64_t id) {
        uint64_t q = id % per, ii = id / per;
        Case c;
        c.strs = in[ii];
        c.workers = workers[q % workers.size()];
        q /= workers.size();
        c.param = (int)(q % NPARAMS);
        q /= NPARAMS;
        c.lcp = (int)(q % 2);
        q /= 2;
        c.set = (int)(q % 2);
        q /= 2;
        c.seed = seeds[q % seeds.size()];
        if (light && (c.set == 1 || c.param >= 3)) return;
        vh::at(c.label().c_str(), c.str());
        long steps = vx::run_default([&] { run_case(c, &fail_inputs); }, 5000000);
        vh::stat_add("cases");
        vh::stat_add("states");
        vh::stat_add("executions");
        vh::stat_add("transitions", steps);
        if (steps > 60) vh::stat_add("cases_with_concurrent_jobs");
        if ((id & 2047) == 0) vh::outcome(vh::fmt("n=%zu w=%d p=%d steps~%ld", c.strs.size(), c.workers, c.param, steps / 20 * 20));
    });
    return vh::finish();
}
