// C01/C02 type configurations, group 14 (see c01_btree.hpp; C01_TYPE(kind, greater, leaf, inner, search 0=linear 1=binary 2=default traits, element))
#include "c01_btree.hpp"
C01_TYPE(SET, false, 5, 9, 0, int)
C01_TYPE(MMAP, true, 5, 9, 1, int)
C01_TYPE(MAP, true, 6, 5, 1, int)
C01_TYPE(MSET, false, 6, 5, 0, int)
C01_TYPE(SET, false, 6, 6, 0, int)
C01_TYPE(MMAP, true, 6, 6, 1, int)
C01_TYPE(MAP, true, 6, 7, 1, int)
