// C01/C02 type configurations, group 13 (see c01_btree.hpp; C01_TYPE(kind, greater, leaf, inner, search 0=linear 1=binary 2=default traits, element))
#include "c01_btree.hpp"
C01_TYPE(MMAP, true, 4, 8, 1, int)
C01_TYPE(MAP, true, 4, 9, 1, int)
C01_TYPE(MSET, false, 4, 9, 0, int)
C01_TYPE(SET, false, 5, 7, 0, int)
C01_TYPE(MMAP, true, 5, 7, 1, int)
C01_TYPE(MAP, true, 5, 8, 1, int)
C01_TYPE(MSET, false, 5, 8, 0, int)
