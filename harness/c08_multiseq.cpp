// C08 — tlx::multisequence_partition / tlx::multisequence_selection, bounded exhaustive
// enumeration (E3) against a naive stable-merge reference.
//
// Case id = (length tuple, key assignment of every sequence, comparator, rank) in mixed radix
// inside a "block" (= one ordered tuple of sequence lengths); blocks are laid out one after the
// other, so a case id is an enumerated index.  The replay string does not depend on the
// enumeration: "<less|greater>:<keys of seq0>/<keys of seq1>/...:<rank>", e.g. "less:001/2/0112:5".
//
// Elements are struct Elem{key, tag}; operator< / operator> look at the key only, so
// equivalence != identity (tag = 64*sequence + position).  Comparator std::less<Elem> with
// ascending inputs (partition: the DEFAULT comparator argument), std::greater<Elem> with
// descending inputs.  Every sequence lives in an exact-size heap block, as do the array of
// iterator pairs and the result array: any out-of-range access is an ASan report.
//
// Documented contract used (doc comments in the two headers):
//  * both: "none of the sequences may be empty" -> only non-empty sequences, m >= 1.
//  * partition: rank in 0..N (rank == N is handled explicitly, otherwise assert(rank < N));
//    begin_offsets[i] = "iterator that points to the first element on the greater part of the
//    respective sequence"; "If there are several equal elements across the split, the ones on
//    the left side will be chosen from sequences with smaller number."
//  * selection: rank in 0..N-1 only ("result undefined when ... rank is outside bounds", it
//    throws) -> the property's rank == N is NOT exercised for selection.  `offset` = "The rank of
//    the selected element in the global subsequence of elements equal to the selected element.
//    If the selected element is unique, this number is 0."  => offset == rank - #(elements
//    strictly preceding the selected value under comp).
//  * RankType = std::ptrdiff_t (what the tlx callers in multiway_merge_splitting.hpp use).
//
// Oracles (signatures "multisequence_partition/<o>", "multisequence_selection/<o>"):
//   sum      returned split positions (each within [begin,end]) add up to rank
//   order    no element right of the split strictly precedes an element left of it
//   tiebreak split positions == those of the first `rank` elements of the stable merge by
//            (key under comp, sequence index, position)
//   value    selected element is equivalent to element `rank` of the merged order
//   offset   offset == number of equivalent elements ranked before it in the merged order
// An input sequence modified by a call is reported under <op>/order resp. <op>/value.
//
// Enumerated space (see main): m <= 3: full product of lengths 1..lmax; m = 4,5: lengths
// 1..lmax with a total-length cap (cap4, cap5); plus a fixed list of very unequal length
// tuples.  quick: lmax 6, m <= 4, cap4 11.  thorough: lmax 9, m <= 5, cap4 13, cap5 10.
#include <tlx/algorithm/multisequence_partition.hpp>
#include <tlx/algorithm/multisequence_selection.hpp>

#include <algorithm>
#include <cstddef>
#include <exception>
#include <functional>
#include <utility>

#include "common/vharness.hpp"

struct PodElem {
    int key;
    int tag;
};
static inline bool operator<(const PodElem& a, const PodElem& b) { return a.key < b.key; }
static inline bool operator>(const PodElem& a, const PodElem& b) { return a.key > b.key; }

// heap-owning, lifetime-tracked element: the splitters copy elements into their sample vectors and heaps; assignment onto
// storage that never held an object, use of a destroyed element and leaked copies are counted (run on a subset of the cases)
struct OwnElem {
    int key;
    int tag;
    int* heap;
    enum { MAGIC = 0x5a5a };
    static long& live() { static long v = 0; return v; }
    static long& errors() { static long v = 0; return v; }
    bool ok() const { return heap != nullptr && *heap == MAGIC; }
    OwnElem() : key(0), tag(0), heap(new int(MAGIC)) { live()++; }
    OwnElem(int k, int t) : key(k), tag(t), heap(new int(MAGIC)) { live()++; }
    OwnElem(const OwnElem& o) : key(o.key), tag(o.tag), heap(new int(MAGIC)) {
        if (!o.ok()) errors()++;
        live()++;
    }
    OwnElem& operator=(const OwnElem& o) {
        if (!o.ok() || !ok()) errors()++;
        key = o.key, tag = o.tag;
        return *this;
    }
    ~OwnElem() {
        if (!ok()) errors()++;
        else *heap = 0;
        delete heap;
        heap = nullptr;
        live()--;
    }
};
static inline bool operator<(const OwnElem& a, const OwnElem& b) { return a.key < b.key; }
static inline bool operator>(const OwnElem& a, const OwnElem& b) { return a.key > b.key; }
template <class E>
struct Lifetime {
    static long live() { return 0; }
    static long take_errors() { return 0; }
};
template <>
struct Lifetime<OwnElem> {
    static long live() { return OwnElem::live(); }
    static long take_errors() {
        long e = OwnElem::errors();
        OwnElem::errors() = 0;
        return e;
    }
};

typedef std::ptrdiff_t Rank;

static const int MAXM = 26, MAXL = 40, MAXN = 80;

struct Case {
    bool greater = false;
    int m = 0;
    int len[MAXM];
    signed char keys[MAXM][MAXL];  // literal memory order (descending when greater)
    Rank rank = 0;
};

// writes the replay string of the case into out (NUL-terminated), returns its length
static size_t case_str(const Case& c, char* out) {
    char* p = out;
    const char* name = c.greater ? "greater:" : "less:";
    while (*name) *p++ = *name++;
    for (int i = 0; i < c.m; ++i) {
        if (i) *p++ = '/';
        for (int k = 0; k < c.len[i]; ++k) *p++ = (char)('0' + c.keys[i][k]);
    }
    *p++ = ':';
    long r = (long)c.rank;
    char tmp[24];
    int n = 0;
    do tmp[n++] = (char)('0' + r % 10), r /= 10;
    while (r > 0);
    while (n > 0) *p++ = tmp[--n];
    *p = 0;
    return (size_t)(p - out);
}

static bool parse_case(const std::string& r, Case& c) {
    size_t p1 = r.find(':'), p2 = r.rfind(':');
    if (p1 == std::string::npos || p2 == p1) return false;
    std::string cmp = r.substr(0, p1), body = r.substr(p1 + 1, p2 - p1 - 1);
    if (cmp != "less" && cmp != "greater") return false;
    c.greater = cmp == "greater";
    c.rank = atol(r.substr(p2 + 1).c_str());
    c.m = 1;
    c.len[0] = 0;
    for (char ch : body) {
        if (ch == '/') {
            if (c.m >= MAXM) return false;
            c.len[c.m++] = 0;
        } else if (ch >= '0' && ch <= '9') {
            if (c.len[c.m - 1] >= MAXL) return false;
            c.keys[c.m - 1][c.len[c.m - 1]++] = (signed char)(ch - '0');
        } else return false;
    }
    Rank N = 0;
    for (int i = 0; i < c.m; ++i) {
        if (c.len[i] == 0) return false;  // contract: no empty sequence
        for (int k = 1; k < c.len[i]; ++k)  // contract: sorted under comp
            if (c.greater ? c.keys[i][k - 1] < c.keys[i][k] : c.keys[i][k - 1] > c.keys[i][k]) return false;
        N += c.len[i];
    }
    return N <= MAXN && c.rank >= 0 && c.rank <= N;
}

struct Tagged {
    int key, seq, pos;
};

// counters: slots in the shared mapping are looked up once (the per-case path stays cheap)
static int slot_of(const char* name) { return vh::stat_slot(name, false); }
#define BUMP(name, n)                                \
    do {                                             \
        static int slot_ = slot_of(name);            \
        vh::shm()->stat_val[slot_] += (n);           \
    } while (0)

static void outcome_once(int idx, const std::function<std::string()>& text) {
    static bool seen[256];
    if (seen[idx]) return;
    seen[idx] = true;
    vh::outcome(text());
}

template <class Elem>
static void one_case_t(const Case& c) {
    typedef std::pair<Elem*, Elem*> SeqPair;
    const int m = c.m;
    const int* len = c.len;
    const int dir = c.greater ? -1 : 1;  // reference order: a precedes b  <=>  dir*a.key < dir*b.key
    Rank N = 0;
    for (int i = 0; i < m; ++i) N += len[i];
    const Rank rank = c.rank;
    const long live_at_entry = Lifetime<Elem>::live();
    // publish the replay string (no heap allocation on the pass path)
    char rpbuf[MAXM * (MAXL + 1) + 40];
    size_t rpn = case_str(c, rpbuf);
    memcpy(vh::shm()->replay, rpbuf, rpn + 1);
    auto RP = [&] { return std::string(rpbuf, rpn); };  // only built on failure

    // ---- reference: stable merge by (key, sequence, position): elements are laid out in
    // (sequence, position) order and stably insertion-sorted by the key alone
    Tagged merged[MAXN];
    Rank nm = 0;
    for (int i = 0; i < m; ++i)
        for (int p = 0; p < len[i]; ++p) {
            Tagged t{c.keys[i][p], i, p};
            Rank j = nm++;
            while (j > 0 && dir * t.key < dir * merged[j - 1].key) {
                merged[j] = merged[j - 1];
                --j;
            }
            merged[j] = t;
        }
    Rank exp[MAXM] = {0};
    for (Rank r = 0; r < rank; ++r) exp[merged[r].seq]++;
    bool tie = rank > 0 && rank < N && merged[rank - 1].key == merged[rank].key;

    // ---- exact-size heap inputs
    Elem* buf[MAXM];
    SeqPair* seqs = new SeqPair[m];
    Elem** offs = new Elem*[m];
    for (int i = 0; i < m; ++i) {
        buf[i] = new Elem[len[i]];
        for (int p = 0; p < len[i]; ++p) buf[i][p] = Elem{c.keys[i][p], 64 * i + p};
        seqs[i] = SeqPair(buf[i], buf[i] + len[i]);
        offs[i] = nullptr;
    }
    // inputs must not be modified (tlx takes non-const pointers into them)
    auto check_unmodified = [&](const char* sig) {
        for (int i = 0; i < m; ++i)
            for (int p = 0; p < len[i]; ++p)
                if (buf[i][p].key != c.keys[i][p] || buf[i][p].tag != 64 * i + p) {
                    vh::fail(sig, RP(), RP() + " input sequence modified by the call");
                    return;
                }
    };

    // ---- multisequence_partition
    vh::at_op("multisequence_partition");
    if (c.greater)
        tlx::multisequence_partition(seqs, seqs + m, rank, offs, std::greater<Elem>());
    else
        tlx::multisequence_partition(seqs, seqs + m, rank, offs);  // default comparator std::less<Elem>
    BUMP("partition_calls", 1);
    {
        bool in_range = true, tb_ok = true, order_ok = true;
        Rank sum = 0;
        long long pos[MAXM];
        for (int i = 0; i < m; ++i) {
            // pointer difference on the integer representation: a wild pointer must not be UB here
            pos[i] = ((long long)(intptr_t)offs[i] - (long long)(intptr_t)buf[i]) / (long long)sizeof(Elem);
            if (offs[i] == nullptr || pos[i] < 0 || pos[i] > len[i]) in_range = false;
            sum += (Rank)pos[i];
            if (pos[i] != exp[i]) tb_ok = false;
        }
        int maxl = 0, minr = 0;
        if (in_range) {
            // naive over ALL left / right elements (does not rely on sortedness)
            bool have_l = false, have_r = false;
            for (int i = 0; i < m; ++i)
                for (int p = 0; p < len[i]; ++p) {
                    int k = dir * c.keys[i][p];
                    if (p < pos[i]) {
                        if (!have_l || k > maxl) maxl = k;
                        have_l = true;
                    } else {
                        if (!have_r || k < minr) minr = k;
                        have_r = true;
                    }
                }
            order_ok = !(have_l && have_r && minr < maxl);
        }
        if (!in_range || sum != rank || !order_ok || !tb_ok) {
            std::string got, want;
            for (int i = 0; i < m; ++i) {
                got += vh::fmt("%s%lld", i ? "," : "", pos[i]);
                want += vh::fmt("%s%ld", i ? "," : "", (long)exp[i]);
            }
            std::string d = RP() + " split=[" + got + "] ref=[" + want + "]";
            if (!in_range || sum != rank)
                vh::fail("multisequence_partition/sum", RP(),
                         d + vh::fmt(" sum=%ld rank=%ld%s", (long)sum, (long)rank,
                                     in_range ? "" : " (position outside its sequence)"));
            if (!order_ok)
                vh::fail("multisequence_partition/order", RP(),
                         d + vh::fmt(" max(left)=%d min(right)=%d", dir * maxl, dir * minr));
            if (!tb_ok) vh::fail("multisequence_partition/tiebreak", RP(), d);
        }
        check_unmodified("multisequence_partition/order");
    }
    int ncalls = 1;
    // the rank is a template parameter: the same call with an unsigned 64-bit, an unsigned 32-bit and an int rank must give
    // the same split (arithmetic on the rank inside the function must not depend on its signedness or width)
    {
        Elem** offs2 = new Elem*[m];
        // one alternative rank type per case, in rotation (every (tuple, rank) meets size_t within three neighbouring ranks)
        static unsigned rot = 0;
        const int rt0 = (int)(rot++ % 3);
        for (int rt = rt0; rt <= rt0; ++rt) {
            for (int i = 0; i < m; ++i) offs2[i] = nullptr;
            vh::at_op("multisequence_partition");
            if (rt == 0) {
                if (c.greater) tlx::multisequence_partition(seqs, seqs + m, (size_t)rank, offs2, std::greater<Elem>());
                else tlx::multisequence_partition(seqs, seqs + m, (size_t)rank, offs2);
            } else if (rt == 1) {
                if (c.greater) tlx::multisequence_partition(seqs, seqs + m, (unsigned)rank, offs2, std::greater<Elem>());
                else tlx::multisequence_partition(seqs, seqs + m, (unsigned)rank, offs2);
            } else {
                if (c.greater) tlx::multisequence_partition(seqs, seqs + m, (int)rank, offs2, std::greater<Elem>());
                else tlx::multisequence_partition(seqs, seqs + m, (int)rank, offs2);
            }
            ++ncalls;
            bool same = true;
            for (int i = 0; i < m; ++i)
                if (offs2[i] != offs[i]) same = false;
            if (!same) {
                static const char* rn[3] = {"size_t", "unsigned", "int"};
                std::string got;
                for (int i = 0; i < m; ++i) got += vh::fmt("%s%lld", i ? "," : "", ((long long)(intptr_t)offs2[i] - (long long)(intptr_t)buf[i]) / (long long)sizeof(Elem));
                vh::fail("multisequence_partition/rank-type", RP(), RP() + vh::fmt(" with a rank of type %s the split is [%s], different from the split for a ptrdiff_t rank", rn[rt], got.c_str()));
                break;
            }
        }
        delete[] offs2;
    }

    // ---- multisequence_selection (documented for 0 <= rank < N only)
    if (rank < N) {
        vh::at_op("multisequence_selection");
        Rank offset = -777;
        Elem r{-1, -1};
        bool threw = false;
        try {
            if (c.greater)
                r = tlx::multisequence_selection<Elem>(seqs, seqs + m, rank, offset, std::greater<Elem>());
            else
                r = tlx::multisequence_selection<Elem>(seqs, seqs + m, rank, offset, std::less<Elem>());
        } catch (const std::exception&) {
            threw = true;
        }
        BUMP("selection_calls", 1);
        ++ncalls;
        int want_key = merged[rank].key;
        Rank before = 0;  // elements strictly preceding the selected value
        for (Rank j = 0; j < nm; ++j)
            if (dir * merged[j].key < dir * want_key) ++before;
        Rank want_off = rank - before;
        if (threw || r.key != want_key || offset != want_off) {
            std::string d = RP() + vh::fmt(" selected key=%d tag=%d offset=%ld ref key=%d offset=%ld%s", r.key, r.tag,
                                         (long)offset, want_key, (long)want_off, threw ? " (threw std::exception)" : "");
            if (threw || r.key != want_key) vh::fail("multisequence_selection/value", RP(), d);
            if (threw || offset != want_off) vh::fail("multisequence_selection/offset", RP(), d);
        }
        check_unmodified("multisequence_selection/value");
        outcome_once(128 + m * 4 + (c.greater ? 2 : 0) + (want_off ? 1 : 0), [&] {
            return vh::fmt("selection m=%d %s offset%s", m, c.greater ? "greater" : "less", want_off ? ">0" : "=0");
        });
    }
    int kind = rank == 0 ? 0 : rank == N ? 1 : tie ? 2 : 3;
    outcome_once(m * 8 + (c.greater ? 4 : 0) + kind, [&] {
        static const char* kn[4] = {"rank=0", "rank=N", "tie-across-split", "clean-split"};
        return vh::fmt("partition m=%d %s %s", m, c.greater ? "greater" : "less", kn[kind]);
    });

    for (int i = 0; i < m; ++i) delete[] buf[i];
    delete[] seqs;
    delete[] offs;
    if (long e = Lifetime<Elem>::take_errors())
        vh::fail("multisequence_partition/element-lifetime", RP(),
                 RP() + vh::fmt(" %ld use(s) of an element that is not alive (assignment onto raw storage, read of a destroyed element, double destruction)", e));
    if (Lifetime<Elem>::live() != live_at_entry)
        vh::fail("multisequence_partition/element-leak", RP(), RP() + vh::fmt(" %ld element copies still alive after the calls returned", Lifetime<Elem>::live() - live_at_entry));
    BUMP("cases", 1);
    BUMP("calls", ncalls);
    if (tie) BUMP("tie_cases", 1);
}

// every case with the plain element; with the heap-owning element every case with more than 16 sequences and every 29th of the rest
static void one_case(const Case& c) {
    one_case_t<PodElem>(c);
    static unsigned long long n = 0;
    if (c.m > 16 || (n++ % 29) == 0) {
        one_case_t<OwnElem>(c);
        BUMP("cases_with_owning_elements", 1);
    }
}

// ---------------------------------------------------------------------------
// enumeration

// sorted sequences of length L over {0,1,2}: index -> (#0, #1); #2 = L - #0 - #1
static std::vector<std::vector<std::pair<int, int>>> g_assign;
static void build_assign(int maxlen) {
    g_assign.assign(maxlen + 1, {});
    for (int L = 0; L <= maxlen; ++L)
        for (int c0 = 0; c0 <= L; ++c0)
            for (int c1 = 0; c0 + c1 <= L; ++c1) g_assign[L].push_back({c0, c1});
}

struct Block {
    std::vector<int> len;
    Rank N;
    uint64_t ncases, first;
    bool wide;  // many sequences: keys restricted to {0,1} (libstdc++'s std::sort is an insertion sort, hence
                // stable, up to 16 elements: more than 16 sequences are needed to see an unstable sample sort)
};
static std::vector<Block> g_blocks;
static uint64_t g_total = 0, g_tuples = 0;

static std::vector<std::vector<std::pair<int, int>>> g_assign2;  // assignments over keys {0,1} only

static void add_block(const std::vector<int>& len, bool wide = false) {
    Block b;
    b.len = len;
    b.wide = wide;
    if (g_assign2.empty()) {
        g_assign2.resize(g_assign.size());
        for (size_t L = 0; L < g_assign.size(); ++L)
            for (auto& a : g_assign[L])
                if (a.first + a.second == (int)L) g_assign2[L].push_back(a);
    }
    if ((int)len.size() > MAXM) abort();
    b.N = 0;
    uint64_t na = 1;
    for (int l : len) {
        if (l > MAXL) abort();
        b.N += l;
        na *= (wide ? g_assign2 : g_assign)[l].size();
    }
    if (b.N > MAXN) abort();
    b.ncases = na * 2 * (uint64_t)(b.N + 1);
    b.first = g_total;
    g_total += b.ncases;
    g_tuples += na;
    g_blocks.push_back(b);
}

static void add_product(int m, int lmax, int cap) {
    std::vector<int> len(m, 1);
    for (;;) {
        int s = 0;
        for (int l : len) s += l;
        if (s <= cap) add_block(len);
        int i = m - 1;
        while (i >= 0 && len[i] == lmax) len[i--] = 1;
        if (i < 0) break;
        ++len[i];
    }
}

static Case decode(uint64_t id) {
    size_t lo = 0, hi = g_blocks.size();
    while (hi - lo > 1) {
        size_t mid = (lo + hi) / 2;
        if (g_blocks[mid].first <= id) lo = mid;
        else hi = mid;
    }
    const Block& b = g_blocks[lo];
    uint64_t q = id - b.first;
    Case c;
    c.rank = (Rank)(q % (uint64_t)(b.N + 1));
    q /= (uint64_t)(b.N + 1);
    c.greater = q % 2;
    q /= 2;
    c.m = (int)b.len.size();
    for (int i = 0; i < c.m; ++i) {
        int l = b.len[i];
        auto& tab = (b.wide ? g_assign2 : g_assign)[l];
        std::pair<int, int> cc = tab[q % tab.size()];
        q /= tab.size();
        c.len[i] = l;
        for (int k = 0; k < l; ++k) {
            signed char key = k < cc.first ? 0 : k < cc.first + cc.second ? 1 : 2;
            c.keys[i][c.greater ? l - 1 - k : k] = key;
        }
    }
    return c;
}

static std::string case_string(const Case& c) {
    char buf[MAXM * (MAXL + 1) + 40];
    size_t n = case_str(c, buf);
    return std::string(buf, n);
}

// ASan: keep the default checks, but do not unwind a long stack at every malloc and keep the
// quarantine small (the enumeration performs ~30 small allocations per case)
extern "C" const char* __asan_default_options() { return "malloc_context_size=2:quarantine_size_mb=8"; }

int main(int argc, char** argv) {
    vh::init(argc, argv);
    const bool T = vh::args().thorough();
    // full product of lengths 1..lmax for m <= 3; total-length cap for m = 4, 5
    int mmax = (int)vh::args().opt_int("mmax", T ? 5 : 4);
    int lmax = (int)vh::args().opt_int("lmax", T ? 9 : 6);
    int cap4 = (int)vh::args().opt_int("cap4", T ? 13 : 11);
    int cap5 = (int)vh::args().opt_int("cap5", T ? 10 : 0);
    build_assign(MAXL);
    for (int m = 1; m <= mmax; ++m) add_product(m, lmax, m <= 3 ? 1000 : m == 4 ? cap4 : cap5);
    // very unequal lengths / lengths straddling the padded power-of-two grid
    std::vector<std::vector<int>> extra = {{1, 17}, {17, 1}, {16, 3}, {3, 16}, {1, 1, 17}, {17, 1, 1}, {1, 17, 1}, {2, 16, 1}};
    if (T) {
        extra.push_back({1, 33});
        extra.push_back({33, 1});
        extra.push_back({32, 2});
        extra.push_back({15, 17});
        extra.push_back({1, 8, 16});
        extra.push_back({1, 1, 1, 17});
    }
    if (vh::args().opt_int("extra", 1))
        for (auto& e : extra) add_block(e);
    // more than 16 sequences (keys {0,1}): the initial sample of the partition has one element per sequence
    if (vh::args().opt_int("wide", 1)) {
        add_block(std::vector<int>(17, 1), true);
        std::vector<int> w(17, 1);
        w[0] = 2;
        add_block(w, true);
        if (T) {
            add_block(std::vector<int>(18, 1), true);
            add_block(std::vector<int>(20, 1), true);
            w.assign(18, 1);
            w[9] = 3;
            add_block(w, true);
        }
    }

    if (vh::args().has_replay) {
        return vh::replay_one([&](const std::string& r) {
            Case c;
            if (!parse_case(r, c)) {
                vh::out_line("ERROR cannot parse / out-of-contract replay string: " + r);
                return;
            }
            one_case(c);
        });
    }
    if (vh::args().shard == 0) {
        vh::note(vh::fmt("blocks(length tuples)=%zu key-assigned tuples=%llu cases=%llu (mmax=%d lmax=%d cap4=%d cap5=%d)",
                         g_blocks.size(), (unsigned long long)g_tuples, (unsigned long long)g_total, mmax, lmax, cap4, cap5));
        vh::sample("less:001/2/0112:5 = sequences [0,0,1],[2],[0,1,1,2] (Elem{key,tag}, comparator sees key only), "
                   "rank 5: partition -> split positions must be [3,0,2] (sum 5, stable (key,seq) merge); "
                   "selection -> key 1, offset 2 (third of the equivalent 1s)");
        vh::sample("greater:2/21111111111111100:9 = descending inputs with std::greater, lengths (1,17), every rank 0..18");
        vh::sample(vh::fmt("last enumerated case: %s", case_string(decode(g_total - 1)).c_str()));
    }
    vh::run_cases(g_total, [&](uint64_t id) { one_case(decode(id)); });
    return vh::finish();
}
