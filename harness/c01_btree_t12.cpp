// C01/C02 type configurations, group 12 (see c01_btree.hpp; C01_TYPE(kind, greater, leaf, inner, search 0=linear 1=binary 2=default traits, element))
#include "c01_btree.hpp"
C01_TYPE(MAP, true, 4, 4, 0, int)
C01_TYPE(MAP, false, 4, 4, 1, int)
C01_TYPE(MMAP, true, 4, 4, 0, int)
C01_TYPE(MMAP, false, 4, 4, 1, int)
C01_TYPE(MAP, true, 4, 7, 1, int)
C01_TYPE(MSET, false, 4, 7, 0, int)
C01_TYPE(SET, false, 4, 8, 0, int)
