#!/usr/bin/env python3
"""Rewrites the generated tables of DESIGN.md (between BEGIN/END markers) from known-findings.txt and seeded/*/meta.json."""
import os
import re
import subprocess

HERE = os.path.dirname(os.path.dirname(os.path.abspath(__file__)))
d = open(os.path.join(HERE, "DESIGN.md")).read()

rows = []
for line in open(os.path.join(HERE, "known-findings.txt")):
    line = line.strip()
    m = re.match(r"fixed:\s+property=(\S+)\s+(\S+)\s+(.*)", line)
    if m:
        rows.append("| %s | fixed `%s` | %s |" % (m.group(1), m.group(2), m.group(3).replace("|", "\\|")))
    m = re.match(r"open:\s+property=(\S+)\s+sig=(\S+)\s+(.*)", line)
    if m:
        rows.append("| %s | **open** (`%s`) | %s |" % (m.group(1), m.group(2), m.group(3).replace("|", "\\|")))
rows.sort()
findings = "| prop | status | what failed (witness) |\n|---|---|---|\n" + "\n".join(rows)
seeds = subprocess.check_output(["python3", os.path.join(HERE, "tools", "seed_table.py")], text=True)


def put(doc, tag, body):
    b, e = "<!-- BEGIN:%s -->" % tag, "<!-- END:%s -->" % tag
    if b not in doc:
        raise SystemExit("marker %s missing" % tag)
    i, j = doc.index(b) + len(b), doc.index(e)
    return doc[:i] + "\n" + body.strip() + "\n" + doc[j:]


d = put(d, "FINDINGS", findings)
d = put(d, "SEEDS", seeds)
open(os.path.join(HERE, "DESIGN.md"), "w").write(d)
print("DESIGN.md tables updated: %d findings" % len(rows))
