// C03 — detail sorters over StdStringSet (array of std::string objects, moved around by value).
// "Same string objects" = same multiset of values: every output element must equal one of the
// input's distinct strings with exactly the input's multiplicity (a moved-from / empty leftover
// or a duplicated value breaks the counts).
#include "c03_sort_strings_algos.hpp"

namespace c03 {

struct StdRunner : Runner {
    typedef ssd::StdStringSet Set;
    const Input* in = nullptr;
    size_t n = 0;
    std::string* arr = nullptr;  // exact-size heap array
    std::vector<size_t> mult, cnt;
    LcpArray lcp;
    std::vector<View> views;

    const char* key() const override { return "std"; }
    int n_entries() const override { return N_ALGO; }
    std::string label(int e, bool l) const override { return std::string(ALGO_NAME[e]) + "[StdStringSet," + (l ? "lcp]" : "nolcp]"); }
    bool quadratic(int e) const override { return e == A_INS; }

    void prepare(const Input& input) override {
        in = &input;
        n = in->seq.size();
        arr = new std::string[n ? n : 1];
        mult.assign(in->shape.size(), 0);
        for (uint32_t s : in->seq) mult[s]++;
        lcp.alloc(n);
        views.resize(n);
    }

    void run(int e, bool with_lcp, size_t memory) override {
        for (size_t i = 0; i < n; ++i) arr[i] = in->shape[in->seq[i]];
        lcp.fill();
        std::string lab = label(e, with_lcp);
        publish_call(lab, key(), e, with_lcp, memory);
        Set ss(arr, arr + n);
        if (with_lcp) {
            typedef ssd::StringLcpPtr<Set, uint32_t> SP;
            note_path<SP>("StdStringSet", true, e, n, memory, *in);
            call_algo(e, SP(ss, lcp.p), memory);
        } else {
            typedef ssd::StringPtr<Set> SP;
            note_path<SP>("StdStringSet", false, e, n, memory, *in);
            call_algo(e, SP(ss), memory);
        }
        counters().sorts++;
        counters().strings += n;
        // value multiset
        cnt.assign(in->shape.size(), 0);
        for (size_t i = 0; i < n; ++i) {
            size_t j = 0;
            while (j < in->shape.size() && arr[i] != in->shape[j]) ++j;
            if (j == in->shape.size()) {
                fail_permutation(lab, vh::fmt("n=%zu: out[%zu]=%s is not a value of the input (moved-from leftover?)", n, i, hex(arr[i]).c_str()));
                return;
            }
            cnt[j]++;
        }
        if (cnt != mult) {
            size_t j = 0;
            while (cnt[j] == mult[j]) ++j;
            fail_permutation(lab, vh::fmt("n=%zu: value %s occurs %zu times in the output, %zu times in the input", n, hex(in->shape[j]).c_str(),
                                          cnt[j], mult[j]));
            return;
        }
        for (size_t i = 0; i < n; ++i) views[i] = view_of(arr[i]);
        check_order_lcp(lab, views.data(), n, with_lcp ? lcp.p : nullptr);
    }

    void release() override {
        delete[] arr;
        arr = nullptr;
        lcp.free_();
    }
};

Runner* make_runner_std() { return new StdRunner; }

}  // namespace c03
