// vshim.hpp — shadow namespace tlx::std: force-included (-include) into TUs whose threading is to be
// controlled by the vsched scheduler.  Inside namespace tlx (and its nested namespaces) the name
// `std` then resolves to tlx::std, whose direct members (mutex, condition_variable, atomic, thread,
// minstd_rand, this_thread::yield) win over everything pulled in from ::std by the using-directive.
// tlx sources are compiled UNCHANGED.
#ifndef VSHIM_HPP
#define VSHIM_HPP
#ifdef __cplusplus

#include <atomic>
#include <chrono>
#include <condition_variable>
#include <cstdint>
#include <cstdio>
#include <system_error>
#include <cstdlib>
#include <cstring>
#include <functional>
#include <memory>
#include <mutex>
#include <random>
#include <thread>
#include <type_traits>
#include <utility>

#include "sched/vsched.h"

namespace vshim {

// configuration owned by the harness (enumerated, never ambient)
struct config {
    static unsigned& hardware_concurrency() {
        static unsigned v = 2;
        return v;
    }
    static unsigned& rng_seed() {
        static unsigned v = 1;
        return v;
    }
};

class mutex {
public:
    mutex() noexcept : id_(vs_mutex_new()) {}
    mutex(const mutex&) = delete;
    mutex& operator=(const mutex&) = delete;
    void lock() {
        vs_mutex_lock(id_);
        real_.lock();
    }
    bool try_lock() {
        if (!vs_mutex_trylock(id_)) return false;
        real_.lock();
        return true;
    }
    void unlock() {
        real_.unlock();
        vs_mutex_unlock(id_);
    }
    int vs_id() const { return id_; }
    ::std::mutex& real() { return real_; }

private:
    int id_;
    ::std::mutex real_;
};

class condition_variable {
public:
    condition_variable() noexcept : id_(vs_cv_new()) {}
    condition_variable(const condition_variable&) = delete;
    condition_variable& operator=(const condition_variable&) = delete;
    void notify_one() noexcept { vs_cv_notify_one(id_); }
    void notify_all() noexcept { vs_cv_notify_all(id_); }
    void wait(::std::unique_lock<mutex>& lock) {
        mutex* m = lock.mutex();
        m->real().unlock();
        vs_cv_wait(id_, m->vs_id());
        m->real().lock();
    }
    template <class Pred>
    void wait(::std::unique_lock<mutex>& lock, Pred pred) {
        while (!pred()) wait(lock);
    }

private:
    int id_;
};

template <class T>
class atomic {
    static uint64_t bits(const T& v) {
        uint64_t b = 0;
        ::std::memcpy(&b, &v, sizeof(T) < 8 ? sizeof(T) : 8);
        return b;
    }

public:
    atomic() noexcept = default;
    constexpr atomic(T v) noexcept : a_(v) {}
    atomic(const atomic&) = delete;
    atomic& operator=(const atomic&) = delete;

    T load(::std::memory_order mo = ::std::memory_order_seq_cst) const noexcept {
        vs_atomic_point(this, 1);
        T v = a_.load(mo);
        vs_atomic_loaded(this, bits(v));
        return v;
    }
    void store(T v, ::std::memory_order mo = ::std::memory_order_seq_cst) noexcept {
        vs_atomic_point(this, 0);
        a_.store(v, mo);
        vs_atomic_written();
    }
    operator T() const noexcept { return load(); }
    T operator=(T v) noexcept {
        store(v);
        return v;
    }
    T exchange(T v, ::std::memory_order mo = ::std::memory_order_seq_cst) noexcept {
        vs_atomic_point(this, 0);
        T r = a_.exchange(v, mo);
        vs_atomic_written();
        return r;
    }
    bool compare_exchange_strong(T& e, T d, ::std::memory_order mo = ::std::memory_order_seq_cst) noexcept {
        vs_atomic_point(this, 0);
        bool r = a_.compare_exchange_strong(e, d, mo);
        vs_atomic_written();
        return r;
    }
    bool compare_exchange_strong(T& e, T d, ::std::memory_order s, ::std::memory_order f) noexcept {
        vs_atomic_point(this, 0);
        bool r = a_.compare_exchange_strong(e, d, s, f);
        vs_atomic_written();
        return r;
    }
    bool compare_exchange_weak(T& e, T d, ::std::memory_order mo = ::std::memory_order_seq_cst) noexcept {
        vs_atomic_point(this, 0);
        bool r = a_.compare_exchange_strong(e, d, mo);
        vs_atomic_written();
        return r;  // no spurious failures under the scheduler
    }
    bool compare_exchange_weak(T& e, T d, ::std::memory_order s, ::std::memory_order f) noexcept {
        vs_atomic_point(this, 0);
        bool r = a_.compare_exchange_strong(e, d, s, f);
        vs_atomic_written();
        return r;
    }
    template <class U = T>
    T fetch_add(U d, ::std::memory_order mo = ::std::memory_order_seq_cst) noexcept {
        vs_atomic_point(this, 0);
        T r = a_.fetch_add(d, mo);
        vs_atomic_written();
        return r;
    }
    template <class U = T>
    T fetch_sub(U d, ::std::memory_order mo = ::std::memory_order_seq_cst) noexcept {
        vs_atomic_point(this, 0);
        T r = a_.fetch_sub(d, mo);
        vs_atomic_written();
        return r;
    }
    template <class U = T>
    T fetch_and(U d, ::std::memory_order mo = ::std::memory_order_seq_cst) noexcept {
        vs_atomic_point(this, 0);
        T r = a_.fetch_and(d, mo);
        vs_atomic_written();
        return r;
    }
    template <class U = T>
    T fetch_or(U d, ::std::memory_order mo = ::std::memory_order_seq_cst) noexcept {
        vs_atomic_point(this, 0);
        T r = a_.fetch_or(d, mo);
        vs_atomic_written();
        return r;
    }
    T operator++() noexcept { return fetch_add(T(1)) + T(1); }
    T operator++(int) noexcept { return fetch_add(T(1)); }
    T operator--() noexcept { return fetch_sub(T(1)) - T(1); }
    T operator--(int) noexcept { return fetch_sub(T(1)); }
    T operator+=(T d) noexcept { return fetch_add(d) + d; }
    T operator-=(T d) noexcept { return fetch_sub(d) - d; }
    bool is_lock_free() const noexcept { return a_.is_lock_free(); }
    // harness-only: read without a scheduling point
    T vs_peek() const noexcept { return a_.load(::std::memory_order_seq_cst); }

private:
    ::std::atomic<T> a_;
};

inline void atomic_thread_fence(::std::memory_order mo) noexcept { ::std::atomic_thread_fence(mo); }

class thread {
    struct Call {
        ::std::function<void()> f;
    };
    static void tramp(void* p) {
        ::std::unique_ptr<Call> c(static_cast<Call*>(p));
        c->f();
    }

public:
    typedef int native_handle_type;
    class id {
        int v_;

    public:
        id() : v_(-1) {}
        explicit id(int v) : v_(v) {}
        bool operator==(const id& o) const { return v_ == o.v_; }
        bool operator!=(const id& o) const { return v_ != o.v_; }
        bool operator<(const id& o) const { return v_ < o.v_; }
    };
    thread() noexcept : tid_(-1) {}
    template <class F, class... A,
              class = typename ::std::enable_if<!::std::is_same<typename ::std::decay<F>::type, thread>::value>::type>
    explicit thread(F&& f, A&&... a) {
        if (!vs_active()) {
            ::std::fprintf(stderr, "vshim::thread created outside a scheduled execution\n");
            ::std::abort();
        }
        Call* c = new Call{::std::bind(::std::forward<F>(f), ::std::forward<A>(a)...)};
        tid_ = vs_thread_create(&tramp, c);
    }
    thread(const thread&) = delete;
    thread& operator=(const thread&) = delete;
    thread(thread&& o) noexcept : tid_(o.tid_) { o.tid_ = -1; }
    thread& operator=(thread&& o) noexcept {
        if (joinable()) ::std::terminate();
        tid_ = o.tid_;
        o.tid_ = -1;
        return *this;
    }
    ~thread() {
        if (joinable()) ::std::terminate();
    }
    bool joinable() const noexcept { return tid_ >= 0; }
    void join() {
        if (!joinable()) throw ::std::system_error(::std::make_error_code(::std::errc::invalid_argument));
        vs_thread_join(tid_);
        tid_ = -1;
    }
    id get_id() const noexcept { return id(tid_); }
    void swap(thread& o) noexcept { ::std::swap(tid_, o.tid_); }
    static unsigned hardware_concurrency() noexcept { return config::hardware_concurrency(); }

private:
    int tid_;
};

// PS5 seeds its sampler from a heap address; the shim replaces that by a harness-owned seed
class minstd_rand : public ::std::minstd_rand {
public:
    minstd_rand() : ::std::minstd_rand(config::rng_seed()) {}
    template <class S>
    explicit minstd_rand(S) : ::std::minstd_rand(config::rng_seed()) {}
};

inline void yield() noexcept { vs_yield(); }

}  // namespace vshim

namespace tlx {
namespace std {
using namespace ::std;
using vshim::atomic;
using vshim::atomic_thread_fence;
using vshim::condition_variable;
using vshim::minstd_rand;
using vshim::mutex;
using vshim::thread;
namespace this_thread {
using namespace ::std::this_thread;
using vshim::yield;
}  // namespace this_thread
}  // namespace std
}  // namespace tlx

#endif  // __cplusplus
#endif  // VSHIM_HPP
