from vlib import Harness, NCPU

# One binary, 16 translation units (the template instantiations are heavy; the TUs compile in parallel):
# main + 4 x DAryHeap + 3 x DAryAddressableIntHeap + 8 x RadixHeap.  Private members are read for the canonical
# state dump (-fno-access-control).  The harness balances its configurations over the shards itself.
DARY = ["harness/c13_dary_heap.cpp", "harness/c13_dary_heap_b.cpp", "harness/c13_dary_heap_c.cpp", "harness/c13_dary_heap_d.cpp"]
ADDR = ["harness/c13_addressable_heap.cpp", "harness/c13_addressable_heap_b.cpp", "harness/c13_addressable_heap_c.cpp"]
RADIX = ["harness/c13_radix_heap.cpp"] + ["harness/c13_radix_heap_%s.cpp" % c for c in "bcdefgh"]
MAIN = ["harness/c13_main.cpp"]


def plan(tier):
    T = tier == "thorough"
    h = Harness("c13_heaps", MAIN + DARY + ADDR + RADIX, flavor="asan", tlx_cpp=["tlx/die/core.cpp"],
                extra_flags=["-fno-access-control"])
    # RadixHeap again without asserts: the asserts-on build leaves the largest key of the type out of its BFS alphabet
    # while radix_heap.hpp's debug assertion in reorganize_() fires systematically for it (the fixed "largest key" family
    # reports that); the NDEBUG build runs the full alphabet, which also tells an over-strict assert from a wrong result.
    hn = Harness("c13_radix_ndebug", MAIN + RADIX, flavor="asan_ndebug", tlx_cpp=["tlx/die/core.cpp"],
                 extra_flags=["-fno-access-control"], defines=["C13_RADIX_ONLY"])
    return {
        "harnesses": [h, hn],
        # third run: the property's literal monotonicity condition ("no inserted key smaller than the most recently EXTRACTED
        # minimum"): pushes below a key merely returned by top() are driven too.  tlx documents top() as raising the insertion
        # limit, so this reproduces the open known finding (known-findings.txt) on one small configuration.
        "runs": [(h, ["--tier", tier], NCPU), (hn, ["--tier", tier], NCPU),
                 (hn, ["--tier", "quick", "below_top=1", "only=RadixHeap<i32,r8>", "depth=3"], 1)],
        "rule": "E2 explicit-state BFS over operation histories; a state = canonical dump of the implementation's private members "
                "(+ the driver's priority table / monotonicity floor), re-created by replaying its shortest history; every transition "
                "is a real tlx call checked against a multiset/set model. "
                "DAryHeap<TKey,a,cmp>: arity %s x {std::less, std::greater, external priority table (5 presets)}, keys 0..4 each at most "
                "twice (table comparator: at most %d elements), lifetime-tracked key type; ops push(const&)/push(&&)/pop/extract_top/clear/"
                "update_all (also after switching the table)/build_heap x 3 overloads from every key list of length<=3 in states with <=%d "
                "elements (incl. empty) and of length<=1 in all larger states; CLOSURE. "
                "DAryAddressableIntHeap<K,a,table cmp>: arity %s, uint32 keys (thorough also u8/u16/u64 for one arity each), keys 0..%s unique, "
                "priorities {0,1,2}; ops push x2/update(absent)/pop/extract_top/remove(k)/update(k) unchanged and after raising or lowering "
                "k's priority/update_all plain, after one change, after a table preset/clear/build_heap x 3 overloads x priority patterns from "
                "every list of distinct keys of length<=3 in states with <=%d keys and length<=1 in larger states; contains(0..nk+1) after "
                "every op; CLOSURE; plus a seeded family per arity: 2a+2 keys (smallest heap in which remove() must sift up), 5 full seed heaps, "
                "every history of <=2 ops from each. "
                "RadixHeap<Elem,KeyExtract,K,R>: K in %s x R in %s, 11-key alphabet incl. min/max/-1/0/R-1/R/R+1, ops push/emplace/"
                "emplace_keyfirst for every key >= the key last returned by top()/pop()/swap_top_bucket() (documented insertion limit), top() as "
                "an op, pop, swap_top_bucket, clear; BFS depth %d with canonical-state de-duplication; in every new state two copies are "
                "drained (top/pop and swap_top_bucket) against the sorted model; run in an asserts-on and in an NDEBUG build. "
                "states/transitions are summed over all configurations of both builds; distinct = canonical states"
                % (("1..8", 7, 4, "1..8", "5 (arity<=4) / 4", 2, "{i8,u8,i16,u16,i32,u32,i64,u64}", "{2,4,8,16,64}", 6) if T else
                   ("1..4", 5, 2, "1..4", "4", 1, "{u8,i16,i32,u64}", "{2,8,64}", 5)),
        "assumptions": [
            "finite key universes as stated (closure covers histories of any length over them); RadixHeap histories are depth-bounded",
            "DAryHeap/DAryAddressableIntHeap: a priority change is always followed by the update()/update_all() the doc requires (bundled into one op)",
            "build_heap replaces the contents (doc: 'Builds a heap from ...'; DAryHeap does, the rvalue overloads clear explicitly)",
            "RadixHeap: keys below the key last returned by top() are never inserted (radix_heap.hpp: top() 'Updates insertion limit; no smaller "
            "keys can be inserted later'); the property's wording 'most recently extracted minimum' is available as harness option below_top=1 "
            "and is not part of the check",
            "post-op oracles of a replayed prefix are not re-evaluated (they were when the prefix was first executed; code is deterministic, "
            "checked by the engine's canon-on-replay assertion)",
        ],
    }
