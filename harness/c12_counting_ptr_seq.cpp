// C12 (sequential part) — CountingPtr handle histories, explicit-state closure (engine E2).
//
// Variables: h0,h1,h2 : optional<CountingPtr<Obj>>, d0 : optional<CountingPtr<Derived>> (for the
// converting overloads).  A second system uses CountingPtrNoDelete<Obj> handles only.
// Ops: construct (default, nullptr, new object, make_counting, from raw pointer of another handle,
// copy, move, converting copy/move), copy-/move-assign for every ordered pair incl. self,
// converting assign, reset, member and free swap, unify, destruction of a variable.
// Oracle after every op: use_count of every live object == number of handles pointing to it,
// unique()/valid()/empty()/bool/get()/comparisons consistent, destructor log: an object is destroyed
// exactly once, exactly at the transition where its handle count reached 0; ASan for use-after-free.
#include <tlx/counting_ptr.hpp>

#include <map>
#include <optional>

#include "hist/vhist.hpp"

struct Registry {
    int next_id = 0;
    std::map<int, int> dtor_count;  // id -> destructor calls
    std::map<int, const void*> addr;
};
static Registry* g_reg;

struct Obj : public tlx::ReferenceCounter {
    int id;
    int payload;
    Obj() : id(g_reg->next_id++), payload(7) {
        g_reg->dtor_count[id] = 0;
        g_reg->addr[id] = this;
    }
    Obj(const Obj& o) : tlx::ReferenceCounter(o), id(g_reg->next_id++), payload(o.payload) {
        g_reg->dtor_count[id] = 0;
        g_reg->addr[id] = this;
    }
    virtual ~Obj() { g_reg->dtor_count[id]++; }
};
struct Derived : public Obj {
    int extra = 1;
};

enum { NV = 3, DV = 3 /* index of the derived-typed variable */, NVARS = 4 };

template <class Deleter>
struct System {
    typedef tlx::CountingPtr<Obj, Deleter> P;
    typedef tlx::CountingPtr<Derived, Deleter> PD;
    static const bool kDeletes = std::is_same<Deleter, tlx::CountingPtrDefaultDeleter>::value;

    struct State {
        Registry reg;
        std::optional<P> h[NV];
        std::optional<PD> d;
        // model: which object id each variable points to (-1 null, -2 absent)
        int m[NVARS] = {-2, -2, -2, -2};
        std::vector<Obj*> manual;  // NoDelete: objects the harness must delete itself
        State() { g_reg = &reg; }
        ~State() {
            g_reg = &reg;
            for (auto& x : h) x.reset();
            d.reset();
            if (!System::kDeletes)
                for (Obj* o : manual) delete o;
            for (auto& kv : reg.dtor_count)
                if (kv.second != 1)
                    vh::fail_here("destroyed-count-at-end", vh::fmt("object %d destroyed %d times over the state's life", kv.first, kv.second));
        }
    };

    std::string name() { return kDeletes ? "CountingPtr" : "CountingPtrNoDelete"; }
    std::unique_ptr<State> fresh() { return std::unique_ptr<State>(new State()); }

    // op encoding: kind * 100 + i * 10 + j
    enum Kind { K_DEFAULT = 1, K_NULLPTR, K_NEW, K_MAKE, K_RAW, K_COPYC, K_MOVEC, K_COPYA, K_MOVEA, K_RESET, K_SWAP, K_FSWAP, K_UNIFY, K_DESTROY };
    static uint32_t enc(int k, int i, int j = 0) { return k * 100 + i * 10 + j; }
    std::string op_name(uint32_t op) {
        static const char* n[] = {"?", "default_ctor", "nullptr_ctor", "ctor_from_new", "make_counting", "ctor_from_raw", "copy_ctor", "move_ctor",
                                  "copy_assign", "move_assign", "reset", "swap", "free_swap", "unify", "destroy"};
        int k = op / 100, i = (op / 10) % 10, j = op % 10;
        std::string s = n[k];
        bool conv = (i == DV) != (j == DV) && (k == K_COPYC || k == K_MOVEC || k == K_COPYA || k == K_MOVEA);
        if (conv) s = "converting_" + s;
        if ((k == K_COPYA || k == K_MOVEA) && i == j) s = "self_" + s;
        return s + vh::fmt("(v%d,v%d)", i, j);
    }

    static bool present(const State& s, int v) { return s.m[v] != -2; }
    static int live_objects(const State& s) {
        std::set<int> ids;
        for (int v = 0; v < NVARS; ++v)
            if (s.m[v] >= 0) ids.insert(s.m[v]);
        return (int)ids.size();
    }

    std::vector<uint32_t> ops(const State& s) {
        std::vector<uint32_t> r;
        int live = live_objects(s);
        for (int i = 0; i < NVARS; ++i) {
            if (!present(s, i)) {
                r.push_back(enc(K_DEFAULT, i));
                if (i != DV) r.push_back(enc(K_NULLPTR, i));
                if (live < 2) {
                    r.push_back(enc(K_NEW, i));
                    if (kDeletes && i != DV) r.push_back(enc(K_MAKE, i));
                }
                for (int j = 0; j < NVARS; ++j) {
                    if (j == i || !present(s, j)) continue;
                    // Obj handle from Derived handle is the converting overload; Derived from Obj is not convertible
                    if (i == DV) continue;
                    if (s.m[j] >= 0) r.push_back(enc(K_RAW, i, j));
                    r.push_back(enc(K_COPYC, i, j));
                    r.push_back(enc(K_MOVEC, i, j));
                }
            } else {
                for (int j = 0; j < NVARS; ++j) {
                    if (!present(s, j)) continue;
                    if (i == DV && j != DV) continue;
                    r.push_back(enc(K_COPYA, i, j));
                    r.push_back(enc(K_MOVEA, i, j));
                    if (i != DV && j != DV && i < j) {
                        r.push_back(enc(K_SWAP, i, j));
                        r.push_back(enc(K_FSWAP, i, j));
                    }
                }
                r.push_back(enc(K_RESET, i));
                if (kDeletes && s.m[i] >= 0 && live < 3 && i != DV) r.push_back(enc(K_UNIFY, i));
                r.push_back(enc(K_DESTROY, i));
            }
        }
        return r;
    }

    static int count_pointing(const State& s, int id) {
        int c = 0;
        for (int v = 0; v < NVARS; ++v)
            if (s.m[v] == id) c++;
        return c;
    }

    template <bool D = kDeletes>
    typename std::enable_if<D>::type make_into(State& s, int i) {
        s.h[i].emplace(tlx::make_counting<Obj>());
        s.m[i] = (*s.h[i])->id;
    }
    template <bool D = kDeletes>
    typename std::enable_if<!D>::type make_into(State&, int) {}

    Obj* raw_of(State& s, int v) { return v == DV ? static_cast<Obj*>(s.d->get()) : s.h[v]->get(); }

    void apply(State& s, uint32_t op) {
        g_reg = &s.reg;
        int k = op / 100, i = (op / 10) % 10, j = op % 10;
        std::map<int, int> before;  // id -> handle count before
        for (int v = 0; v < NVARS; ++v)
            if (s.m[v] >= 0) before[s.m[v]]++;
        switch (k) {
        case K_DEFAULT:
            if (i == DV) s.d.emplace();
            else s.h[i].emplace();
            s.m[i] = -1;
            break;
        case K_NULLPTR:
            s.h[i].emplace(nullptr);
            s.m[i] = -1;
            break;
        case K_NEW:
            if (i == DV) {
                Derived* o = new Derived();
                s.manual.push_back(o);
                s.d.emplace(o);
                s.m[i] = o->id;
            } else {
                Obj* o = new Obj();
                s.manual.push_back(o);
                s.h[i].emplace(o);
                s.m[i] = o->id;
            }
            break;
        case K_MAKE: {
            make_into(s, i);
            break;
        }
        case K_RAW:
            s.h[i].emplace(raw_of(s, j));
            s.m[i] = s.m[j];
            break;
        case K_COPYC:
            if (j == DV) s.h[i].emplace(*s.d);
            else s.h[i].emplace(*s.h[j]);
            s.m[i] = s.m[j];
            break;
        case K_MOVEC:
            if (j == DV) s.h[i].emplace(std::move(*s.d));
            else s.h[i].emplace(std::move(*s.h[j]));
            s.m[i] = s.m[j];
            s.m[j] = -1;
            break;
        case K_COPYA:
            if (i == DV) *s.d = *s.d;
            else if (j == DV) *s.h[i] = *s.d;
            else *s.h[i] = *s.h[j];
            s.m[i] = s.m[j];
            break;
        case K_MOVEA: {
            if (i == DV) *s.d = std::move(*s.d);
            else if (j == DV) *s.h[i] = std::move(*s.d);
            else *s.h[i] = std::move(*s.h[j]);
            // documented/actual semantics: moving between two handles of the SAME object (incl. self) is a no-op;
            // otherwise the source becomes null.  The count oracle below is what the property demands, so the
            // model follows the real pointer values for the source and checks them for consistency.
            int src_after = (j == DV ? static_cast<Obj*>(s.d->get()) : s.h[j]->get()) ? 1 : 0;
            if (i == j || s.m[i] == s.m[j]) {
                // either outcome (source kept or nulled) keeps "count == number of handles"; follow the real one
                if (!src_after && i != j) s.m[j] = -1;
            } else {
                s.m[i] = s.m[j];
                s.m[j] = -1;
                if (src_after) vh::fail_here("move-source-not-null", "moved-from handle still points to the object");
            }
            break;
        }
        case K_RESET:
            if (i == DV) s.d->reset();
            else s.h[i]->reset();
            s.m[i] = -1;
            break;
        case K_SWAP:
            s.h[i]->swap(*s.h[j]);
            std::swap(s.m[i], s.m[j]);
            break;
        case K_FSWAP: {
            using tlx::swap;
            swap(*s.h[i], *s.h[j]);
            std::swap(s.m[i], s.m[j]);
            break;
        }
        case K_UNIFY: {
            int shared = count_pointing(s, s.m[i]);
            s.h[i]->unify();
            if (shared > 1) {
                int nid = (*s.h[i])->id;
                if (nid == s.m[i]) vh::fail_here("unify-did-not-clone", "unify() on a shared object kept pointing to it");
                s.m[i] = nid;
            } else if ((*s.h[i])->id != s.m[i]) {
                vh::fail_here("unify-cloned-unique", "unify() on a unique object replaced it");
            }
            break;
        }
        case K_DESTROY:
            if (i == DV) s.d.reset();
            else s.h[i].reset();
            s.m[i] = -2;
            break;
        }
        // destructor log: objects whose handle count dropped to 0 must be destroyed exactly now (deleting flavour)
        for (auto& kv : s.reg.dtor_count) {
            int id = kv.first;
            int now = count_pointing(s, id);
            if (now > 0 && kv.second != 0)
                vh::fail_here("destroyed-while-referenced", vh::fmt("object %d destroyed although %d handle(s) point to it", id, now));
            if (kDeletes && now == 0 && kv.second != 1)
                vh::fail_here(kv.second == 0 ? "not-destroyed-at-zero" : "destroyed-twice",
                              vh::fmt("object %d has no handle left and was destroyed %d times", id, kv.second));
            if (!kDeletes && kv.second != 0) vh::fail_here("nodelete-destroyed", vh::fmt("NoDelete handle destroyed object %d", id));
        }
    }

    void observe(State& s) {
        g_reg = &s.reg;
        for (int v = 0; v < NVARS; ++v) {
            if (!present(s, v)) continue;
            Obj* p = raw_of(s, v);
            bool valid = v == DV ? s.d->valid() : s.h[v]->valid();
            bool empty = v == DV ? s.d->empty() : s.h[v]->empty();
            bool asbool = v == DV ? (bool)*s.d : (bool)*s.h[v];
            bool uniq = v == DV ? s.d->unique() : s.h[v]->unique();
            if (s.m[v] == -1) {
                if (p || valid || !empty || asbool || uniq) vh::fail_here("null-handle-queries", vh::fmt("v%d should be null", v));
                continue;
            }
            if (!p || !valid || empty || !asbool) {
                vh::fail_here("nonnull-handle-queries", vh::fmt("v%d should point to object %d", v, s.m[v]));
                continue;
            }
            if (p->id != s.m[v]) vh::fail_here("points-to-wrong-object", vh::fmt("v%d -> object %d, model %d", v, p->id, s.m[v]));
            size_t uc = v == DV ? s.d->use_count() : s.h[v]->use_count();
            int want = count_pointing(s, s.m[v]);
            if ((int)uc != want) vh::fail_here("use_count", vh::fmt("v%d: use_count()=%zu but %d handle(s) point to object %d", v, uc, want, s.m[v]));
            if (uniq != (want == 1)) vh::fail_here("unique", vh::fmt("v%d: unique()=%d with %d handles", v, (int)uniq, want));
            if ((v == DV ? (*s.d)->payload : (*s.h[v])->payload) != 7) vh::fail_here("payload", "object payload damaged");
        }
        for (int a = 0; a < NV; ++a)
            for (int b = 0; b < NV; ++b) {
                if (!present(s, a) || !present(s, b)) continue;
                const P &x = *s.h[a], &y = *s.h[b];
                bool same = s.m[a] == s.m[b];
                if ((x == y) != same || (x != y) == same) vh::fail_here("operator==", vh::fmt("v%d vs v%d", a, b));
                if ((x < y) != (x.get() < y.get()) || (x <= y) != (x.get() <= y.get()) || (x > y) != (x.get() > y.get()) ||
                    (x >= y) != (x.get() >= y.get()) || (x == y.get()) != same)
                    vh::fail_here("relational", vh::fmt("v%d vs v%d", a, b));
            }
    }

    std::string canon(const State& s) {
        // canonical renaming of object ids by first appearance; counts follow from the pointers
        std::map<int, int> ren;
        std::string c;
        for (int v = 0; v < NVARS; ++v) {
            if (s.m[v] == -2) c += "_";
            else if (s.m[v] == -1) c += "0";
            else {
                if (!ren.count(s.m[v])) {
                    int n = (int)ren.size();
                    ren[s.m[v]] = n;
                }
                c += (char)('A' + ren[s.m[v]]);
                // the real reference count and dynamic type are part of the implementation state
                Obj* p = v == DV ? static_cast<Obj*>(s.d->get()) : s.h[v]->get();
                c += vh::fmt("%zu%c", p ? p->reference_count() : (size_t)99, p && dynamic_cast<Derived*>(p) ? 'd' : 'o');
            }
            c += ' ';
        }
        return c;
    }
};

// ---------------------------------------------------------------------------------------------
// Handles stored INSIDE managed objects (linked list): `head = head->next` assigns from a handle that lives in the
// object the left-hand side is about to release.  Enumerated family (E3): chain length, which nodes are also held
// from outside, copy / move / converting-style assignment; oracle: use_count of every live node == number of handles
// pointing to it (head, predecessor's next, external holders), destructor log exact, ASan.
struct LBase : public tlx::ReferenceCounter {
    virtual ~LBase() {}
};
struct LNode : public LBase {
    int id;
    tlx::CountingPtr<LNode> next;
    static int* dtor_log;  // [id] -> destructor calls
    explicit LNode(int i) : id(i) {}
    ~LNode() override { dtor_log[id]++; }
};
int* LNode::dtor_log = nullptr;

// Cursor = CountingPtr<LNode> (same-type assignments), CountingPtr<const LNode> (converting copy assignment; a member reached
// through a const node cannot be moved from) or CountingPtr<LBase> (converting copy AND move assignment, base <- derived)
template <class Cursor>
struct ListOps;
template <>
struct ListOps<tlx::CountingPtr<LNode>> {
    static const char* nm() { return "list"; }
    static tlx::CountingPtr<LNode>& next_of(tlx::CountingPtr<LNode>& c) { return c->next; }
};
template <>
struct ListOps<tlx::CountingPtr<const LNode>> {
    static const char* nm() { return "list_const_cursor"; }
    static const tlx::CountingPtr<LNode>& next_of(tlx::CountingPtr<const LNode>& c) { return c->next; }
};
template <>
struct ListOps<tlx::CountingPtr<LBase>> {
    static const char* nm() { return "list_base_cursor"; }
    static tlx::CountingPtr<LNode>& next_of(tlx::CountingPtr<LBase>& c) { return static_cast<LNode*>(c.get())->next; }
};

static const int LIST_PER_CURSOR = 4 * 16 * 3;

template <class Cursor>
static void list_case_t(uint64_t cid, const std::string& rp) {
    typedef ListOps<Cursor> LO;
    int L = 1 + (int)(cid % 4);
    uint64_t q = cid / 4;
    unsigned mask = (unsigned)(q % 16);
    q /= 16;
    int variant = (int)(q % 3);  // 0 copy-assign, 1 move-assign, 2 copy via temporary (x = P(x->next))
    if (mask >> L) return;       // holders beyond the chain: duplicate of a smaller mask
    static const char* vn[] = {".copy_assign_from_member", ".move_assign_from_member", ".assign_from_temporary"};
    vh::at((std::string(LO::nm()) + vn[variant]).c_str(), rp);
    int log[4] = {0, 0, 0, 0};
    LNode::dtor_log = log;
    typedef tlx::CountingPtr<LNode> LP;
    {
        LNode* raw[4] = {nullptr, nullptr, nullptr, nullptr};
        LP ext[4];
        Cursor head;
        {
            LP prev;
            for (int i = L - 1; i >= 0; --i) {
                LP n(new LNode(i));
                raw[i] = n.get();
                n->next = prev;
                prev = n;
                if (mask & (1u << i)) ext[i] = n;
            }
            head = prev;
        }
        int pos = 0;  // head points to node pos
        for (;;) {
            bool alive[4];
            // reachability: node i alive iff external holder on i, or head points to it, or predecessor i-1 alive
            for (int i = 0; i < L; ++i) {
                bool a = (mask & (1u << i)) != 0;
                if (i == pos && pos < L) a = true;
                if (i > 0 && alive[i - 1]) a = true;
                alive[i] = a;
            }
            for (int i = 0; i < L; ++i) {
                if (alive[i] && log[i] != 0) vh::fail_here("destroyed-while-referenced", vh::fmt("%s: node %d destroyed while reachable (L=%d mask=%u pos=%d)", rp.c_str(), i, L, mask, pos));
                if (!alive[i] && log[i] != 1)
                    vh::fail_here(log[i] == 0 ? "not-destroyed-at-zero" : "destroyed-twice", vh::fmt("%s: node %d destroyed %d times (L=%d mask=%u pos=%d)", rp.c_str(), i, log[i], L, mask, pos));
                if (alive[i]) {
                    int want = ((mask >> i) & 1) + (i == pos ? 1 : 0) + (i > 0 && alive[i - 1] ? 1 : 0);
                    if ((int)raw[i]->reference_count() != want)
                        vh::fail_here("use_count", vh::fmt("%s: node %d has count %zu, %d handle(s) point to it (L=%d mask=%u pos=%d)", rp.c_str(), i, raw[i]->reference_count(), want, L, mask, pos));
                }
            }
            if (pos >= L) break;
            if (variant == 0) head = LO::next_of(head);
            else if (variant == 1) {
                // moving out of a member of a node that stays alive would change the list; only when head is the sole owner
                // (through a const cursor std::move yields a const rvalue, which selects the copy assignment: still a distinct call form)
                if (alive[pos] && ((mask >> pos) & 1 || (pos > 0 && alive[pos - 1]))) head = LO::next_of(head);
                else head = std::move(LO::next_of(head));
            } else head = Cursor(LO::next_of(head));
            ++pos;
        }
    }
    for (int i = 0; i < L; ++i)
        if (log[i] != 1) vh::fail_here("destroyed-count-at-end", vh::fmt("%s: node %d destroyed %d times", rp.c_str(), i, log[i]));
    vh::stat_add("list_cases");
    vh::stat_add("states");
    vh::stat_add("transitions", L);
}

static void list_case(uint64_t cid) {
    std::string rp = vh::fmt("list:%llu", (unsigned long long)cid);
    uint64_t c = cid % LIST_PER_CURSOR;
    switch (cid / LIST_PER_CURSOR) {
    case 0: list_case_t<tlx::CountingPtr<LNode>>(c, rp); break;
    case 1: list_case_t<tlx::CountingPtr<const LNode>>(c, rp); break;
    default: list_case_t<tlx::CountingPtr<LBase>>(c, rp); break;
    }
}

int main(int argc, char** argv) {
    vh::init(argc, argv);
    System<tlx::CountingPtrDefaultDeleter> s1;
    System<tlx::CountingPtrNoOperationDeleter> s2;
    if (vh::args().has_replay) {
        return vh::replay_one([&](const std::string& r) {
            if (r.compare(0, 5, "list:") == 0) {
                list_case(strtoull(r.c_str() + 5, nullptr, 10));
                return;
            }
            size_t bar = r.find('|');
            std::string cfg = r.substr(0, bar), h = r.substr(bar + 1);
            if (cfg == s1.name()) vhist::replay_config(s1, h);
            else vhist::replay_config(s2, h);
        });
    }
    vhist::Options opt;  // closure
    int sh = vh::args().shard, n = vh::args().nshards;
    if (0 % n == sh) {
        vh::sample("CountingPtr: vars v0..v2 : CountingPtr<Obj>, v3 : CountingPtr<Derived>; e.g. ctor_from_new(v0) copy_ctor(v1,v0) "
                   "self_move_assign(v1,v1) converting_copy_assign(v0,v3) unify(v1) destroy(v0) — closure over all such histories");
        vhist::run_config(s1, opt);
    }
    if (1 % n == sh) vhist::run_config(s2, opt);
    vh::run_cases(3 * LIST_PER_CURSOR, [](uint64_t c) { list_case(c); });
    return vh::finish();
}
