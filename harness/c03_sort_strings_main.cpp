// C03 — sequential string sorters: sorted permutation of the same string objects + exact LCPs.
// Bounded exhaustive enumeration (E3) of the REAL tlx code; no RNG anywhere.
//
// Entry points (one tlx call = one "sort"):
//   * detail sorters insertion_sort, multikey_quicksort, radixsort_CE0/CE2/CE3/CI2/CI3, each with
//     StringPtr (nolcp) and StringLcpPtr<.., uint32_t> (lcp), over UCharStringSet, StdStringSet,
//     UPtrStdStringSet (runners uchar/std/uptr) and StringSuffixSet (runner suffix), invoked as in
//     /repo/tests/sort_strings_test.hpp: sorter(strptr, /*depth*/ 0, memory);
//   * every overload of tlx::sort_strings / sort_strings_lcp (runner front).
//
// Input space = shape x multiplicity x arrangement (every radix/mkqs entry falls back to insertion
// sort below 32 strings, so buckets have to straddle 32 to reach the other code):
//   shape        every set of k distinct NUL-free strings from a universe U = all strings over
//                {0x01,'a','b',0xFF} of length <= L  plus  L9 = "a"*9 and L17 = "a"*16+"b"
//                (common prefix 9: crosses 8-bit, 16-bit and 8-byte boundaries at an odd offset);
//                sets are enumerated as index combinations (no permuted duplicates); the order of
//                the universe is length-lexicographic, so "as given" is not always sorted;
//   multiplicity one value per shape element from a multiplicity set (full: {1,2,31,32,33,70});
//   arrangement  0 as given, 1 reversed, 2 round-robin interleaved, 3 rotated left by one position
//                (arrangements yielding a sequence already seen for this (shape,mult) are skipped);
//   memory       a tier specific list around 3*sizeof(RadixStep) of the 8-bit steps (~6.3 KB) so that
//                the fall-back chains CE3>CE2>CI3>CI2>mkqs>insertion and the in-loop "no room for
//                another stack level" branches are taken; which chain a call takes is computed from
//                the real sizeof()s and reported through vh::outcome ("path ...").
//   (L, k, multiplicity set) per tier: see small_specs().  family "big": total sizes
//   {65535,65536,65537,131072} around the 16-bit radix switch.  family "text" (suffix sets): every
//   text over {a,b} of length <= 12, periodic texts block^r cut to N characters (n >= 32) and, in the
//   big family, a de-Bruijn based text of N characters.
//
// Oracles (signature "<entry or algorithm>[<stringset>,<lcp|nolcp>]/<oracle>"):
//   permutation  output holds the same string objects (pointer multiset for C strings and
//                unique_ptr targets, value multiset for std::string, index multiset for suffixes)
//   order        out[i-1] <= out[i] in unsigned-byte lexicographic order (naive loop)
//   lcp          lcp[i] == |common prefix(out[i-1], out[i])| for all i >= 1 (lcp[0] not compared)
//   plus ASan / assert() (arrays, lcp arrays and C strings are exact-size heap blocks).
#include <algorithm>
#include <functional>
#include <map>

#include "c03_sort_strings.hpp"

namespace c03 {
Counters& counters() {
    static Counters c;
    return c;
}
size_t& replay_base_len() {
    static size_t v = 0;
    return v;
}
}  // namespace c03
using namespace c03;

static const unsigned char ALPHA[4] = {0x01, 'a', 'b', 0xFF};
static const std::string L9(9, 'a');
static const std::string L17 = std::string(16, 'a') + "b";

static std::vector<std::string> universe(int maxlen, bool with_long) {
    std::vector<std::string> r;
    r.push_back("");
    size_t from = 0;
    for (int l = 1; l <= maxlen; ++l) {
        size_t to = r.size();
        for (size_t i = from; i < to; ++i)
            for (unsigned char c : ALPHA) r.push_back(r[i] + (char)c);
        from = to;
    }
    if (with_long) {
        r.push_back(L9);
        r.push_back(L17);
    }
    return r;
}

static std::string unhex(const std::string& s) {
    std::string o;
    if (s == "-") return o;
    for (size_t i = 0; i + 1 < s.size(); i += 2) o += (char)strtol(s.substr(i, 2).c_str(), nullptr, 16);
    return o;
}

static std::vector<uint32_t> arrange(const std::vector<uint32_t>& mult, int arr) {
    std::vector<uint32_t> seq;
    size_t k = mult.size();
    switch (arr) {
    case 0:
    case 3:
        for (size_t i = 0; i < k; ++i) seq.insert(seq.end(), mult[i], (uint32_t)i);
        if (arr == 3 && seq.size() > 1) std::rotate(seq.begin(), seq.begin() + 1, seq.end());
        break;
    case 1:
        for (size_t i = k; i-- > 0;) seq.insert(seq.end(), mult[i], (uint32_t)i);
        break;
    case 2: {
        std::vector<uint32_t> rem = mult;
        for (bool any = true; any;) {
            any = false;
            for (size_t i = 0; i < k; ++i)
                if (rem[i]) {
                    seq.push_back((uint32_t)i);
                    rem[i]--;
                    any = true;
                }
        }
        break;
    }
    }
    return seq;
}

static void compute_depths(Input& in, const std::vector<uint32_t>& mult) {
    in.maxdepth32 = in.maxdepth64k = 0;
    for (size_t i = 0; i < in.shape.size(); ++i)
        for (size_t s = 1; s <= in.shape[i].size(); ++s) {
            unsigned long long cnt = 0;
            for (size_t j = 0; j < in.shape.size(); ++j)
                if (in.shape[j].size() >= s && in.shape[j].compare(0, s, in.shape[i], 0, s) == 0) cnt += mult[j];
            if (cnt >= 32) in.maxdepth32 = std::max(in.maxdepth32, s);
            if (cnt >= 65536 && s % 2 == 0) in.maxdepth64k = std::max(in.maxdepth64k, s / 2);
        }
}

static std::string shape_base(const std::vector<std::string>& shape, const std::vector<uint32_t>& mult, int arr) {
    std::string b = "S=";
    for (size_t i = 0; i < shape.size(); ++i) b += (i ? "," : "") + hex(shape[i]);
    b += ";M=";
    for (size_t i = 0; i < mult.size(); ++i) b += (i ? "," : "") + vh::fmt("%u", mult[i]);
    b += vh::fmt(";A=%d", arr);
    return b;
}

static Input shape_input(const std::vector<std::string>& shape, const std::vector<uint32_t>& mult, int arr) {
    Input in;
    in.shape = shape;
    in.seq = arrange(mult, arr);
    compute_depths(in, mult);
    return in;
}

// ---- texts (suffix sets)

static std::string debruijn(int k, int n) {
    std::vector<int> a(k * n + 1, 0);
    std::string seq;
    std::function<void(int, int)> db = [&](int t, int p) {
        if (t > n) {
            if (n % p == 0)
                for (int j = 1; j <= p; ++j) seq += (char)a[j];
        } else {
            a[t] = a[t - p];
            db(t + 1, p);
            for (int j = a[t - p] + 1; j < k; ++j) {
                a[t] = j;
                db(t + 1, t);
            }
        }
    };
    db(1, 1);
    return seq;
}

// "D" text: T[3j]=T[3j+1]='a', T[3j+2]= j-th symbol of the binary de Bruijn sequence B(2,16) as
// 'a'/'b'; common prefixes of suffixes stay below ~100 characters while 2/3 of all suffixes start
// with "aa" (16-bit bucket >= 65536 for N = 131072).
static const std::string& dtext_full() {
    static std::string t;
    if (t.empty()) {
        std::string d = debruijn(2, 16);
        t.reserve(3 * d.size());
        for (char c : d) {
            t += "aa";
            t += c ? 'b' : 'a';
        }
    }
    return t;
}

static Input text_input(const std::string& text, int arr) {
    Input in;
    in.is_text = true;
    in.text = text;
    in.sa.resize(text.size());
    for (size_t i = 0; i < text.size(); ++i) in.sa[i] = arr == 1 ? text.size() - 1 - i : i;
    return in;
}

static std::string block_text(const std::string& block, size_t n) {
    std::string t;
    while (t.size() < n) t += block;
    t.resize(n);
    return t;
}

// ---- runners

static std::vector<Runner*> g_runners;  // uchar, std, uptr, front, suffix
static Runner* runner_by_key(const std::string& k) {
    for (Runner* r : g_runners)
        if (k == r->key()) return r;
    return nullptr;
}

// Systematic crashes (an ASan report / assert in one entry point on a whole class of inputs) would
// otherwise kill the child in almost every case, lose the remaining calls of those cases and hit the
// 200-crash cap.  Every call marks itself "in flight" in a shared mapping; a new child that finds the
// mark set knows the previous child died inside that (runner, entry, lcp) combination.  After 2 such
// crashes the combination is disabled for the rest of the shard (reported as CAP => not exhaustive;
// the crashes themselves have been reported as FAIL lines by vharness).
struct Guard {
    volatile int inflight;  // combo index or -1
    int crashes[5 * 16 * 2];
    bool cap_printed[5 * 16 * 2];
};
static Guard* g_guard = nullptr;
static int combo(Runner* r, int e, bool lcp) {
    int ri = 0;
    while (g_runners[ri] != r) ++ri;
    return (ri * 16 + e) * 2 + (lcp ? 1 : 0);
}
static void guard_new_process() {
    static pid_t last = 0;
    if (getpid() == last) return;
    last = getpid();
    if (g_guard->inflight >= 0) {
        g_guard->crashes[g_guard->inflight]++;
        g_guard->inflight = -1;
    }
}
static void guarded_run(Runner* r, int e, bool lcp, size_t mem) {
    int c = combo(r, e, lcp);
    if (g_guard->crashes[c] >= 2) {
        if (!g_guard->cap_printed[c]) {
            g_guard->cap_printed[c] = true;
            vh::cap(r->label(e, lcp) + ": crashed twice in this shard, not called for the remaining inputs of the shard");
        }
        vh::stat_add("sorts_skipped_entry_crashed");
        return;
    }
    g_guard->inflight = c;
    r->run(e, lcp, mem);
    g_guard->inflight = -1;
}

static void exec(const Input& in, const std::string& base, const std::vector<Runner*>& rs, const std::vector<size_t>& mems, bool huge) {
    guard_new_process();
    vh::at_replay(base);
    replay_base_len() = std::min(base.size(), sizeof(vh::shm()->replay) - 80);
    for (Runner* r : rs) {
        r->prepare(in);
        for (size_t mem : mems)
            for (int e = 0; e < r->n_entries(); ++e) {
                if (huge && r->quadratic(e)) continue;
                guarded_run(r, e, false, mem);
                guarded_run(r, e, true, mem);
            }
        r->release();
    }
    vh::stat_add("inputs");
    vh::stat_max("max_n", (long long)in.n());
    vh::shm()->stat_val[vh::stat_slot("sorts", false)] += counters().sorts;
    vh::shm()->stat_val[vh::stat_slot("strings_sorted", false)] += counters().strings;
    counters() = Counters();
}

// ---- small family

struct KSpec {
    int k, maxlen;
    std::vector<uint32_t> mults;
    // derived
    std::vector<std::string> uni;
    uint64_t ncomb = 0, nmult = 0, count = 0, stride = 1;
};

static uint64_t binom(uint64_t n, uint64_t k) {
    if (k > n) return 0;
    uint64_t r = 1;
    for (uint64_t i = 1; i <= k; ++i) r = r * (n - k + i) / i;
    return r;
}
static uint64_t gcd64(uint64_t a, uint64_t b) { return b ? gcd64(b, a % b) : a; }

static void finish_spec(KSpec& s) {
    s.uni = universe(s.maxlen, true);
    s.ncomb = binom(s.uni.size(), s.k);
    s.nmult = 1;
    for (int i = 0; i < s.k; ++i) s.nmult *= s.mults.size();
    s.count = s.ncomb * s.nmult;
    // visit the segment in a scrambled (but fixed, bijective) order so that shards (id % nshards)
    // do not line up with one multiplicity digit
    s.stride = 1000003;
    while (gcd64(s.stride, s.count) != 1) s.stride += 2;
}

static const std::vector<uint32_t> M6 = {1, 2, 31, 32, 33, 70}, M5 = {1, 31, 32, 33, 70}, M3 = {1, 32, 70};

static std::vector<KSpec> small_specs(bool thorough) {
    std::vector<KSpec> v;
    if (thorough) {
        v.push_back(KSpec{0, 0, M6});
        v.push_back(KSpec{1, 3, M6});
        v.push_back(KSpec{2, 3, M5});
        v.push_back(KSpec{3, 2, M3});
        v.push_back(KSpec{3, 1, M6});
        v.push_back(KSpec{4, 1, M3});
    } else {
        v.push_back(KSpec{0, 0, M6});
        v.push_back(KSpec{1, 3, M6});
        v.push_back(KSpec{2, 2, M6});
        v.push_back(KSpec{3, 1, M3});
    }
    for (KSpec& s : v) finish_spec(s);
    return v;
}

static void unrank_comb(uint64_t r, size_t n, int k, std::vector<size_t>& out) {
    out.clear();
    size_t x = 0;
    for (int i = k; i > 0; --i) {
        for (;; ++x) {
            uint64_t c = binom(n - x - 1, i - 1);
            if (r < c) break;
            r -= c;
        }
        out.push_back(x++);
    }
}

static const size_t SZMAX = ~(size_t)0;

static void small_case(const KSpec& s, uint64_t local, const std::vector<Runner*>& rs, const std::vector<size_t>& mems) {
    local = (unsigned __int128)local * s.stride % s.count;
    std::vector<size_t> comb;
    unrank_comb(local / s.nmult, s.uni.size(), s.k, comb);
    std::vector<std::string> shape;
    for (size_t c : comb) shape.push_back(s.uni[c]);
    std::vector<uint32_t> mult;
    uint64_t md = local % s.nmult;
    for (int i = 0; i < s.k; ++i) {
        mult.push_back(s.mults[md % s.mults.size()]);
        md /= s.mults.size();
    }
    std::vector<std::vector<uint32_t> > seen;
    for (int arr = 0; arr < 4; ++arr) {
        Input in = shape_input(shape, mult, arr);
        if (std::find(seen.begin(), seen.end(), in.seq) != seen.end()) {
            vh::stat_add("arrangements_skipped_duplicate");
            continue;
        }
        seen.push_back(in.seq);
        exec(in, shape_base(shape, mult, arr), rs, mems, false);
    }
    vh::stat_add("shape_mult_pairs");
}

// ---- big family: (input, runner, memory) per case

struct BigInput {
    std::vector<std::string> shape;
    std::vector<uint32_t> mult;
    int arr;
};

static std::vector<BigInput> big_inputs(bool thorough) {
    std::vector<BigInput> v;
    if (!thorough) {
        v.push_back(BigInput{{L9, L17}, {32768, 32768}, 2});
        v.push_back(BigInput{{"ab", "aa"}, {32769, 32768}, 2});
        v.push_back(BigInput{{"ab"}, {65537}, 0});
        return v;
    }
    const uint32_t totals[4] = {65535, 65536, 65537, 131072};
    const std::vector<std::vector<std::string> > k1 = {{L17}, {"ab"}};
    const std::vector<std::vector<std::string> > k2 = {{L9, L17}, {"a", "ab"}, {"ab", "aa"}, {std::string("ab\x01"), std::string("\xFF\xFF")}};
    for (uint32_t N : totals) {
        for (auto& s : k1) v.push_back(BigInput{s, {N}, 0});
        for (auto& s : k2)
            for (int split = 0; split < 3; ++split) {
                std::vector<uint32_t> m = split == 0 ? std::vector<uint32_t>{N - 1, 1} : split == 1 ? std::vector<uint32_t>{33, N - 33}
                                                                                                     : std::vector<uint32_t>{N / 2, N - N / 2};
                for (int arr = 0; arr < 3; ++arr) v.push_back(BigInput{s, m, arr});
            }
    }
    return v;
}

// ---- text family

struct TextSpec {
    int max_ab_len;                   // every text over {a,b} up to this length
    std::vector<std::string> blocks;  // periodic texts
    std::vector<size_t> lens;
    uint64_t n_ab = 0, n_blk = 0;
};

static TextSpec text_spec(bool thorough) {
    TextSpec t;
    t.max_ab_len = 12;
    t.n_ab = (1ull << (t.max_ab_len + 1)) - 1;
    // blocks: every string over the 4-letter alphabet of length 1..3, every string over {a,b} of length 4..(5|7)
    std::vector<std::string> u = universe(3, false);
    for (size_t i = 1; i < u.size(); ++i) t.blocks.push_back(u[i]);
    for (int l = 4; l <= (thorough ? 7 : 5); ++l)
        for (unsigned v = 0; v < (1u << l); ++v) {
            std::string b;
            for (int i = l - 1; i >= 0; --i) b += ((v >> i) & 1) ? 'b' : 'a';
            t.blocks.push_back(b);
        }
    t.lens = thorough ? std::vector<size_t>{31, 32, 33, 64, 70, 97, 150} : std::vector<size_t>{32, 33, 70};
    t.n_blk = t.blocks.size() * t.lens.size();
    return t;
}

static std::string ab_text(uint64_t id) {
    int l = 0;
    while (id >= (1ull << l)) {
        id -= 1ull << l;
        ++l;
    }
    std::string s;
    for (int i = l - 1; i >= 0; --i) s += ((id >> i) & 1) ? 'b' : 'a';
    return s;
}

// ---- replay

static std::map<std::string, std::string> parse_kv(const std::string& r) {
    std::map<std::string, std::string> m;
    size_t p = 0;
    while (p < r.size()) {
        size_t e = r.find(';', p);
        if (e == std::string::npos) e = r.size();
        std::string item = r.substr(p, e - p);
        size_t q = item.find('=');
        if (q != std::string::npos) m[item.substr(0, q)] = item.substr(q + 1);
        p = e + 1;
    }
    return m;
}
static std::vector<std::string> split(const std::string& s, char c) {
    std::vector<std::string> v;
    size_t p = 0;
    for (;;) {
        size_t e = s.find(c, p);
        if (e == std::string::npos) {
            v.push_back(s.substr(p));
            break;
        }
        v.push_back(s.substr(p, e - p));
        p = e + 1;
    }
    return v;
}

static void replay(const std::string& r) {
    auto kv = parse_kv(r);
    Input in;
    std::string base;
    int arr = atoi(kv["A"].c_str());
    if (kv.count("S")) {
        std::vector<std::string> shape;
        std::vector<uint32_t> mult;
        if (!kv["S"].empty())
            for (auto& h : split(kv["S"], ',')) shape.push_back(unhex(h));
        if (!kv["M"].empty())
            for (auto& m : split(kv["M"], ',')) mult.push_back((uint32_t)strtoul(m.c_str(), nullptr, 10));
        in = shape_input(shape, mult, arr);
        base = shape_base(shape, mult, arr);
    } else if (kv.count("T")) {
        in = text_input(unhex(kv["T"]), arr);
        base = "T=" + kv["T"] + vh::fmt(";A=%d", arr);
    } else if (kv.count("B")) {
        auto bn = split(kv["B"], '*');
        in = text_input(block_text(unhex(bn[0]), strtoul(bn[1].c_str(), nullptr, 10)), arr);
        base = "B=" + kv["B"] + vh::fmt(";A=%d", arr);
    } else if (kv.count("D")) {
        in = text_input(dtext_full().substr(0, strtoul(kv["D"].c_str(), nullptr, 10)), arr);
        base = "D=" + kv["D"] + vh::fmt(";A=%d", arr);
    } else {
        vh::out_line("ERROR cannot parse replay string");
        return;
    }
    Runner* run = runner_by_key(kv["r"]);
    if (!run) {
        vh::out_line("ERROR unknown runner in replay string");
        return;
    }
    size_t mem = strtoull(kv["mem"].c_str(), nullptr, 10);
    vh::at_replay(base);
    replay_base_len() = base.size();
    run->prepare(in);
    run->run(atoi(kv["e"].c_str()), atoi(kv["lcp"].c_str()) != 0, mem);
    run->release();
}

int main(int argc, char** argv) {
    vh::init(argc, argv);
    const bool T = vh::args().thorough();
    g_runners = {make_runner_uchar(), make_runner_std(), make_runner_uptr(), make_runner_front(), make_runner_suffix()};
    const std::vector<Runner*> shape_runners(g_runners.begin(), g_runners.begin() + 4);
    const std::vector<Runner*> text_runners = {g_runners[4]};

    g_guard = static_cast<Guard*>(mmap(nullptr, sizeof(Guard), PROT_READ | PROT_WRITE, MAP_SHARED | MAP_ANONYMOUS, -1, 0));
    if (g_guard == MAP_FAILED) return 2;
    memset(g_guard, 0, sizeof(Guard));
    g_guard->inflight = -1;

    if (vh::args().has_replay) return vh::replay_one(replay);

    const std::string fam = vh::args().opt("fam", "all");
    // memory limits.  8-bit RadixStep ~2.1 KB: 3 steps of slack ~6.3 KB -> 5000: every radix entry gives
    // up (..>mkqs with 5000 bytes of stack frames); 6600: only the in-place CI2 fits (CE2>CI3>CI2:loop8
    // with room for 3 stack levels); 20000: room for 9 levels, then in-loop mkqs; 1 / 64: mkqs gives up
    // too (plain insertion sort); 2000: mkqs for ~27 levels.  16-bit RadixStep 512 KB: 600000 /
    // 2000000 / 3000000 select CE2 / CI3 / CE3 with a limit for the big family.
    const std::vector<size_t> mems_small = T ? std::vector<size_t>{0, 1, 64, 2000, 5000, 6600, 20000, SZMAX} : std::vector<size_t>{0, 1, 5000, 6600, 20000};
    const std::vector<size_t> mems_big = T ? std::vector<size_t>{0, 5000, 600000, 2000000, 3000000, SZMAX} : std::vector<size_t>{0, 3000000};
    const std::vector<size_t> mems_bigtext = T ? mems_big : std::vector<size_t>{0};

    std::vector<KSpec> specs = small_specs(T);
    uint64_t n_small = 0;
    for (auto& s : specs) n_small += s.count;
    std::vector<BigInput> bigs = big_inputs(T);
    const uint64_t n_big = bigs.size() * 4 * mems_big.size();
    TextSpec ts = text_spec(T);
    const std::vector<size_t> dlens = T ? std::vector<size_t>{65535, 65536, 65537, 131072} : std::vector<size_t>{65537};
    const uint64_t n_bigtext = dlens.size() * 2 * mems_bigtext.size();
    const uint64_t n_text = ts.n_ab + ts.n_blk;

    auto run_small = [&](uint64_t id) {
        for (auto& s : specs) {
            if (id < s.count) return small_case(s, id, shape_runners, mems_small);
            id -= s.count;
        }
    };
    auto run_big = [&](uint64_t id) {
        if (id < n_big) {
            size_t mi = id % mems_big.size();
            size_t ri = (id / mems_big.size()) % 4;
            const BigInput& b = bigs[id / mems_big.size() / 4];
            Input in = shape_input(b.shape, b.mult, b.arr);
            exec(in, shape_base(b.shape, b.mult, b.arr), {shape_runners[ri]}, {mems_big[mi]}, true);
        } else {
            id -= n_big;
            size_t mi = id % mems_bigtext.size();
            int arr = (int)((id / mems_bigtext.size()) % 2);
            size_t N = dlens[id / mems_bigtext.size() / 2];
            Input in = text_input(dtext_full().substr(0, N), arr);
            exec(in, vh::fmt("D=%zu;A=%d", N, arr), text_runners, {mems_bigtext[mi]}, true);
        }
    };
    auto run_text = [&](uint64_t id) {
        for (int arr = 0; arr < 2; ++arr) {
            if (id < ts.n_ab) {
                std::string t = ab_text(id);
                if (arr == 1 && t.size() < 2) continue;  // same sequence as arr 0
                exec(text_input(t, arr), "T=" + hex(t) + vh::fmt(";A=%d", arr), text_runners, mems_small, false);
            } else {
                uint64_t q = id - ts.n_ab;
                const std::string& b = ts.blocks[q / ts.lens.size()];
                size_t N = ts.lens[q % ts.lens.size()];
                exec(text_input(block_text(b, N), arr), "B=" + hex(b) + vh::fmt("*%zu;A=%d", N, arr), text_runners, mems_small, false);
            }
        }
    };

    if (vh::args().shard == 0) {
        if (fam == "all" || fam == "small") {
            vh::sample("small: shape {\"a\",\"ab\",L17=a^16 b} x multiplicities (33,1,70) x arrangement round-robin -> 104 strings; each of 7 sorters x "
                       "{nolcp,lcp} x {UChar,Std,UPtr}StringSet + 20 sort_strings overloads x every memory limit; oracles permutation/order/lcp");
            vh::sample("small: shape {\"\",0xFF} x (32,31) reversed, memory=5000: radixsort_CE3>CE2>CI3>CI2>multikey_quicksort fall-back chain");
        }
        if (fam == "all" || fam == "text")
            vh::sample("text: suffixes of \"abaababaabaab\"... : every text over {a,b} up to length 12 and block^r cut to N in {32,33,70,...} over "
                       "StringSuffixSet, index arrays identity and reversed");
        if (fam == "all" || fam == "big")
            vh::sample("big: {L9 x 32768, L17 x 32768} round-robin (65536 strings), memory=3000000: radixsort_CE3 16-bit loop runs out of stack room "
                       "at depth 6 -> multikey_quicksort");
    }
    if (fam == "small") {
        vh::run_cases(n_small, run_small);
    } else if (fam == "big") {
        vh::run_cases(n_big + n_bigtext, run_big);
    } else if (fam == "text") {
        vh::run_cases(n_text, run_text);
    } else {
        vh::run_cases(n_small + n_text + n_big + n_bigtext, [&](uint64_t id) {
            if (id < n_small) return run_small(id);
            id -= n_small;
            if (id < n_text) return run_text(id);
            run_big(id - n_text);
        });
    }
    return vh::finish();
}
