#!/usr/bin/env python3
"""ref/digests.py <out> <maxlen> <long1,long2,...>

Writes the table of expected digests for check C14 with Python's hashlib (an implementation
independent of tlx).  Standard library only.

Lines:
  O <algo> <fam> <L> <hex>   one-shot message of length L
                             fam g: b[i] = (31*i + 7*L + 1) mod 256
                             fam z: all 0x00      fam f: all 0xFF
  P <algo> <t> <hex>         prefix of length t of the chunking stream of the algorithm:
                             S[i] = (31*i + 7*N + 1) mod 256, N = 2*block + 9
"""
import hashlib
import os
import sys

ALGOS = [("md5", 64), ("sha1", 64), ("sha256", 64), ("sha512", 128)]


def fam_g(L, shift=None):
    # periodic with period 256 in i: build one period and repeat
    c = (7 * (L if shift is None else shift) + 1) & 255
    period = bytes(((31 * i + c) & 255) for i in range(256))
    reps = L // 256 + 1
    return (period * reps)[:L]


def main():
    out = sys.argv[1]
    maxlen = int(sys.argv[2])
    longs = [int(x) for x in sys.argv[3].split(",") if x]
    lines = []
    for algo, block in ALGOS:
        for L in list(range(maxlen + 1)) + longs:
            fams = [("g", fam_g(L))]
            if L <= maxlen:
                fams += [("z", b"\x00" * L), ("f", b"\xff" * L)]
            for fam, msg in fams:
                assert len(msg) == L
                lines.append("O %s %s %d %s" % (algo, fam, L, hashlib.new(algo, msg).hexdigest()))
        N = 2 * block + 9
        S = fam_g(N)
        for t in range(N + 1):
            lines.append("P %s %d %s" % (algo, t, hashlib.new(algo, S[:t]).hexdigest()))
    tmp = out + ".tmp%d" % os.getpid()
    with open(tmp, "w") as fh:
        fh.write("\n".join(lines) + "\n")
    os.rename(tmp, out)


if __name__ == "__main__":
    main()
