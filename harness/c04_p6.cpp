// C04: instantiation of the PS5 templates for parameter set p6 (see c04_common.hpp)
#include "harness/c04_common.hpp"
namespace c04 {
void run_p6(const Case& c, FailFn f) { sort_and_check<P6>(c, f); }
}  // namespace c04
