import os
import subprocess

import vlib
from vlib import Harness, NCPU


def plan(tier):
    thorough = tier == "thorough"
    maxlen = 1100 if thorough else 300
    longs = [100000, 1000001] + ([1 << 24] if thorough else [])
    table = os.path.join(vlib.BUILD, "tmp", "c14_expected_%s.txt" % tier)
    # -fno-access-control: the harness reads the private members state_/length_/curlen_/buf_ of the digest classes
    h = Harness("c14_digest", ["harness/c14_digest.cpp"], flavor="asan",
                tlx_cpp=["tlx/digest/md5.cpp", "tlx/digest/sha1.cpp", "tlx/digest/sha256.cpp", "tlx/digest/sha512.cpp",
                         "tlx/string/hexdump.cpp"],
                extra_flags=["-fno-access-control"])

    def prepare():
        # expected digests from Python hashlib (independent implementation), plain python3, stdlib only
        os.makedirs(os.path.dirname(table), exist_ok=True)
        subprocess.run(["python3", os.path.join(vlib.VERIF, "ref", "digests.py"), table, str(maxlen),
                        ",".join(str(x) for x in longs)], check=True)

    return {
        "harnesses": [h],
        "prepare": prepare,
        "runs": [(h, ["--tier", tier, "table=" + table], NCPU)],
        "states_key": "cases", "transitions_key": "comparisons", "traces_key": "comparisons",
        "distinct_key": "cases",
        "extra": {"sections": "stats.oneshot_messages / stats.chunk_triples / stats.siphash_inputs are the measured numbers of "
                              "distinct inputs per section; stats.comparisons counts every tlx call whose result was compared"},
        "rule": "distinct inputs: (a) one-shot messages (algo in md5/sha1/sha256/sha512) x (family g: b[i]=(31i+7L+1)%%256, all-00, all-FF) x "
                "length 0..%d plus family-g messages of %s bytes, each through 10 API forms vs hashlib; (b) chunking triples "
                "(algo, a, n1, n2) with a+n1+n2 <= 2*block+9 (state confluence, state model, digest of the composition); "
                "(c) SipHash inputs (147 keys x 2 byte families x len 0..80 x buffer offset 0..15) + the 64 official vectors at 16 "
                "offsets + default-key overloads + len 81..600 x 16 offsets x 2 families for the paper key and the all-ones key; every input is distinct, none is trivial (zero-length chunks/messages are "
                "boundary cases of the property)" % (maxlen, "/".join(str(x) for x in longs)),
        "assumptions": ["Python hashlib (OpenSSL) is the reference for the four digests",
                        "the SipHash-2-4 reference in the harness is written from the paper and validated on the paper's 64 vectors",
                        "chunking independence for all partitions follows by induction from confluence of every single split "
                        "from every buffer fill 0..block-1 (process() branches only on curlen_ and the remaining size)",
                        "messages beyond the listed lengths, all 2^128 SipHash keys are not enumerated",
                        "a digest object is finalized once (digest()/finalize() mutate the object)"],
    }
