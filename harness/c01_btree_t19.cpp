// C01/C02 type configurations, group 19 (see c01_btree.hpp; C01_TYPE(kind, greater, leaf, inner, search 0=linear 1=binary 2=default traits, element))
#include "c01_btree.hpp"
C01_TYPE(MSET, false, 9, 4, 0, int)
C01_TYPE(SET, false, 9, 5, 0, int)
C01_TYPE(MMAP, true, 9, 5, 1, int)
C01_TYPE(MAP, true, 9, 6, 1, int)
C01_TYPE(MSET, false, 9, 6, 0, int)
C01_TYPE(SET, false, 9, 7, 0, int)
C01_TYPE(MMAP, true, 9, 7, 1, int)
