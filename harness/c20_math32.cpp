// C20 (part 1 of 2) — the 32-bit overloads and 32-bit template instantiations of the integer helpers in
// tlx/math/*.hpp, bounded exhaustive sweep (E3), built -O2 without sanitizer (pure arithmetic, 2^32 inputs).
//
// thorough: every one of the 2^32 bit patterns x (case = block of 2^16 consecutive values)
// quick   : every 16-bit value v placed at the low (v), middle (v<<8) and high (v<<16) bit positions
// both    : case 0 = structured 32-bit set (one/two-bit patterns, 2^k+-1, 2^k-2^j, extremes, byte patterns,
//           negations, complements), sorted ascending so that the first printed failure is a small input.
// Per x (as unsigned and reinterpreted as int): clz, ctz, ffs, popcount, integer_log2_floor/ceil,
// is_power_of_two, round_up/down_to_power_of_two (overloads) + the *_template instantiations + sgn,
// popcount_generic32, bswap32(+generic), rol32/ror32(+generic) for every shift 0..31, and div_ceil / round_up /
// abs_diff of x against a few constants in both argument orders.  References: c20_common.hpp (exact in
// 64/128-bit arithmetic), compared only where the result is representable and x is in the documented domain.
#include "c20_common.hpp"

using namespace c20;

static const unsigned KU[] = {1u, 3u, 10u, 0x10000u, 0x7fffffffu, 0xffffffffu};
static const int KI[] = {1, 3, 10, 0x10000, 0x40000000, 0x7fffffff};
static const unsigned KU_REV[] = {0xffffffffu};  // as dividend, x as divisor
static const int KI_REV[] = {0x7fffffff};
static const unsigned AU[] = {0u, 1u, 0x80000000u, 0xffffffffu};
static const int AI[] = {0, 1, -1, 0x40000000, -0x40000000, 0x7fffffff, (int)0x80000000};

// rotation references in 64-bit arithmetic (cheaper than the 128-bit ones of c20_common.hpp, cross-checked in main)
static inline uint32_t ref_rol32(uint32_t x, int s) {
    uint64_t t = (uint64_t)x << s;
    return (uint32_t)(t | (t >> 32));
}
static inline uint32_t ref_ror32(uint32_t x, int s) {
    uint64_t t = ((uint64_t)x << 32) >> s;
    return (uint32_t)(t | (t >> 32));
}

static inline void check32(uint32_t x) {
    g_in.a = x;
    ++g_ninputs;
    const int xi = (int)x;
    check_overloads<unsigned>(x);
    check_overloads<int>(xi);
    check_templates<unsigned>(x);
    check_templates<int>(xi);
    cmp(S<F_popcount_generic32>::s, tlx::popcount_generic32(x), ref_pop(x), x);
    const uint32_t bs = (uint32_t)ref_bswap(x, 4);
    cmp(S<F_bswap32>::s, tlx::bswap32(x), bs, x);
    cmp(S<F_bswap32_generic>::s, tlx::bswap32_generic(x), bs, x);
    for (int s = 0; s < 32; ++s) {
        const uint32_t rl = ref_rol32(x, s), rr = ref_ror32(x, s);
        cmp(S<F_rol32>::s, tlx::rol32(x, s), rl, x, s);
        cmp(S<F_rol32_generic>::s, tlx::rol32_generic(x, s), rl, x, s);
        cmp(S<F_ror32>::s, tlx::ror32(x, s), rr, x, s);
        cmp(S<F_ror32_generic>::s, tlx::ror32_generic(x, s), rr, x, s);
    }
    for (unsigned k : KU) check_div<unsigned, unsigned, int64_t>(x, k);
    for (unsigned k : KU_REV) check_div<unsigned, unsigned, int64_t>(k, x);
    for (int k : KI) check_div<int, int, int64_t>(xi, k);
    for (int k : KI_REV) check_div<int, int, int64_t>(k, xi);
    for (unsigned k : AU) check_abs_diff<unsigned, int64_t>(x, k), check_abs_diff<unsigned, int64_t>(k, x);
    for (int k : AI) check_abs_diff<int, int64_t>(xi, k), check_abs_diff<int, int64_t>(k, xi);
}

int main(int argc, char** argv) {
    vh::init(argc, argv);
    build_tables();
    self_check();
    const bool T = vh::args().thorough();
    const std::vector<uint64_t> S32 = structured(32);
    for (uint64_t v : S32)
        for (int s = 0; s < 32; ++s)
            if (ref_rol32((uint32_t)v, s) != ref_rol(v, s, 32) || ref_ror32((uint32_t)v, s) != ref_ror(v, s, 32)) {
                vh::out_line("ERROR rotation reference self-check failed");
                return 2;
            }
    const uint64_t QB = 4096;  // quick: values per block
    const uint64_t ncases = T ? 1 + 65536 : 1 + 3 * (65536 / QB);
    g_in.fam = "v32";
    auto run_case = [&](uint64_t id) {
        vh::at("sweep32", vh::fmt("case:%llx:0", (unsigned long long)id));
        if (id == 0) {
            for (uint64_t v : S32) check32((uint32_t)v);
        } else if (T) {
            const uint32_t base = (uint32_t)((id - 1) << 16);
            for (uint32_t j = 0; j < 65536; ++j) check32(base | j);
        } else {
            const uint64_t q = id - 1, place = q / (65536 / QB), blk = q % (65536 / QB);
            const int shift = 8 * (int)place;
            for (uint64_t j = 0; j < QB; ++j) {
                uint64_t v = blk * QB + j;
                if (place > 0 && v < 256) continue;  // v << shift already covered by the previous placement
                check32((uint32_t)(v << shift));
            }
        }
        flush_case();
    };
    if (vh::args().has_replay) {
        return vh::replay_one([&](const std::string& r) {
            std::string fam;
            uint64_t a, b;
            if (!parse_replay(r, &fam, &a, &b)) return;
            if (fam == "case")
                run_case(a);
            else {
                check32((uint32_t)a);
                flush_case();
            }
        });
    }
    if (vh::args().shard == 0) {
        vh::sample("x=0x80000000 as unsigned and as int: clz/ctz/ffs/popcount/log2/is_pow2/round_up/down_pow2 (overloads + "
                   "templates), sgn, popcount_generic32, bswap32(+generic), rol32/ror32(+generic) shifts 0..31, "
                   "div_ceil/round_up/abs_diff(x,K),(K,x) for a few constants K; each vs. the exact reference");
        vh::sample(T ? "thorough: all 2^32 values x, 65536 blocks of 65536"
                     : "quick: v, v<<8, v<<16 for all v < 65536 (duplicates removed)");
        vh::sample(vh::fmt("case 0: %zu structured 32-bit values, e.g. 0x%llx 0x%llx 0x%llx", S32.size(),
                           (unsigned long long)S32[S32.size() / 3], (unsigned long long)S32[S32.size() / 2],
                           (unsigned long long)S32[S32.size() - 2]));
    }
    vh::run_cases(ncases, run_case);
    return vh::finish();
}
