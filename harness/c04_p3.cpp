// C04: instantiation of the PS5 templates for parameter set p3 (see c04_common.hpp)
#include "harness/c04_common.hpp"
namespace c04 {
void run_p3(const Case& c, FailFn f) { sort_and_check<P3>(c, f); }
}  // namespace c04
