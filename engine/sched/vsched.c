/* vsched.c — serialising deterministic scheduler (engine E1).  Plain C, built without sanitizers.
 *
 * Exactly one thread holds the baton.  Every synchronisation operation of the program under test
 * calls into this file *before* it performs the real operation; that call is a scheduling point
 * at which the explorer's choice list decides who runs next.  Blocking (mutex held, cv wait, join)
 * is modelled here, so the real primitives underneath never block.
 */
#define _GNU_SOURCE
#include "vsched.h"

#include <linux/futex.h>
#include <pthread.h>
#include <stdio.h>
#include <stdlib.h>
#include <string.h>
#include <sys/syscall.h>
#include <unistd.h>

enum { T_UNUSED = 0, T_RUNNABLE, T_BLK_MUTEX, T_BLK_CV, T_BLK_JOIN, T_DONE };

struct thr {
    int state;
    int obj;
    int baton;
    pthread_t pt;
    void (*fn)(void*);
    void* arg;
    const void* last_addr;
    uint64_t last_val;
    int last_valid;
    int spin;
    int same_loads;
    int joined;
    uint64_t loc; /* abstract control location: call-site chain + pending operation + harness tag */
    uint64_t tag;
};

#define VS_MAXMUTEX 8192
static struct thr T[VS_MAXT];
static int nT;
static int cur;
static int active;
static struct vs_shared* SH;
static struct { int held, owner; } M[VS_MAXMUTEX];
static int nM, nCV;
static int cvwaits;
static int consec;     /* consecutive steps of the same thread while others were runnable */
static int (*quiescence_cb)(void);
static uint64_t (*state_cb)(void);
static __thread int self_tid;

#define FAIR_LIMIT 400

static void futex_wait(int* addr, int val) { syscall(SYS_futex, addr, FUTEX_WAIT_PRIVATE, val, NULL, NULL, 0); }
static void futex_wake(int* addr) { syscall(SYS_futex, addr, FUTEX_WAKE_PRIVATE, 1, NULL, NULL, 0); }

static void wait_baton(int me) {
    while (__atomic_load_n(&T[me].baton, __ATOMIC_ACQUIRE) == 0) futex_wait(&T[me].baton, 0);
    __atomic_store_n(&T[me].baton, 0, __ATOMIC_RELAXED);
}
static void pass_baton(int to) {
    cur = to;
    __atomic_store_n(&T[to].baton, 1, __ATOMIC_RELEASE);
    futex_wake(&T[to].baton);
}

static const char* state_name(int s) {
    switch (s) {
    case T_RUNNABLE: return "runnable";
    case T_BLK_MUTEX: return "blocked-on-mutex";
    case T_BLK_CV: return "blocked-in-cv-wait";
    case T_BLK_JOIN: return "blocked-in-join";
    case T_DONE: return "done";
    }
    return "?";
}

static void describe_threads(void) {
    char* p = SH->blocked;
    size_t left = sizeof(SH->blocked) - 1;
    for (int t = 0; t < nT && left > 40; ++t) {
        int n = snprintf(p, left, "T%d:%s(%d) ", t, state_name(T[t].state), T[t].obj);
        if (n < 0 || (size_t)n >= left) break;
        p += n;
        left -= n;
    }
    *p = 0;
}

static int abnormal_exit_code = 0;
void vs_set_abnormal_exit_code(int c) { abnormal_exit_code = c; }

static void end_execution(int status) {
    describe_threads();
    SH->status = status;
    _exit(status == VS_QUIESCENT_OK ? 0 : abnormal_exit_code);
}

static uint64_t mix64(uint64_t h, uint64_t v) {
    h ^= v + 0x9E3779B97F4A7C15ull + (h << 6) + (h >> 2);
    h *= 0xff51afd7ed558ccdull;
    return h ^ (h >> 29);
}

/* hash of the return-address chain of the calling thread (frame pointers; all code is built with
 * -fno-omit-frame-pointer).  Identifies the call site of the pending synchronisation operation and its callers. */
extern char __executable_start, etext; /* linker-provided bounds of the executable's text */
static void** t0_limit; /* frame of vs_begin's caller: thread 0's walk stops there (what lies above depends on who started the worker) */
static uint64_t backtrace_hash(void) {
    uint64_t h = 1469598103934665603ull;
    void** fp = (void**)__builtin_frame_address(0);
    void** base = fp;
    for (int n = 0; n < 12 && fp; ++n) {
        if (cur == 0 && t0_limit && fp >= t0_limit) break;
        void* ret = fp[1];
        /* stop at the first frame outside the executable (libc's thread start routine etc. keep no frame pointers) */
        if ((char*)ret < &__executable_start || (char*)ret >= &etext) break;
        h = mix64(h, (uint64_t)(uintptr_t)ret);
        void** next = (void**)fp[0];
        if (next <= fp || (char*)next > (char*)base + (1 << 19) || ((uintptr_t)next & 7)) break;
        fp = next;
    }
    return h;
}

static void note_loc(int kind, int obj) {
    if (!active || !SH->user[4]) return;
    int me = cur;
    T[me].loc = mix64(mix64(mix64(backtrace_hash(), (uint64_t)kind), (uint64_t)(obj + 1)), T[me].tag);
}

static uint64_t global_state_hash(void) {
    uint64_t h = mix64(0x1234567, (uint64_t)cur);
    for (int t = 0; t < nT; ++t) {
        h = mix64(h, (uint64_t)T[t].state * 131 + (uint64_t)(T[t].obj + 1));
        h = mix64(h, T[t].state == T_DONE ? 0 : T[t].loc);
        h = mix64(h, (uint64_t)(T[t].spin * 4 + (T[t].same_loads > 2 ? 2 : T[t].same_loads)));
    }
    for (int m = 0; m < nM; ++m) h = mix64(h, (uint64_t)(M[m].held ? M[m].owner + 1 : 0));
    if (state_cb) h = mix64(h, state_cb());
    if (SH->user[5]) { /* debugging aid: dump the components */
        fprintf(stderr, "DBGSTATE pt=%d cur=%d nM=%d", SH->npoints, cur, nM);
        for (int t = 0; t < nT; ++t) fprintf(stderr, " T%d[s%d o%d loc%llx tag%llu sp%d sl%d]", t, T[t].state, T[t].obj, (unsigned long long)T[t].loc, (unsigned long long)T[t].tag, T[t].spin, T[t].same_loads);
        fprintf(stderr, " cb=%llx\n", (unsigned long long)(state_cb ? state_cb() : 0));
    }
    return h ? h : 1;
}

static int take_choice(int nopt, int altcost, int kind, const int* opts) {
    if (SH->user[2]) return 0; /* default-schedule runs: nothing is recorded, always the default */
    int idx = SH->npoints;
    if (idx >= VS_MAXPOINTS) end_execution(VS_HORIZON);
    int c = 0;
    if (idx < SH->nprefix) {
        c = SH->prefix[idx];
        if (c >= nopt) {
            snprintf(SH->fail_msg, sizeof SH->fail_msg, "replay divergence at point %d: choice %d but only %d options", idx, c,
                     nopt);
            end_execution(VS_DIVERGED);
        }
    }
    struct vs_point* p = &SH->points[idx];
    p->nopt = (unsigned char)nopt;
    p->chosen = (unsigned char)c;
    p->altcost = (unsigned char)altcost;
    p->kind = (unsigned char)kind;
    for (int i = 0; i < VS_MAXOPT; ++i) p->tids[i] = i < nopt ? (unsigned char)opts[i] : 255;
    /* a notify_one target choice follows the scheduling point of the same operation without any state change in
     * between: the point kind is part of the abstract state so that the two are never taken for one state */
    p->state = SH->user[4] ? mix64(global_state_hash(), kind == VS_K_NOTIFY ? 0x6e6f74696679ull : 0) : 0;
    SH->npoints = idx + 1;
    return c;
}

static void quiescent(void) {
    int ok = quiescence_cb ? quiescence_cb() : 0;
    end_execution(ok ? VS_QUIESCENT_OK : VS_DEADLOCK);
}

/* decide who runs next; the caller has already updated its own state */
static void reschedule(int kind) {
    int me = cur;
    if (++SH->nsteps > SH->horizon) {
        int others = 0;
        for (int t = 0; t < nT; ++t)
            if (t != me && T[t].state == T_RUNNABLE) others = 1;
        end_execution((consec >= FAIR_LIMIT * 2 && others) ? VS_SPIN_FAULT : VS_HORIZON);
    }
    int en[VS_MAXT], n = 0;
    for (int t = 0; t < nT; ++t)
        if (T[t].state == T_RUNNABLE) en[n++] = t;
    if (n == 0) quiescent();
    int opts[VS_MAXT], nopt = 0, altcost = 1;
    int me_enabled = T[me].state == T_RUNNABLE;
    int delay_mode = SH->user[1]; /* 1: delay-bounded exploration, every deviation from the default costs */
    if (me_enabled && n > 1 && consec >= FAIR_LIMIT) kind = VS_K_YIELD; /* fairness fall-back */
    /* rot = runnable threads in round-robin order after me: me+1, me+2, ..., wrapping, me last */
    int rot[VS_MAXT], nr = 0;
    for (int d = 1; d <= nT; ++d) {
        int t = (me + d) % nT;
        if (T[t].state == T_RUNNABLE) rot[nr++] = t;
    }
    if (!me_enabled) {
        kind = VS_K_FREE;
        altcost = delay_mode ? 1 : 0;
        for (int i = 0; i < nr; ++i) opts[nopt++] = rot[i];
    } else if (kind == VS_K_YIELD && n > 1) {
        for (int i = 0; i < nr; ++i) opts[nopt++] = rot[i]; /* me is last */
    } else {
        kind = VS_K_NORMAL;
        opts[nopt++] = me;
        for (int i = 0; i < nr; ++i)
            if (rot[i] != me) opts[nopt++] = rot[i];
    }
    if (nopt > VS_MAXOPT) nopt = VS_MAXOPT;
    int c = nopt > 1 ? take_choice(nopt, altcost, kind, opts) : 0;
    int next = opts[c];
    if (next == me && n > 1) consec++;
    else consec = 0;
    if (next != me) {
        pass_baton(next);
        if (T[me].state != T_DONE) wait_baton(me);
    }
}

static void post_point(void);

static void point(void) {
    int me = cur;
    T[me].last_valid = 0;
    T[me].spin = 0;
    reschedule(VS_K_NORMAL);
}

/* ------------------------------------------------------------------------ */

void vs_begin(struct vs_shared* sh) {
    SH = sh;
    t0_limit = (void**)__builtin_frame_address(1);
    memset(T, 0, sizeof T);
    /* mutex / cv ids handed out before the first vs_begin (static objects) stay valid */
    static int base_nM = -1, base_nCV = -1;
    if (base_nM < 0) base_nM = nM, base_nCV = nCV;
    for (int i = base_nM; i < nM; ++i) M[i].held = 0;
    nM = base_nM;
    nCV = base_nCV;
    cvwaits = 0;
    consec = 0;
    nT = 1;
    cur = 0;
    self_tid = 0;
    T[0].state = T_RUNNABLE;
    SH->status = VS_RUNNING;
    SH->npoints = 0;
    SH->nsteps = 0;
    SH->obs_len = 0;
    SH->nthreads_created = 0;
    if (SH->horizon <= 0) SH->horizon = 50000;
    active = 1;
}

void vs_end(void) {
    if (!active) return;
    for (int t = 1; t < nT; ++t)
        if (T[t].state != T_DONE) end_execution(VS_THREADS_LEFT);
    active = 0;
    SH->status = VS_OK;
}

int vs_active(void) { return active; }
void vs_set_quiescence_cb(int (*cb)(void)) { quiescence_cb = cb; }
void vs_set_state_cb(uint64_t (*cb)(void)) { state_cb = cb; }
void vs_set_tag(uint64_t tag) {
    if (active) T[cur].tag = tag;
}
int vs_self(void) { return self_tid; }
int vs_nthreads(void) { return nT; }
long vs_steps(void) { return SH ? SH->nsteps : 0; }

static void* thread_main(void* p) {
    int me = (int)(intptr_t)p;
    self_tid = me;
    wait_baton(me);
    T[me].fn(T[me].arg);
    /* thread exit */
    T[me].state = T_DONE;
    for (int t = 0; t < nT; ++t)
        if (T[t].state == T_BLK_JOIN && T[t].obj == me) T[t].state = T_RUNNABLE;
    reschedule(VS_K_FREE);
    return NULL;
}

int vs_thread_create(void (*fn)(void*), void* arg) {
    note_loc(10, nT);
    point();
    if (nT >= VS_MAXT) {
        vs_fail("harness/too-many-threads", "VS_MAXT exceeded");
    }
    int t = nT;
    T[t].state = T_RUNNABLE;
    T[t].fn = fn;
    T[t].arg = arg;
    T[t].baton = 0;
    T[t].joined = 0;
    T[t].loc = mix64(77, (uint64_t)t);
    T[t].tag = 0;
    T[t].same_loads = 0;
    nT++;
    SH->nthreads_created++;
    pthread_attr_t at;
    pthread_attr_init(&at);
    pthread_attr_setstacksize(&at, 1 << 20);
    if (pthread_create(&T[t].pt, &at, thread_main, (void*)(intptr_t)t) != 0) {
        vs_fail("harness/pthread_create", "pthread_create failed");
    }
    pthread_attr_destroy(&at);
    post_point();
    return t;
}

int vs_thread_done(int tid) { return T[tid].state == T_DONE; }

void vs_thread_join(int tid) {
    int me = cur;
    note_loc(11, tid);
    point();
    while (T[tid].state != T_DONE) {
        T[me].state = T_BLK_JOIN;
        T[me].obj = tid;
        reschedule(VS_K_FREE);
    }
    if (!T[tid].joined) {
        T[tid].joined = 1;
        pthread_join(T[tid].pt, NULL); /* the real join: gives TSan the program's join edge */
    }
}

int vs_mutex_new(void) {
    if (nM >= VS_MAXMUTEX - 1) return VS_MAXMUTEX - 1; /* table full: share the last slot (never seen in practice) */
    int m = nM++;
    M[m].held = 0;
    return m;
}

void vs_mutex_lock(int m) {
    if (!active) return;
    note_loc(1, m);
    point();
    int me = cur;
    while (M[m].held) {
        T[me].state = T_BLK_MUTEX;
        T[me].obj = m;
        reschedule(VS_K_FREE);
    }
    M[m].held = 1;
    M[m].owner = me;
}

int vs_mutex_trylock(int m) {
    if (!active) return 1;
    note_loc(2, m);
    point();
    if (M[m].held) return 0;
    M[m].held = 1;
    M[m].owner = cur;
    return 1;
}

static void release_mutex(int m) {
    M[m].held = 0;
    for (int t = 0; t < nT; ++t)
        if (T[t].state == T_BLK_MUTEX && T[t].obj == m) T[t].state = T_RUNNABLE;
}

/* A scheduling point AFTER a release-type operation (unlock, atomic write/RMW, thread creation): lets other
 * threads run between the release and the releasing thread's following plain accesses, e.g. a thread that
 * publishes work and then still touches an object the work may already have deleted. */
static void post_point(void) {
    if (!SH->user[3]) return;
    int me = cur;
    T[me].last_valid = 0;
    reschedule(VS_K_NORMAL);
}

void vs_mutex_unlock(int m) {
    if (!active) return;
    release_mutex(m);
    note_loc(3, m);
    post_point();
}

void vs_atomic_written(void) {
    if (!active) return;
    note_loc(9, 0);
    post_point();
}

int vs_cv_new(void) { return nCV++; }

void vs_cv_wait(int cv, int m) {
    if (!active) return;
    note_loc(4, cv);
    point();
    int me = cur;
    int spurious = (SH->spurious_at >= 0 && cvwaits == SH->spurious_at);
    cvwaits++;
    release_mutex(m);
    if (!spurious) {
        T[me].state = T_BLK_CV;
        T[me].obj = cv;
        reschedule(VS_K_FREE);
    } else {
        reschedule(VS_K_YIELD); /* let somebody else in, then return without having been notified */
    }
    while (M[m].held) {
        T[me].state = T_BLK_MUTEX;
        T[me].obj = m;
        reschedule(VS_K_FREE);
    }
    M[m].held = 1;
    M[m].owner = me;
}

void vs_cv_notify_one(int cv) {
    if (!active) return;
    note_loc(5, cv);
    point();
    int w[VS_MAXT], n = 0;
    for (int t = 0; t < nT; ++t)
        if (T[t].state == T_BLK_CV && T[t].obj == cv) w[n++] = t;
    if (n == 0) return;
    if (n > VS_MAXOPT) n = VS_MAXOPT;
    int c = n > 1 ? take_choice(n, 0, VS_K_NOTIFY, w) : 0;
    T[w[c]].state = T_RUNNABLE;
}

void vs_cv_notify_all(int cv) {
    if (!active) return;
    note_loc(6, cv);
    point();
    for (int t = 0; t < nT; ++t)
        if (T[t].state == T_BLK_CV && T[t].obj == cv) T[t].state = T_RUNNABLE;
}

void vs_atomic_point(const void* addr, int is_load) {
    if (!active) return;
    note_loc(is_load ? 7 : 8, 0);
    int me = cur;
    int kind = VS_K_NORMAL;
    if (T[me].spin) {
        kind = VS_K_YIELD;
        T[me].spin = 0;
    }
    if (!is_load) T[me].last_valid = 0;
    (void)addr;
    reschedule(kind);
}

void vs_atomic_loaded(const void* addr, uint64_t val) {
    if (!active) return;
    int me = cur;
    /* a spin iteration: the third consecutive load of the same atomic returning the same value with no
     * other synchronisation operation of this thread in between (two in a row is common in straight-line
     * code, e.g. a flag tested twice) */
    if (T[me].last_valid && T[me].last_addr == addr && T[me].last_val == val) {
        if (++T[me].same_loads >= 2) T[me].spin = 1;
    } else {
        T[me].same_loads = 0;
    }
    T[me].last_addr = addr;
    T[me].last_val = val;
    T[me].last_valid = 1;
}

void vs_yield(void) {
    if (!active) return;
    note_loc(12, 0);
    int me = cur;
    T[me].last_valid = 0;
    T[me].spin = 0;
    reschedule(VS_K_YIELD);
}

void vs_sched_point(void) {
    if (!active) return;
    point();
}

void vs_observe(const char* text) {
    if (!SH) return;
    size_t n = strlen(text);
    if (SH->obs_len + n + 2 >= sizeof(SH->obs)) return;
    memcpy(SH->obs + SH->obs_len, text, n);
    SH->obs_len += (int)n;
    SH->obs[SH->obs_len++] = ';';
    SH->obs[SH->obs_len] = 0;
}

void vs_fail(const char* sig, const char* msg) {
    if (!SH) {
        fprintf(stderr, "vs_fail outside execution: %s %s\n", sig, msg);
        _exit(3);
    }
    strncpy(SH->fail_sig, sig, sizeof(SH->fail_sig) - 1);
    strncpy(SH->fail_msg, msg, sizeof(SH->fail_msg) - 1);
    end_execution(VS_FAIL);
}

int vs_blocked_count(void) {
    int n = 0;
    for (int t = 0; t < nT; ++t)
        if (T[t].state == T_BLK_MUTEX || T[t].state == T_BLK_CV || T[t].state == T_BLK_JOIN) n++;
    return n;
}

int vs_thread_blocked_on_cv(int tid) { return tid < nT && T[tid].state == T_BLK_CV; }
