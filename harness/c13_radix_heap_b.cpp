// C13 — tlx::RadixHeap, key types int16_t / uint16_t x radix {2,4,8,16,64} (see c13_radix_heap.hpp for the driver/oracles).
#include "c13_radix_heap.hpp"

namespace c13 {
void register_radix_b(std::vector<Config>& out, bool thorough) {
    // quick tier: one key type of this TU x radix {2,8,64}
    add_radix<int16_t, 2>(out, thorough, true, 10);
    add_radix<int16_t, 4>(out, thorough, false, 10);
    add_radix<int16_t, 8>(out, thorough, true, 10);
    add_radix<int16_t, 16>(out, thorough, false, 10);
    add_radix<int16_t, 64>(out, thorough, true, 10 * 1.5);
    add_radix<uint16_t, 2>(out, thorough, false, 10);
    add_radix<uint16_t, 4>(out, thorough, false, 10);
    add_radix<uint16_t, 8>(out, thorough, false, 10);
    add_radix<uint16_t, 16>(out, thorough, false, 10);
    add_radix<uint16_t, 64>(out, thorough, false, 10 * 1.5);
}
}  // namespace c13
