"""Common plumbing for /verif checks: hash-keyed build cache, sharded harness
runner, known-findings matcher, replay artefacts, evidence writer.

Only the python3 standard library is used.
"""
import concurrent.futures as cf
import hashlib
import json
import os
import re
import shutil
import subprocess
import sys
import time

VERIF = os.path.dirname(os.path.dirname(os.path.abspath(__file__)))
REPO = os.environ.get("VERIF_REPO_DIR", "/repo")
BUILD = os.environ.get("VERIF_BUILD_DIR", os.path.join(VERIF, "build"))
# evidence/ and replays/ go to /verif unless a scratch tree is being checked (mutation runs)
OUT = os.environ.get("VERIF_OUT_DIR", VERIF if REPO == "/repo" else os.path.join(BUILD, "out"))
NCPU = int(os.environ.get("VERIF_JOBS", str(os.cpu_count() or 4)))
CXX = "clang++"
CC = "clang"

COMMON_FLAGS = ["-std=c++17", "-fno-omit-frame-pointer", "-gline-tables-only",
                "-Wno-deprecated-declarations",
                "-I", os.path.join(VERIF, "engine"), "-I", VERIF]

FLAVORS = {
    # name: (compile flags, link flags)
    "asan": (["-O1", "-fsanitize=address", "-fsanitize-address-use-after-scope"],
             ["-fsanitize=address"]),
    "asan_ndebug": (["-O1", "-DNDEBUG", "-fsanitize=address"], ["-fsanitize=address"]),
    "tsan": (["-O1", "-fsanitize=thread"], ["-fsanitize=thread"]),
    "plain": (["-O2"], []),
    "plain_ndebug": (["-O2", "-DNDEBUG"], []),
}


def log(msg):
    sys.stderr.write("[verif] %s\n" % msg)
    sys.stderr.flush()


_repo_hash = None


def repo_hash():
    """Content hash of every file below REPO/tlx (the only part harnesses compile)."""
    global _repo_hash
    if _repo_hash is None:
        h = hashlib.sha1()
        root = os.path.join(REPO, "tlx")
        for d, dirs, files in os.walk(root):
            dirs.sort()
            for f in sorted(files):
                p = os.path.join(d, f)
                h.update(os.path.relpath(p, root).encode())
                with open(p, "rb") as fh:
                    h.update(hashlib.sha1(fh.read()).digest())
        _repo_hash = h.hexdigest()
    return _repo_hash


_engine_hash = None


def engine_hash():
    global _engine_hash
    if _engine_hash is None:
        h = hashlib.sha1()
        for sub in ("engine", "ref", "harness"):
            root = os.path.join(VERIF, sub)
            for d, dirs, files in os.walk(root):
                dirs.sort()
                for f in sorted(files):
                    if sub == "harness" and not f.endswith((".hpp", ".h")):
                        continue  # harness .cpp files are hashed individually; shared headers here
                    p = os.path.join(d, f)
                    h.update(os.path.relpath(p, root).encode())
                    with open(p, "rb") as fh:
                        h.update(fh.read())
        _engine_hash = h.hexdigest()
    return _engine_hash


def _sha(*parts):
    h = hashlib.sha1()
    for p in parts:
        h.update(p.encode() if isinstance(p, str) else p)
        h.update(b"\0")
    return h.hexdigest()


def _run_compile(cmd, out):
    import threading
    import uuid
    tmp = out + ".tmp%d.%d.%s" % (os.getpid(), threading.get_ident(), uuid.uuid4().hex[:8])
    full = cmd + ["-o", tmp]
    r = subprocess.run(full, stdout=subprocess.PIPE, stderr=subprocess.STDOUT, text=True)
    if r.returncode != 0:
        try:
            os.unlink(tmp)
        except OSError:
            pass
        raise BuildError("build failed: %s\n%s" % (" ".join(full), r.stdout[-6000:]))
    os.rename(tmp, out)


class BuildError(Exception):
    pass


def compile_object(src, flags, lang_cxx=True, uses_repo=True, uses_engine=True):
    """Compile one TU into the object cache; returns the .o path."""
    os.makedirs(os.path.join(BUILD, "obj"), exist_ok=True)
    with open(src, "rb") as fh:
        content = fh.read()
    key = _sha(repo_hash() if uses_repo else "", engine_hash() if uses_engine else "",
               src, content, " ".join(flags), CXX if lang_cxx else CC)
    out = os.path.join(BUILD, "obj", key[:24] + ".o")
    if not os.path.exists(out):
        cmd = [CXX if lang_cxx else CC] + flags + ["-c", src]
        _run_compile(cmd, out)
    return out


class Harness:
    """A harness binary: sources under /verif/harness plus tlx .cpp files from REPO."""

    def __init__(self, name, sources, flavor="asan", tlx_cpp=(), extra_flags=(),
                 shim=False, shim_tlx_cpp=(), sched=False, defines=(), cov=False):
        self.name = name
        self.sources = list(sources)
        self.flavor = flavor
        self.tlx_cpp = list(tlx_cpp)          # compiled without shim
        self.shim_tlx_cpp = list(shim_tlx_cpp)  # compiled with the shadow-std shim
        self.extra_flags = list(extra_flags)
        self.shim = shim
        self.sched = sched or shim
        self.defines = list(defines)
        self.cov = cov
        self.path = None

    def flags(self, with_shim):
        cf_, _ = FLAVORS[self.flavor]
        fl = COMMON_FLAGS + ["-I", REPO] + cf_ + self.extra_flags + ["-D" + d for d in self.defines]
        if with_shim:
            fl += ["-include", os.path.join(VERIF, "engine/sched/vshim.hpp")]
        return fl

    def build(self):
        objs = []
        jobs = []
        for s in self.sources:
            p = s if os.path.isabs(s) else os.path.join(VERIF, s)
            fl = self.flags(self.shim)
            jobs.append((p, fl, True))
        for s in self.tlx_cpp:
            jobs.append((os.path.join(REPO, s), self.flags(False), True))
        for s in self.shim_tlx_cpp:
            jobs.append((os.path.join(REPO, s), self.flags(True), True))
        if self.sched:
            # scheduler core: plain C, no sanitizer, no STL
            jobs.append((os.path.join(VERIF, "engine/sched/vsched.c"),
                         ["-O2", "-g", "-fno-omit-frame-pointer", "-I", os.path.join(VERIF, "engine")], False))
        with cf.ThreadPoolExecutor(max_workers=NCPU) as ex:
            futs = [ex.submit(compile_object, p, fl, cxx) for (p, fl, cxx) in jobs]
            objs = [f.result() for f in futs]
        key = _sha(*objs, self.flavor)
        os.makedirs(os.path.join(BUILD, "bin"), exist_ok=True)
        out = os.path.join(BUILD, "bin", "%s-%s" % (self.name, key[:16]))
        if not os.path.exists(out):
            _, lf = FLAVORS[self.flavor]
            _run_compile([CXX] + objs + lf + ["-lpthread"], out)
            # drop stale binaries of the same harness
            for f in os.listdir(os.path.join(BUILD, "bin")):
                if f.startswith(self.name + "-") and f != os.path.basename(out) and ".tmp" not in f:
                    try:
                        os.unlink(os.path.join(BUILD, "bin", f))
                    except OSError:
                        pass
        self.path = out
        return out


def build_all(harnesses):
    t0 = time.time()
    # objects are compiled in parallel inside each build; harnesses one after another
    # share the object cache, so build them concurrently too.
    with cf.ThreadPoolExecutor(max_workers=4) as ex:
        list(ex.map(lambda h: h.build(), harnesses))
    log("build: %d harness(es) ready in %.1fs" % (len(harnesses), time.time() - t0))


def prune_cache(max_bytes=6 << 30):
    """Keep the object cache bounded (oldest first)."""
    d = os.path.join(BUILD, "obj")
    if not os.path.isdir(d):
        return
    ents = []
    tot = 0
    for f in os.listdir(d):
        p = os.path.join(d, f)
        try:
            st = os.stat(p)
        except OSError:
            continue
        ents.append((st.st_atime, st.st_size, p))
        tot += st.st_size
    ents.sort()
    for at, sz, p in ents:
        if tot <= max_bytes:
            break
        try:
            os.unlink(p)
            tot -= sz
        except OSError:
            pass


SAN_ENV = {
    "ASAN_OPTIONS": "detect_leaks=0:abort_on_error=0:exitcode=99:allocator_may_return_null=1:detect_stack_use_after_return=0:symbolize=1",
    "TSAN_OPTIONS": "exitcode=98:halt_on_error=1:report_signal_unsafe=0:second_deadlock_stack=0:history_size=2",
    "UBSAN_OPTIONS": "print_stacktrace=1",
}


class Result:
    def __init__(self):
        self.stats = {}
        self.maxs = {}
        self.samples = []
        self.fails = []      # dicts: sig, replay, msg, harness, args
        self.caps = []
        self.notes = []
        self.errors = []     # harness errors (exit 2)
        self.outcomes = set()

    def merge_line(self, line, harness, args):
        if line.startswith("STAT "):
            _, k, v = line.split(" ", 2)
            self.stats[k] = self.stats.get(k, 0) + int(v)
        elif line.startswith("MAX "):
            _, k, v = line.split(" ", 2)
            self.maxs[k] = max(self.maxs.get(k, 0), int(v))
        elif line.startswith("SAMPLE "):
            if len(self.samples) < 12:
                self.samples.append("%s: %s" % (harness.name, line[7:]))
        elif line.startswith("FAIL "):
            parts = line[5:].split("\t")
            while len(parts) < 3:
                parts.append("")
            self.fails.append({"sig": parts[0], "replay": parts[1], "msg": parts[2],
                               "harness": harness.name, "args": args})
        elif line.startswith("CAP "):
            self.caps.append("%s: %s" % (harness.name, line[4:]))
        elif line.startswith("NOTE "):
            self.notes.append("%s: %s" % (harness.name, line[5:]))
        elif line.startswith("OUTCOME "):
            self.outcomes.add(line[8:])
        elif line.startswith("ERROR "):
            self.errors.append("%s: %s" % (harness.name, line[6:]))


def run_harness(res, harness, args, shards=1, timeout=3600, env=None):
    """Run `shards` copies of the harness (--shard i/n) in parallel, merge their output."""
    e = dict(os.environ)
    e.update(SAN_ENV)
    if env:
        e.update(env)
    os.makedirs(os.path.join(BUILD, "tmp"), exist_ok=True)
    e["VERIF_TMP"] = os.path.join(BUILD, "tmp")
    procs = []
    t0 = time.time()
    for i in range(shards):
        cmd = [harness.path] + list(args) + ["--shard", "%d/%d" % (i, shards)]
        p = subprocess.Popen(cmd, stdout=subprocess.PIPE, stderr=subprocess.PIPE, env=e, text=True,
                             errors="replace")
        procs.append((i, cmd, p))

    def wait(item):
        i, cmd, p = item
        try:
            out, err = p.communicate(timeout=timeout)
        except subprocess.TimeoutExpired:
            p.kill()
            out, err = p.communicate()
            return (i, cmd, out, err, "timeout")
        return (i, cmd, out, err, p.returncode)

    with cf.ThreadPoolExecutor(max_workers=max(1, shards)) as ex:
        outs = list(ex.map(wait, procs))
    for i, cmd, out, err, rc in outs:
        done = False
        for line in out.splitlines():
            if line == "DONE":
                done = True
            res.merge_line(line, harness, list(args))
        if rc == "timeout":
            res.errors.append("%s shard %d: timeout after %ds" % (harness.name, i, timeout))
        elif rc != 0 or not done:
            res.errors.append("%s shard %d: exit %s done=%s stderr tail: %s"
                              % (harness.name, i, rc, done, err[-1500:]))
    log("run %s %s x%d: %.1fs" % (harness.name, " ".join(args), shards, time.time() - t0))


def replay_case(harness, args, replay, timeout=600):
    """Re-run one case outside the exploration; returns list of FAIL sigs seen."""
    e = dict(os.environ)
    e.update(SAN_ENV)
    e["VERIF_TMP"] = os.path.join(BUILD, "tmp")
    base = [a for a in args]
    cmd = [harness.path] + base + ["--replay", replay]
    try:
        r = subprocess.run(cmd, stdout=subprocess.PIPE, stderr=subprocess.PIPE, env=e, text=True,
                           errors="replace", timeout=timeout)
    except subprocess.TimeoutExpired:
        return ["timeout"], "timeout"
    sigs = []
    for line in r.stdout.splitlines():
        if line.startswith("FAIL "):
            sigs.append(line[5:].split("\t")[0])
    return sigs, r.stdout[-4000:] + r.stderr[-4000:]


def load_findings():
    """known-findings.txt: 'open: property=<id> sig=<sig> <text>' / 'fixed: property=<id> <commit> <text>'."""
    p = os.path.join(VERIF, "known-findings.txt")
    opened = []
    if os.path.exists(p):
        for line in open(p):
            line = line.strip()
            m = re.match(r"open:\s+property=(\S+)\s+sig=(\S+)\s*(.*)", line)
            if m:
                opened.append((m.group(1), m.group(2), m.group(3)))
    return opened


def finish(prop, tier, res, t0, level="model_checking", rule="", assumptions=(), extra=None,
           states_key="states", transitions_key="transitions", traces_key="executions",
           distinct_key="distinct", exhaustive=None, harness_by_name=None):
    """Replay-confirm failures, match known findings, write evidence, print verdict, return exit code."""
    seed = int(os.environ.get("VERIF_SEED", "0") or 0)
    known = [(s, t) for (p, s, t) in load_findings() if p == prop]
    by_sig = {}
    for f in res.fails:
        by_sig.setdefault(f["sig"], []).append(f)
    violations = []
    known_hit = []
    for sig, fl in sorted(by_sig.items()):
        # exact signature, or a family '<prefix>*' (one defect that surfaces under several oracle kinds)
        kn = [t for (s, t) in known if s == sig or (s.endswith("*") and sig.startswith(s[:-1]))]
        if kn:
            known_hit.append((sig, kn[0], len(fl)))
            continue
        f = fl[0]
        # replay before report
        confirmed = True
        detail = ""
        if harness_by_name and f["harness"] in harness_by_name and f["replay"]:
            sigs, detail = replay_case(harness_by_name[f["harness"]], f["args"], f["replay"])
            confirmed = sig in sigs
            if not confirmed and sigs:
                # deterministic harness but a different signature on replay: still a failure of this case
                confirmed = True
                f = dict(f)
                f["msg"] += " [replay signature: %s]" % ",".join(sigs)
        if not confirmed:
            res.errors.append("failure %s of %s did not reproduce on replay (harness nondeterministic?) %s"
                              % (sig, f["harness"], detail[-500:]))
            continue
        d = os.path.join(OUT, "replays", prop)
        os.makedirs(d, exist_ok=True)
        fn = os.path.join(d, re.sub(r"[^A-Za-z0-9_.-]+", "_", sig)[:100] + "-" + _sha(sig)[:8] + ".json")
        with open(fn, "w") as fh:
            json.dump({"property": prop, "harness": f["harness"], "args": f["args"], "replay": f["replay"],
                       "sig": sig, "msg": f["msg"], "count_this_run": len(fl), "tier": tier,
                       "detail": detail[-3000:]}, fh, indent=1)
        violations.append((sig, fn, f["msg"]))
    st = res.stats
    cov = {
        "states": int(st.get(states_key, 0)),
        "transitions": int(st.get(transitions_key, 0)),
        "traces_validated_against_impl": int(st.get(traces_key, st.get(transitions_key, 0))),
        "evaluations": int(st.get(traces_key, st.get(transitions_key, 0))),
        "distinct_nontrivial": int(st.get(distinct_key, st.get(states_key, 0))),
        "rule": rule,
        "samples": res.samples[:12] or ["(none)"],
        "exhaustive": (not res.caps and not res.errors) if exhaustive is None else bool(exhaustive and not res.caps and not res.errors),
        "caps_hit": res.caps[:20],
        "stats": {k: int(v) for k, v in sorted(st.items())},
        "max": {k: int(v) for k, v in sorted(res.maxs.items())},
        "distinct_outcomes": len(res.outcomes),
        "known_findings_hit": [s for (s, _, _) in known_hit],
        "notes": res.notes[:20],
    }
    if extra:
        cov.update(extra)
    ev = {"property_id": prop, "tier": tier, "seed": seed, "level": level, "coverage": cov,
          "assumptions": list(assumptions), "wall_s": round(time.time() - t0, 2),
          "violations": len(violations)}
    os.makedirs(os.path.join(OUT, "evidence"), exist_ok=True)
    with open(os.path.join(OUT, "evidence", prop + ".json"), "w") as fh:
        json.dump(ev, fh, indent=1)
    for sig, text, n in known_hit:
        print("KNOWN-FINDING: property=%s sig=%s %s (%d case(s) this run)" % (prop, sig, text, n))
    for sig, fn, msg in violations:
        print("VIOLATION property=%s replay=%s sig=%s %s" % (prop, fn, sig, msg[:300]))
    for e in res.errors:
        print("HARNESS-ERROR property=%s %s" % (prop, e[:2000]))
    print("SUMMARY property=%s tier=%s states=%d transitions=%d executions=%d violations=%d known=%d errors=%d exhaustive=%s wall=%.1fs"
          % (prop, tier, cov["states"], cov["transitions"], cov["traces_validated_against_impl"],
             len(violations), len(known_hit), len(res.errors), cov["exhaustive"], time.time() - t0))
    sys.stdout.flush()
    if violations:
        return 1
    if res.errors:
        return 2
    return 0
