// C13 — tlx::DAryHeap, arity 3 and 4 x {std::less, std::greater, table comparator}
// (driver and oracles: c13_dary_heap.hpp).
#include "c13_dary_heap.hpp"

namespace c13 {
void register_dary_2(std::vector<Config>& out, bool thorough) {
    add_dary<3, 0>(out, thorough, true);
    add_dary<3, 1>(out, thorough, true);
    add_dary<3, 2>(out, thorough, true);
    add_dary<4, 0>(out, thorough, true);
    add_dary<4, 1>(out, thorough, true);
    add_dary<4, 2>(out, thorough, true);
}
}  // namespace c13
