from vlib import Harness, NCPU


def plan(tier):
    h = Harness("c15_networks", ["harness/c15_networks.cpp"], flavor="asan")
    perm_max, k3_max = (11, 14) if tier == "thorough" else (9, 9)
    return {
        "harnesses": [h],
        "runs": [(h, ["--tier", tier], NCPU)],
        "states_key": "cases", "transitions_key": "tlx_calls", "traces_key": "tlx_calls",
        "distinct_key": "nontrivial_cases",
        "rule": "families {best, bose_nelson, bose_nelson_parameter}; (1)+(2) for every n in 0..16 ALL 2^n zero-one inputs through "
                "4 variants: sortN with an own recording compare-exchange functor, sortN with tlx CS_IfSwap<recording comparator>, "
                "sort(begin,end) and sort(begin,end,recording comparator) (sortN exists for n>=2 only); output must be 0^(n-k)1^k and "
                "(recording variants) the (left,right) index sequence must be identical to the one of the all-zero input, inside [0,n), "
                "and the array must equal a shadow changed only by those compare-exchanges; (3) all n! permutations for n<=%d and all "
                "3^n inputs over 3 keys for n<=%d as (key,tag) pairs with key-only less and greater comparators through "
                "CS_IfSwap<Cmp> (sortN) and sort(begin,end,cmp). One case = one (family, variant, comparator, n, input) = one call of "
                "the real tlx code; nontrivial = the input is not already sorted for the comparator used."
                % (perm_max, k3_max),
        "assumptions": [
            "zero-one principle (Knuth TAOCP 5.3.4 Theorem Z): a data-independent sequence of compare-exchanges that sorts all 2^n "
            "zero-one inputs sorts every input under every strict weak order; its hypothesis (fixed index sequence, data touched only "
            "through the compare-exchange) is checked by the 'oblivious' oracle for the int instantiation and is assumed to carry over "
            "to other value types because the network code is a template that does not depend on the value type",
            "compare-exchange functors and comparators are used as documented in cswap.hpp (operator()(T& left, T& right); "
            "CS_IfSwap evaluates cmp(right, left) on the array slots themselves, which is how the recording comparator recovers indices)",
            "sizes > 16 are outside the contract of sort(begin,end) ('up to sixteen elements', default branch abort()) and are not called",
            "the default argument 'CSwap cswap = CSwap()' of sortN is not exercised: it does not compile (CS_IfSwap has no default "
            "constructor); every call passes the CSwap object explicitly",
        ],
    }
