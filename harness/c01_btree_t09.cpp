// C01/C02 type configurations, group 9 (see c01_btree.hpp; C01_TYPE(kind, greater, leaf, inner, search 0=linear 1=binary 2=default traits, element))
#include "c01_btree.hpp"
C01_TYPE(MMAP, true, 5, 5, 1, int)
C01_TYPE(SET, true, 6, 4, 1, int)
C01_TYPE(MSET, false, 6, 4, 0, int)
C01_TYPE(MSET, true, 6, 4, 1, int)
C01_TYPE(MAP, false, 6, 4, 0, int)
C01_TYPE(MAP, true, 6, 4, 1, int)
