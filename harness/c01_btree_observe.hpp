// c01_btree_observe.hpp — C01/C02: every read-only query in a new state, plus the copy/assign
// temporaries (deep copy, relational operators, operator[], no-op mutators), compared with the std container.
#pragma once
#include "c01_btree_sys.hpp"

namespace c01 {

template <class E>
inline int elem_default();
template <>
inline int elem_default<int>() { return 0; }
template <>
inline int elem_default<Tracked>() { return -1000; }

template <class TC>
struct Observer {
    typedef System<TC> Sys;
    typedef typename Sys::State State;
    typedef typename Sys::Tree Tree;
    typedef typename Sys::Model Model;
    typedef typename Sys::E E;
    typedef typename Sys::Cmp Cmp;
    typedef typename Sys::ICmp ICmp;
    typedef typename Sys::Alloc Alloc;
    typedef typename Sys::value_type value_type;
    typedef typename Tree::iterator iterator;
    typedef typename Tree::const_iterator const_iterator;
    typedef typename Tree::reverse_iterator reverse_iterator;
    typedef typename Tree::const_reverse_iterator const_reverse_iterator;
    static const bool is_map = TC::is_map, is_multi = TC::is_multi;
    static const int kind = TC::kind;

    static void run(Sys& sys, State& s) {
        Walk wa = sys.walk(*s.a);
        if (wa.cyclic()) return;  // unbounded structure: reported by the transition oracle, nothing to query
        one_tree(sys, s, *s.a, s.ma, wa, "a");
        if (s.b) {
            Walk wb = sys.walk(*s.b);
            if (wb.cyclic()) return;
            one_tree(sys, s, *s.b, s.mb, wb, "b");
            KVs av = seq(*s.a, s.ma.size()), bv = seq(*s.b, s.mb.size());
            rel(*s.a, *s.b, av, bv, "a vs b");
            rel(*s.b, *s.a, bv, av, "b vs a");
            if (kind != MMAP) {
                // cross-check the reference itself against the std containers' own operators
                if ((s.ma == s.mb) != (av == bv) || (s.ma < s.mb) != (av < bv)) sem_fail("compare", "reference inconsistent: std containers compare differently from the iterated sequences");
            }
        }
    }

    // actual forward sequence, not canonicalised
    static KVs seq(const Tree& t, size_t expect) {
        KVs r;
        size_t guard = expect * 4 + 64;
        for (const_iterator it = t.begin(); it != t.end(); ++it) {
            r.push_back(Sys::kv(*it));
            if (r.size() > guard) break;
        }
        return r;
    }

    // all six relational operators of x against y; expectation from the sequences
    static void rel(const Tree& x, const Tree& y, const KVs& xv, const KVs& yv, const char* what) {
        bool eq = xv == yv, lt = std::lexicographical_compare(xv.begin(), xv.end(), yv.begin(), yv.end()),
             gt = std::lexicographical_compare(yv.begin(), yv.end(), xv.begin(), xv.end());
        if ((x == y) != eq || (x != y) == eq) sem_fail("compare", vh::fmt("%s: operator==/!= give %d/%d, sequences are %s", what, (int)(x == y), (int)(x != y), eq ? "equal" : "different"));
        if ((x < y) != lt || (x >= y) == lt) sem_fail("compare", vh::fmt("%s: operator</>= give %d/%d, lexicographical_compare of the sequences is %d", what, (int)(x < y), (int)(x >= y), (int)lt));
        if ((x > y) != gt || (x <= y) == gt) sem_fail("compare", vh::fmt("%s: operator>/<= give %d/%d, expected %d/%d", what, (int)(x > y), (int)(x <= y), (int)gt, (int)!gt));
    }

    // begin..end scan with one iterator kind: positions, dereference, key(), ->
    template <class It>
    static void scan(It b, It e, const Walk& w, const KVs& mv, bool reverse, const char* what) {
        int n = (int)mv.size(), i = 0;
        KVs got;
        for (It it = b; it != e; ++it, ++i) {
            if (i >= n) break;
            int p = Sys::ipos(w, it), want = reverse ? n - i : i;
            if (p != want) {
                sem_fail("iteration", vh::fmt("%s: after %d increments the iterator is at position %d, expected %d", what, i, p, want));
                return;
            }
            KV v = Sys::kv(*it);
            if (EOps<E>::get(it.key()) != v.first || Sys::kv(*(it.operator->())) != v) sem_fail("iteration", vh::fmt("%s: key()/operator-> disagree with operator* at step %d", what, i));
            got.push_back(v);
        }
        if (i != n || got.size() != (size_t)n) {
            sem_fail("iteration", vh::fmt("%s: visits %s elements, the std container has %d", what, i > n ? "more than n" : std::to_string(i).c_str(), n));
            return;
        }
        if (reverse) std::reverse(got.begin(), got.end());
        if (kind == MMAP) canon_runs(got);
        if (got != mv) sem_fail("iteration", std::string(what) + ": yields " + kvs_str(got, is_map) + ", std container: " + kvs_str(mv, is_map));
    }

    // ++/-- round trips (prefix and postfix) from every position
    template <class It>
    static void roundtrips(It b, It e, const Walk& w, int n, bool reverse, const char* what) {
        It it = b;
        for (int i = 0; i <= n; ++i) {
            int here = reverse ? n - i : i;
            if (Sys::ipos(w, it) != here) {
                sem_fail("iteration", vh::fmt("%s: iterator #%d is at position %d", what, i, Sys::ipos(w, it)));
                return;
            }
            if (i < n) {
                It j = it;
                ++j;
                --j;
                if (!(j == it) || j != it) sem_fail("iteration", vh::fmt("%s: ++ then -- from #%d does not return to it", what, i));
                It k = it;
                It r = k++;
                if (!(r == it)) sem_fail("iteration", vh::fmt("%s: postfix ++ at #%d does not return the old position", what, i));
                It r2 = k--;
                int nxt = reverse ? n - i - 1 : i + 1;
                if (Sys::ipos(w, r2) != nxt || !(k == it)) sem_fail("iteration", vh::fmt("%s: postfix ++/-- round trip from #%d fails", what, i));
            }
            if (i > 0) {
                It j = it;
                --j;
                int prv = reverse ? n - i + 1 : i - 1;
                if (Sys::ipos(w, j) != prv) sem_fail("iteration", vh::fmt("%s: -- from #%d goes to position %d, expected %d", what, i, Sys::ipos(w, j), prv));
                ++j;
                if (!(j == it)) sem_fail("iteration", vh::fmt("%s: -- then ++ from #%d does not return to it", what, i));
            }
            if (i == n) {
                if (!(it == e) || it != e) sem_fail("iteration", vh::fmt("%s: after n increments the iterator is not end", what));
            } else ++it;
        }
    }

    template <class TT>
    static void queries(TT& t, const Walk& w, const KVs& mv, const Model& m, const std::vector<int>& qs, const char* which) {
        int n = (int)mv.size();
        for (int q : qs) {
            E qe = EOps<E>::make(q);
            int lo = Sys::lower_idx(mv, q), hi = Sys::upper_idx(mv, q);
            size_t mc = m.count(q);
            auto ml = m.lower_bound(q);
            auto mu = m.upper_bound(q);
            if ((size_t)(hi - lo) != mc || (ml == m.end()) != (lo == n) || (mu == m.end()) != (hi == n) || (lo < n && Sys::mkv_of(*ml).first != mv[lo].first)) {
                sem_fail("query", "reference inconsistent (std container vs sorted vector)");
                return;
            }
            bool ex = t.exists(qe);
            size_t c = t.count(qe);
            auto f = t.find(qe);
            auto lb = t.lower_bound(qe);
            auto ub = t.upper_bound(qe);
            auto er = t.equal_range(qe);
            if (ex != (mc > 0)) sem_fail("query", vh::fmt("%s: exists(%d)=%d, std count=%zu", which, q, (int)ex, mc));
            if (c != mc) sem_fail("query", vh::fmt("%s: count(%d)=%zu, std: %zu", which, q, c, mc));
            int pf = Sys::ipos(w, f);
            if (mc == 0) {
                if (pf != n || !(f == t.end())) sem_fail("query", vh::fmt("%s: find(%d) of an absent key is at position %d, not end()", which, q, pf));
            } else {
                if (pf < lo || pf >= hi) sem_fail("query", vh::fmt("%s: find(%d) at position %d, the key is at [%d,%d)", which, q, pf, lo, hi));
                else {
                    KV v = Sys::kv(*f);
                    if (v.first != q || (kind == MAP && v.second != mv[lo].second)) sem_fail("query", vh::fmt("%s: find(%d) points to (%d,%d)", which, q, v.first, v.second));
                }
            }
            int plb = Sys::ipos(w, lb), pub = Sys::ipos(w, ub), pe1 = Sys::ipos(w, er.first), pe2 = Sys::ipos(w, er.second);
            if (plb != lo) sem_fail("query", vh::fmt("%s: lower_bound(%d) at position %d, std: %d", which, q, plb, lo));
            if (pub != hi) sem_fail("query", vh::fmt("%s: upper_bound(%d) at position %d, std: %d", which, q, pub, hi));
            if (pe1 != lo || pe2 != hi) sem_fail("query", vh::fmt("%s: equal_range(%d) = [%d,%d), std: [%d,%d)", which, q, pe1, pe2, lo, hi));
            if (plb == lo && lo < n && Sys::kv(*lb).first != mv[lo].first) sem_fail("query", vh::fmt("%s: *lower_bound(%d) has key %d, std: %d", which, q, Sys::kv(*lb).first, mv[lo].first));
            if (pub == hi && hi < n && Sys::kv(*ub).first != mv[hi].first) sem_fail("query", vh::fmt("%s: *upper_bound(%d) has key %d, std: %d", which, q, Sys::kv(*ub).first, mv[hi].first));
            if ((plb == n) != (lb == t.end()) || (pub == n) != (ub == t.end())) sem_fail("query", vh::fmt("%s: bound(%d) == end() inconsistent with its position", which, q));
        }
    }

    // one converted reverse iterator r (made from the forward position i) against the std::reverse_iterator semantics
    template <class RIt>
    static void conv_rev(const RIt& r, const std::vector<RIt>& canon, const RIt& rend, int i, const KVs& tv, const char* which, const char* what) {
        if ((r == rend) != (i == 0) || (r != rend) == (i == 0)) {
            sem_fail_nonterminal("iterator-conversion", vh::fmt("%s: %s made from position %d: == rend() is %d", which, what, i, (int)(r == rend)));
            return;
        }
        if (!(r == canon[i])) {
            // (not dereferenced: it may point before the first slot of a leaf)
            sem_fail_nonterminal("iterator-conversion", vh::fmt("%s: %s made from position %d differs from the reverse iterator reached from rbegin() by %d increments "
                                                                "(std: equal, both refer to element %d)", which, what, i, (int)tv.size() - i, i - 1));
            return;
        }
        if (i == 0) return;
        if (Sys::kv(*r) != tv[i - 1]) sem_fail_nonterminal("iterator-conversion", vh::fmt("%s: *%s made from position %d is not element %d", which, what, i, i - 1));
        RIt r2 = r;
        ++r2;
        if (!(r2 == canon[i - 1]) || (r2 == rend) != (i == 1) || (i > 1 && Sys::kv(*r2) != tv[i - 2]))
            sem_fail_nonterminal("iterator-conversion", vh::fmt("%s: ++ on %s made from position %d does not reach element %d", which, what, i, i - 2));
    }
    template <class FIt>
    static void conv_fwd(const FIt& f, const std::vector<FIt>& canon, const FIt& end, int i, const KVs& tv, const char* which, const char* what) {
        int n = (int)tv.size();
        if (!(f == canon[i]) || (f == end) != (i == n)) {
            // (not dereferenced: it may point past the last used slot of a leaf)
            sem_fail_nonterminal("iterator-conversion", vh::fmt("%s: %s made from the reverse position with base %d differs from the iterator at position %d (std: base())", which, what, i, i));
            return;
        }
        if (i < n && Sys::kv(*f) != tv[i]) sem_fail_nonterminal("iterator-conversion", vh::fmt("%s: *%s made from the reverse position with base %d is not element %d", which, what, i, i));
    }
    static void conversions(Tree& t, const Walk& w, const KVs& tv, const char* which) {
        const Tree& ct = t;
        int n = (int)tv.size();
        std::vector<iterator> fit;
        std::vector<const_iterator> cfit;
        std::vector<reverse_iterator> rit(n + 1);         // indexed by base position: rit[n] == rbegin(), rit[0] == rend()
        std::vector<const_reverse_iterator> crit(n + 1);
        {
            iterator it = t.begin();
            const_iterator ci = ct.begin();
            reverse_iterator ri = t.rbegin();
            const_reverse_iterator cri = ct.rbegin();
            for (int i = 0; i <= n; ++i) {
                fit.push_back(it);
                cfit.push_back(ci);
                rit[n - i] = ri;
                crit[n - i] = cri;
                if (i < n) {
                    ++it;
                    ++ci;
                    ++ri;
                    ++cri;
                }
            }
            if (!(it == t.end()) || !(ci == ct.end()) || !(ri == t.rend()) || !(cri == ct.rend())) return;  // reported by the scans
        }
        for (int i = 0; i <= n; ++i) {
            const_iterator ci(fit[i]);
            if (!(ci == cfit[i]) || Sys::ipos(w, ci) != i) sem_fail_nonterminal("iterator-conversion", vh::fmt("%s: const_iterator(iterator) moves position %d", which, i));
            conv_rev<reverse_iterator>(reverse_iterator(fit[i]), rit, t.rend(), i, tv, which, "reverse_iterator(iterator)");
            conv_rev<const_reverse_iterator>(const_reverse_iterator(fit[i]), crit, ct.rend(), i, tv, which, "const_reverse_iterator(iterator)");
            conv_rev<const_reverse_iterator>(const_reverse_iterator(cfit[i]), crit, ct.rend(), i, tv, which, "const_reverse_iterator(const_iterator)");
            conv_rev<const_reverse_iterator>(const_reverse_iterator(rit[i]), crit, ct.rend(), i, tv, which, "const_reverse_iterator(reverse_iterator)");
            conv_fwd<iterator>(iterator(rit[i]), fit, t.end(), i, tv, which, "iterator(reverse_iterator)");
            conv_fwd<const_iterator>(const_iterator(rit[i]), cfit, ct.end(), i, tv, which, "const_iterator(reverse_iterator)");
            // (const_iterator(const_reverse_iterator) cannot be instantiated: const_reverse_iterator does not befriend const_iterator)
            // round trip defined by std: reverse_iterator(it).base() == it
            reverse_iterator rtmp(fit[i]);
            iterator back(rtmp);
            if (!(back == fit[i])) sem_fail_nonterminal("iterator-conversion", vh::fmt("%s: iterator(reverse_iterator(it)) != it at position %d", which, i));
        }
    }

    static bool temp_ok(Sys& sys, const Tree& c, const Model& mc, const char* what) {
        Walk wc = sys.walk(c);
        if (!sys.check_struct(c, wc, what)) return false;
        sys.check_contents(c, mc, what);
        return true;
    }

    static void one_tree(Sys& sys, State& s, Tree& t, const Model& m, const Walk& w, const char* which) {
        const Tree& ct = t;
        KVs mv = Sys::mcontents(m);
        int n = (int)mv.size();
        std::string tag = which;
        if (ct.size() != (size_t)n || ct.empty() != (n == 0) || ct.max_size() < ct.size())
            sem_fail("contents", vh::fmt("%s: size()=%zu empty()=%d, std container has %d", which, ct.size(), (int)ct.empty(), n));
        if ((n == 0) != (ct.begin() == ct.end()) || (n == 0) != (t.rbegin() == t.rend())) sem_fail("iteration", tag + ": begin()==end() inconsistent with emptiness");

        scan<const_iterator>(ct.begin(), ct.end(), w, mv, false, (tag + " const_iterator").c_str());
        scan<iterator>(t.begin(), t.end(), w, mv, false, (tag + " iterator").c_str());
        scan<const_reverse_iterator>(ct.rbegin(), ct.rend(), w, mv, true, (tag + " const_reverse_iterator").c_str());
        scan<reverse_iterator>(t.rbegin(), t.rend(), w, mv, true, (tag + " reverse_iterator").c_str());
        roundtrips<iterator>(t.begin(), t.end(), w, n, false, (tag + " iterator").c_str());
        roundtrips<const_iterator>(ct.begin(), ct.end(), w, n, false, (tag + " const_iterator").c_str());
        roundtrips<reverse_iterator>(t.rbegin(), t.rend(), w, n, true, (tag + " reverse_iterator").c_str());
        roundtrips<const_reverse_iterator>(ct.rbegin(), ct.rend(), w, n, true, (tag + " const_reverse_iterator").c_str());

        // conversions between the iterator kinds (std convention, which tlx implements: rbegin() == reverse_iterator(end()),
        // reverse_iterator::curr_slot is documented as "one slot past the current key/data slot referenced", and
        // iterator(reverse_iterator) copies the position like base()): reverse_iterator(it) refers to the element before it.
        KVs tv = seq(ct, n);
        conversions(t, w, tv, which);

        std::vector<int> qall = sys.query_keys(m);
        if (sys.P.mode != 'B') {
            queries<Tree>(t, w, mv, m, qall, which);
            queries<const Tree>(ct, w, mv, m, qall, (tag + " const").c_str());
        } else {
            // mode B (large universes): every key is queried in every new state, alternating between the const and
            // the non-const overloads (which one gets the even keys alternates with the size of the tree)
            int par = (n & 1);
            std::vector<int> q0, q1;
            for (int q : qall) (((q + par) & 1) == 0 ? q0 : q1).push_back(q);
            queries<Tree>(t, w, mv, m, q0, which);
            queries<const Tree>(ct, w, mv, m, q1, (tag + " const").c_str());
        }

        // key_comp / value_comp
        {
            auto kc = ct.key_comp();
            for (int i = -1; i <= 2; ++i)
                for (int j = -1; j <= 2; ++j) {
                    if (kc(EOps<E>::make(i), EOps<E>::make(j)) != ICmp()(i, j)) sem_fail("query", vh::fmt("%s: key_comp()(%d,%d) wrong", which, i, j));
                    if constexpr (is_map) {
                        auto vc = ct.value_comp();
                        if (vc(Sys::mkv(i, 9), Sys::mkv(j, 0)) != ICmp()(i, j)) sem_fail("query", vh::fmt("%s: value_comp()((%d,9),(%d,0)) wrong", which, i, j));
                    }
                }
        }

        copies(sys, s, t, m, w, mv, tv, which);
    }

    static void copies(Sys& sys, State& s, Tree& t, const Model& m, const Walk& w, const KVs& mv, const KVs& tv, const char* which) {
        const Tree& ct = t;
        int n = (int)mv.size();
        std::string tag = which;
        Ledger* L0 = ct.get_allocator().led;
        long live0 = L0->live;
        size_t elems0 = s.tl.live.size();
        Ledger local;
        int U = sys.universe(m);
        const bool S = sys.P.mode == 'S';
        std::vector<int> qall = sys.query_keys(m);
        {
            Tree c(ct);  // copy constructor
            if (!temp_ok(sys, c, m, (tag + " copy").c_str())) return;
            KVs cv = seq(c, n);
            rel(ct, c, tv, cv, (tag + " vs copy").c_str());
            rel(c, ct, cv, tv, (tag + " copy vs original").c_str());

            // mutators that must not change anything, on the copy
            for (int q : qall) {
                bool present = m.count(q) != 0;
                if (!present) {
                    if (c.erase(EOps<E>::make(q)) != 0 || c.erase_one(EOps<E>::make(q))) sem_fail("return", vh::fmt("%s copy: erase of the absent key %d reports a removal", which, q));
                } else if constexpr (!is_multi) {
                    int stored = mv[Sys::lower_idx(mv, q)].second;
                    std::pair<iterator, bool> r = c.insert(Sys::mkv(q, stored + 1));
                    KV v = Sys::kv(*r.first);
                    if (r.second || v.first != q || v.second != stored) sem_fail("return", vh::fmt("%s copy: insert of the present key %d returned second=%d -> (%d,%d)", which, q, (int)r.second, v.first, v.second));
                    if constexpr (kind == MAP) {
                        if (EOps<E>::get(c[EOps<E>::make(q)]) != stored) sem_fail("query", vh::fmt("%s copy: operator[](%d) does not return the stored value %d", which, q, stored));
                    }
                }
            }
            if (!temp_ok(sys, c, m, (tag + " copy after no-op mutators").c_str())) return;

            // mutate the copy; the original must not change (deep copy)
            Model mc(m);
            if (n > 0) {
                KV e = Sys::kv(*c.begin());
                c.erase(c.begin());
                Sys::model_erase_exact(mc, e.first, e.second);
            }
            for (int q : qall) {
                if (q < 0 && !S) continue;
                if (q >= U && !S) break;
                bool can = (is_multi && !S) ? (int)mc.count(q) < sys.P.M : mc.count(q) == 0;
                if (!can) continue;
                int v = sys.new_value(mc, q, 0);
                c.insert(Sys::mkv(q, v));
                mc.insert(Sys::mval(q, v));
                break;
            }
            if constexpr (kind == MAP) {
                int done = 0;
                for (size_t qi = qall.size(); qi-- > 0 && done < 3;) {
                    int q = qall[qi];
                    if (mc.count(q)) continue;
                    int got = EOps<E>::get(c[EOps<E>::make(q)]);
                    mc[q] = elem_default<E>();
                    if (got != elem_default<E>()) sem_fail("query", vh::fmt("%s copy: operator[](%d) of an absent key returned %d", which, q, got));
                    c[EOps<E>::make(q)] = EOps<E>::make(2 * q + 1);
                    mc[q] = 2 * q + 1;
                    ++done;
                }
            }
            if (!temp_ok(sys, c, mc, (tag + " mutated copy").c_str())) return;
            if (sys.walk(ct).dump != w.dump) sem_fail("copy", tag + ": the original changed when its copy was modified");
            KVs cv2 = seq(c, mc.size());
            rel(ct, c, tv, cv2, (tag + " vs mutated copy").c_str());
            rel(c, ct, cv2, tv, (tag + " mutated copy vs original").c_str());

            // assignment into a non-empty, differently shaped target
            c = ct;
            if (!temp_ok(sys, c, m, (tag + " assigned over a non-empty tree").c_str())) return;
            rel(c, ct, seq(c, n), tv, (tag + " assigned copy vs original").c_str());

            // assignment into an empty target with its own allocator, then the empty tree over a non-empty one
            Tree e{Cmp(), Alloc(&local)};
            rel(e, ct, KVs(), tv, (tag + " empty vs original").c_str());
            e = ct;
            if (!temp_ok(sys, e, m, (tag + " assigned to an empty tree").c_str())) return;
            Tree e2{Cmp(), Alloc(&local)};
            c = e2;
            if (!temp_ok(sys, c, Model(), (tag + " empty tree assigned over a non-empty tree").c_str())) return;
            e.clear();
            if (!temp_ok(sys, e, Model(), (tag + " cleared copy").c_str())) return;
        }
        if (L0->live != live0 || local.live != 0)
            str_fail("alloc-ledger", vh::fmt("%s: after the temporaries are gone the allocator has %ld live nodes (before: %ld), the local allocator %ld", which, L0->live, live0, local.live));
        if (s.tl.live.size() != elems0) str_fail("elem-lifetime", vh::fmt("%s: %zu live elements after the temporaries are gone, %zu before", which, s.tl.live.size(), elems0));
        if (sys.walk(ct).dump != w.dump) sem_fail("copy", tag + ": the original changed while its copies were used and destroyed");
    }
};

}  // namespace c01
