from vlib import Harness, NCPU

# Bounds (total number of enumerated keys per history, per k = 1..9).  The -O2 build (asserts on)
# carries the big enumeration, the ASan build repeats a smaller bound so that out-of-bounds /
# use-after-free accesses of the tree arrays and of the Pointer variants' key pointers are seen.
BOUNDS = {
    "quick": {"o2": ("7", "1"), "asan": ("6", "1")},
    "thorough": {"o2": ("9,9,9,9,9,9,9,9,8", "2"), "asan": ("7", "1")},
}


def plan(tier):
    src = ["harness/c09_loser_tree.cpp"]
    h_o2 = Harness("c09_loser_tree_o2", src, flavor="plain")
    h_asan = Harness("c09_loser_tree", src, flavor="asan")
    b = BOUNDS["thorough" if tier == "thorough" else "quick"]
    return {
        "harnesses": [h_o2, h_asan],
        "runs": [(h_o2, ["--tier", tier, "caps=" + b["o2"][0], "capsa=" + b["o2"][1]], NCPU),
                 (h_asan, ["--tier", tier, "caps=" + b["asan"][0], "capsa=" + b["asan"][1]], NCPU)],
        "states_key": "histories", "transitions_key": "oracle_checks", "traces_key": "oracle_checks",
        "distinct_key": "histories",
        "rule": "history = (family, class, comparator, k in 1..9, key sequence per player over {0,1,2}, unsorted allowed). "
                "Families: G = 4 guarded classes, sequences of 0..3 keys (0 = starts exhausted), driven to exhaustion; "
                "B = 4 unguarded classes, 0..3 keys + one strictly greater sentinel key per player (as multiway_merge_sentinels), "
                "driven until the winner would run out; A = 4 unguarded classes, 1..3 keys, ctor sentinel equivalent to the largest key. "
                "x {std::less (default template argument), greater functor}. Bound on total enumerated keys per history for k=1..9: "
                "-O2 build G/B <= [%s], A <= k + %s; ASan build G/B <= [%s], A <= k + %s. Every history is distinct; "
                "oracle_checks = min_source() results compared with the reference after init() and after every delete_min_insert()"
                % (b["o2"][0], b["o2"][1], b["asan"][0], b["asan"][1]),
        "assumptions": [
            "keys from a 3-letter alphabet, at most 3 keys per player, k <= 9 and the stated bound on the total",
            "unguarded classes: no player runs out (documented), constructor sentinel >= every key, "
            "delete_min_insert is only called with a real key (as in multiway_merge_loser_tree_unguarded)",
            "a fresh tree is constructed per history (re-initialising a used tree is not documented)",
            "nothing is demanded from min_source() once every player is exhausted",
        ],
    }
