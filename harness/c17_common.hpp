// c17_common.hpp — shared pieces of the C17 harnesses (LRU caches, SplayTree): allocation ledger +
// counting allocator, lifetime-tracked key type, per-process statistics accumulator and the
// configuration registry used for sharding / replay.
#pragma once
#include <algorithm>
#include <functional>
#include <map>
#include <memory>
#include <set>
#include <string>
#include <vector>

#include "hist/vhist.hpp"

namespace c17 {

// ---------------------------------------------------------------------------------------------
// allocation ledger: one entry per pointer handed out by the counting allocator

struct Ledger {
    std::map<const void*, size_t> live;  // pointer -> bytes
    unsigned long long allocs = 0, frees = 0;
    bool is_live(const void* p) const { return live.find(p) != live.end(); }
};

inline Ledger*& cur_ledger() {
    static Ledger* l = nullptr;
    return l;
}

// full C++11 allocator; stateful (pointer to the ledger of the State that owns the container).  tlx's SplayTree
// default-constructs an (unused) Allocator member, so the default constructor binds to the current State's ledger.
template <class T>
struct CountingAlloc {
    typedef T value_type;
    typedef T* pointer;
    typedef const T* const_pointer;
    typedef T& reference;
    typedef const T& const_reference;
    typedef std::size_t size_type;
    typedef std::ptrdiff_t difference_type;
    template <class U>
    struct rebind {
        typedef CountingAlloc<U> other;
    };
    typedef std::true_type propagate_on_container_copy_assignment;
    typedef std::true_type propagate_on_container_move_assignment;
    typedef std::true_type propagate_on_container_swap;

    Ledger* led;
    CountingAlloc() noexcept : led(cur_ledger()) {}
    explicit CountingAlloc(Ledger* l) noexcept : led(l) {}
    template <class U>
    CountingAlloc(const CountingAlloc<U>& o) noexcept : led(o.led) {}

    T* allocate(std::size_t n) {
        Ledger* l = led ? led : cur_ledger();
        void* p = ::operator new(n * sizeof(T));
        l->live[p] = n * sizeof(T);
        l->allocs++;
        return static_cast<T*>(p);
    }
    void deallocate(T* p, std::size_t n) noexcept {
        Ledger* l = led ? led : cur_ledger();
        auto it = l->live.find(p);
        if (it == l->live.end()) {
            // freed twice or never allocated here: the ledger is the oracle, the pointer is not passed on
            vh::fail_here("ledger-free-of-non-live-pointer", vh::fmt("deallocate(%zu x %zu bytes) of a pointer that is not a live allocation", n, sizeof(T)));
            return;
        }
        if (it->second != n * sizeof(T)) vh::fail_here("ledger-free-size", vh::fmt("allocated %zu bytes, deallocate says %zu", it->second, n * sizeof(T)));
        l->live.erase(it);
        l->frees++;
        ::operator delete(p);
    }
    template <class U>
    bool operator==(const CountingAlloc<U>& o) const noexcept {
        return led == o.led;
    }
    template <class U>
    bool operator!=(const CountingAlloc<U>& o) const noexcept {
        return led != o.led;
    }
};

// ---------------------------------------------------------------------------------------------
// lifetime-tracked, heap-owning key

struct TrackedReg {
    std::set<const void*> live;
    unsigned long long ctors = 0, dtors = 0;
};
inline TrackedReg*& cur_treg() {
    static TrackedReg* r = nullptr;
    return r;
}

struct Tracked {
    int* blk;
    explicit Tracked(int v) : blk(new int(v)) { reg(); }
    Tracked(const Tracked& o) {
        if (!cur_treg()->live.count(&o)) {
            vh::fail_here("key-copy-from-dead-object", "a key was copy-constructed from an object that is not alive");
            blk = new int(-99);
        } else {
            blk = new int(*o.blk);
        }
        reg();
    }
    Tracked& operator=(const Tracked& o) {
        if (!cur_treg()->live.count(&o) || !cur_treg()->live.count(this))
            vh::fail_here("key-assign-dead-object", "key assignment from/to an object that is not alive");
        else
            *blk = *o.blk;
        return *this;
    }
    ~Tracked() {
        if (!cur_treg()->live.erase(this)) {
            vh::fail_here("key-destroyed-twice", "destructor of a key that is not alive");
            return;
        }
        cur_treg()->dtors++;
        delete blk;
        blk = nullptr;
    }
    int value() const { return *blk; }

private:
    void reg() {
        cur_treg()->live.insert(this);
        cur_treg()->ctors++;
    }
};
inline bool operator<(const Tracked& a, const Tracked& b) { return a.value() < b.value(); }
inline bool operator>(const Tracked& a, const Tracked& b) { return a.value() > b.value(); }

template <class K>
K make_key(int v);
template <>
inline int make_key<int>(int v) {
    return v;
}
template <>
inline Tracked make_key<Tracked>(int v) {
    return Tracked(v);
}
// value of a key stored inside the container; a dead Tracked key is reported instead of dereferenced
inline int stored_val(const int& k, bool* dead) {
    (void)dead;
    return k;
}
inline int stored_val(const Tracked& k, bool* dead) {
    if (!cur_treg()->live.count(&k)) {
        *dead = true;
        return -99;
    }
    return k.value();
}
template <class K>
struct key_name;
template <>
struct key_name<int> {
    static const char* get() { return "int"; }
};
template <>
struct key_name<Tracked> {
    static const char* get() { return "tracked"; }
};

// ---------------------------------------------------------------------------------------------
// vh::run_isolated() zeroes every counter when a configuration starts, so a process that runs several
// configurations (fewer shards than configurations) accumulates them here and publishes the sums at the end.

struct StatAcc {
    std::map<std::string, std::pair<long long, bool>> acc;
    void absorb() {
        vh::Shared* s = vh::shm();
        for (int i = 0; i < s->nstat; ++i) {
            auto& e = acc[s->stat_name[i]];
            e.second = s->stat_is_max[i];
            if (e.second) e.first = std::max(e.first, s->stat_val[i]);
            else e.first += s->stat_val[i];
        }
    }
    void publish() {
        for (auto& kv : acc) vh::shm()->stat_val[vh::stat_slot(kv.first.c_str(), kv.second.second)] = kv.second.first;
    }
};

// ---------------------------------------------------------------------------------------------
// configuration registry

struct Cfg {
    std::string name;
    std::string sample;
    std::function<void()> run;
    std::function<void(const std::string&)> replay;
};

template <class Sys>
Cfg make_cfg(const Sys& proto, const std::string& sample) {
    auto p = std::make_shared<Sys>(proto);
    Cfg c;
    c.name = p->name();
    c.sample = sample;
    c.run = [p] {
        vhist::Options opt;  // closure
        vhist::run_config(*p, opt);
    };
    c.replay = [p](const std::string& h) { vhist::replay_config(*p, h); };
    return c;
}

// standard main: shard by configuration, replay by configuration name
inline int main_configs(const std::vector<Cfg>& tier_cfgs, const std::vector<Cfg>& all_cfgs) {
    if (vh::args().has_replay) {
        return vh::replay_one([&](const std::string& r) {
            size_t bar = r.find('|');
            std::string cfg = r.substr(0, bar), h = bar == std::string::npos ? "" : r.substr(bar + 1);
            for (auto& c : all_cfgs)
                if (c.name == cfg) {
                    c.replay(h);
                    return;
                }
            vh::out_line("ERROR unknown configuration in replay string: " + cfg);
        });
    }
    int sh = vh::args().shard, n = vh::args().nshards;
    StatAcc acc;
    std::vector<std::string> samples;
    for (size_t i = 0; i < tier_cfgs.size(); ++i) {
        if ((int)(i % n) != sh) continue;
        if (!tier_cfgs[i].sample.empty()) samples.push_back(tier_cfgs[i].sample);
        tier_cfgs[i].run();
        acc.absorb();
    }
    acc.publish();
    for (auto& s : samples) vh::out_line("SAMPLE " + s);
    return vh::finish();
}

}  // namespace c17
