// C03 — tlx headers, dispatch by algorithm number and fall-back path prediction.
// Included by the per-string-set translation units only (heavy templates).
#pragma once
#include <tlx/sort/strings.hpp>
#include <tlx/sort/strings/insertion_sort.hpp>
#include <tlx/sort/strings/multikey_quicksort.hpp>
#include <tlx/sort/strings/radix_sort.hpp>
#include <tlx/sort/strings/string_ptr.hpp>
#include <tlx/sort/strings/string_set.hpp>

#include <algorithm>
#include <memory>
#include <unordered_set>

#include "c03_sort_strings.hpp"

namespace c03 {

namespace ssd = tlx::sort_strings_detail;

// The detail sorters are invoked exactly as /repo/tests/sort_strings_test.hpp does:
// sorter(StringPtr<Set>(ss) | StringLcpPtr<Set, uint32_t>(ss, lcp), /* depth */ 0, memory).
template <class SP>
static inline void call_algo(int algo, const SP& sp, size_t memory) {
    switch (algo) {
    case A_INS: ssd::insertion_sort(sp, 0, memory); break;
    case A_MKQS: ssd::multikey_quicksort(sp, 0, memory); break;
    case A_CE0: ssd::radixsort_CE0(sp, 0, memory); break;
    case A_CE2: ssd::radixsort_CE2(sp, 0, memory); break;
    case A_CE3: ssd::radixsort_CE3(sp, 0, memory); break;
    case A_CI2: ssd::radixsort_CI2(sp, 0, memory); break;
    case A_CI3: ssd::radixsort_CI3(sp, 0, memory); break;
    }
}

// Which documented fall-back edges does a call take?  Pure function of (algorithm, n, memory)
// and the sizeof()s of the real tlx types, mirroring the dispatch conditions at the top of each
// radixsort_*/multikey_quicksort entry; used ONLY for vh::outcome() reporting ("the
// enumeration reaches every fall-back edge"), never as an oracle.
template <class SP>
static inline void note_path(const char* setname, bool lcp, int algo, size_t n, size_t mem, const Input& in) {
    typedef typename SP::StringSet SS;
    typedef typename SP::WithShadow SH;
    const size_t base = 2 * sizeof(size_t) + sizeof(SS), str = sizeof(typename SS::String);
    const size_t s_ce0 = sizeof(ssd::RadixStep_CE0<SH>), s_ce2 = sizeof(ssd::RadixStep_CE2<SH>),
                 s_ce3 = sizeof(ssd::RadixStep_CE3<SH>), s_ci2 = sizeof(ssd::RadixStep_CI2<SP>),
                 s_ci3 = sizeof(ssd::RadixStep_CI3<SP>);
    const size_t mkqs_use = 2 * sizeof(size_t) + sizeof(SS) + 5 * sizeof(typename SS::Iterator);
    char buf[160];
    size_t len = 0;
    auto add = [&](const char* s) {
        size_t l = strlen(s);
        if (len + l < sizeof buf - 1) {
            memcpy(buf + len, s, l);
            len += l;
        }
    };
    add(setname);
    add(lcp ? ",lcp: " : ",nolcp: ");
    int cur = algo;
    for (bool done = false; !done;) {
        switch (cur) {
        case A_INS:
            add("ins");
            done = true;
            break;
        case A_MKQS:
            add((n < 32) ? "mkqs>n<32>ins" : (mem != 0 && mem < mkqs_use + 1) ? "mkqs>mem>ins" : "mkqs");
            done = true;
            break;
        case A_CE0: {
            size_t use = base + n * str;
            if (n < 32) {
                add("CE0>n<32>ins");
                done = true;
            } else if (mem != 0 && mem < use + 3 * s_ce0 + 1) {
                add("CE0>mem>");
                cur = A_MKQS;
            } else {
                add("CE0:loop8");
                if (mem != 0 && in.maxdepth32 >= 1 && mem - use < s_ce0 * (in.maxdepth32 + 1)) add("+stackfull>mkqs");
                done = true;
            }
            break;
        }
        case A_CE2: {
            size_t use = base + n + n * str;
            if (n < 32) {
                add("CE2>n<32>ins");
                done = true;
            } else if (mem != 0 && mem < use + 3 * s_ce2 + 1) {
                add("CE2>mem>");
                cur = A_CI3;
            } else {
                add("CE2:loop8");
                if (mem != 0 && in.maxdepth32 >= 1 && mem - use < s_ce2 * (in.maxdepth32 + 1)) add("+stackfull>mkqs");
                done = true;
            }
            break;
        }
        case A_CE3: {
            size_t use = base + 2 * n + n * str;
            if (n < 32) {
                add("CE3>n<32>ins");
                done = true;
            } else if (n < 0x10000) {
                add("CE3>n<64k>");
                cur = A_CE2;
            } else if (mem != 0 && mem < use + 3 * s_ce3 + 1) {
                add("CE3>mem>");
                cur = A_CE2;
            } else {
                add("CE3:loop16");
                if (mem != 0 && in.maxdepth64k >= 1 && mem - use < s_ce3 * (in.maxdepth64k + 1)) add("+stackfull>mkqs");
                done = true;
            }
            break;
        }
        case A_CI2: {
            size_t use = base + n;
            if (n < 32) {
                add("CI2>n<32>ins");
                done = true;
            } else if (mem != 0 && mem < use + 3 * s_ci2 + 1) {
                add("CI2>mem>");
                cur = A_MKQS;
            } else {
                add("CI2:loop8");
                if (mem != 0 && in.maxdepth32 >= 1 && mem - use < s_ci2 * (in.maxdepth32 + 1)) add("+stackfull>mkqs");
                done = true;
            }
            break;
        }
        case A_CI3: {
            size_t use = base + 2 * n;
            if (n < 32) {
                add("CI3>n<32>ins");
                done = true;
            } else if (n < 0x10000) {
                add("CI3>n<64k>");
                cur = A_CI2;
            } else if (mem != 0 && mem < use + 3 * s_ci3 + 1) {
                add("CI3>mem>");
                cur = A_CI2;
            } else {
                add("CI3:loop16");
                if (mem != 0 && in.maxdepth64k >= 1 && mem - use < s_ci3 * (in.maxdepth64k + 1)) add("+stackfull>mkqs");
                done = true;
            }
            break;
        }
        default: done = true;
        }
    }
    buf[len] = 0;
    static std::unordered_set<uint64_t> seen;
    uint64_t h = 1469598103934665603ull;
    for (size_t i = 0; i < len; ++i) h = (h ^ (unsigned char)buf[i]) * 1099511628211ull;
    if (seen.insert(h).second) vh::outcome(std::string("path ") + buf);
}

}  // namespace c03
