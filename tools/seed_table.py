#!/usr/bin/env python3
"""Prints the markdown table of seeded changes (from seeded/*/meta.json) for DESIGN.md section 8."""
import glob
import json
import os
import re

HERE = os.path.dirname(os.path.dirname(os.path.abspath(__file__)))
rows = []
for f in sorted(glob.glob(os.path.join(HERE, "seeded", "*", "meta.json"))):
    m = json.load(open(f))
    what = m.get("what", "")
    chk = []
    for c, v in m.get("checks", {}).items():
        sigs = sorted({re.search(r"sig=(\S+)", l).group(1) for l in v.get("first_violations", []) if "sig=" in l})
        chk.append("%s %s: %s%s" % (c, v.get("tier", ""), "DETECTED" if v.get("detected") else "missed",
                                     (" (" + ", ".join(s[:70] for s in sigs[:2]) + ")") if sigs else ""))
    for c, t in m.get("checks_after_strengthening", {}).items():
        chk.append("after strengthening, %s: %s" % (c, t))
    rows.append("| %s | %s | %s | %s | %s | %s |" % (m["seed"], m["property"], ", ".join(m.get("files_changed", [])), what,
                                                   "pass" if m.get("repo_tests", {}).get("passed_with_change") else "FAIL",
                                                   "; ".join(chk)))
print("| seed | property | file | change / what it needs | repo tests with change | our checks |")
print("|---|---|---|---|---|---|")
print("\n".join(rows))
