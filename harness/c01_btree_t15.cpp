// C01/C02 type configurations, group 15 (see c01_btree.hpp; C01_TYPE(kind, greater, leaf, inner, search 0=linear 1=binary 2=default traits, element))
#include "c01_btree.hpp"
C01_TYPE(MSET, false, 6, 7, 0, int)
C01_TYPE(SET, false, 6, 8, 0, int)
C01_TYPE(MMAP, true, 6, 8, 1, int)
C01_TYPE(MAP, true, 6, 9, 1, int)
C01_TYPE(MSET, false, 6, 9, 0, int)
C01_TYPE(MAP, true, 7, 4, 1, int)
C01_TYPE(MSET, false, 7, 4, 0, int)
