// C07 — tlx::parallel_multiway_merge* vs the sequential (stable) merge.
//  mode=inputs    : every case of the bounded input space, executed on the scheduler's deterministic
//                   default schedule.  The worker threads do not synchronise with each other between
//                   fork and join, so the happens-before relation is the same under every schedule and
//                   one TSan execution per input is complete for race detection (the TSan build runs
//                   this mode as well).
//  mode=schedules : a few inputs under every interleaving within the bound, to confirm that the
//                   result does not depend on the schedule.
// The target is a write-counting iterator: every slot in [0,length) must be written exactly once.
#include <tlx/algorithm/parallel_multiway_merge.hpp>

#include <algorithm>

#include "harness/par_common.hpp"
#include "sched/vdefault.hpp"
#include "sched/vexplore.hpp"

using namespace par;

template <class Elem>
struct SlotsT {
    Elem* data;
    int* count;
    size_t n;
};

template <class Elem>
struct CountItT {
    typedef SlotsT<Elem> Slots;
    typedef CountItT CountIt;
    typedef std::random_access_iterator_tag iterator_category;
    typedef Elem value_type;
    typedef ptrdiff_t difference_type;
    typedef Elem* pointer;
    struct Proxy {
        Slots* s;
        ptrdiff_t i;
        Proxy& operator=(const Elem& e) {
            // the count array has slack; the data block is exact-size (ASan catches out-of-range writes)
            if (i >= 0 && (size_t)i < s->n + 8) s->count[i]++;
            s->data[i] = e;
            return *this;
        }
        Proxy& operator=(const Proxy& o) { return *this = (Elem)o; }
        operator Elem() const { return s->data[i]; }
    };
    typedef Proxy reference;
    Slots* s;
    ptrdiff_t i;
    Proxy operator*() const { return Proxy{s, i}; }
    Proxy operator[](ptrdiff_t d) const { return Proxy{s, i + d}; }
    CountIt& operator++() { ++i; return *this; }
    CountIt operator++(int) { CountIt t = *this; ++i; return t; }
    CountIt& operator--() { --i; return *this; }
    CountIt operator--(int) { CountIt t = *this; --i; return t; }
    CountIt& operator+=(ptrdiff_t d) { i += d; return *this; }
    CountIt& operator-=(ptrdiff_t d) { i -= d; return *this; }
    CountIt operator+(ptrdiff_t d) const { return CountIt{s, i + d}; }
    CountIt operator-(ptrdiff_t d) const { return CountIt{s, i - d}; }
    ptrdiff_t operator-(const CountIt& o) const { return i - o.i; }
    bool operator==(const CountIt& o) const { return i == o.i; }
    bool operator!=(const CountIt& o) const { return i != o.i; }
    bool operator<(const CountIt& o) const { return i < o.i; }
    bool operator<=(const CountIt& o) const { return i <= o.i; }
    bool operator>(const CountIt& o) const { return i > o.i; }
    bool operator>=(const CountIt& o) const { return i >= o.i; }
};
template <class Elem>
inline CountItT<Elem> operator+(ptrdiff_t d, const CountItT<Elem>& it) { return it + d; }

enum Entry { E_FRONT_FORCE = 0, E_BASE = 1, E_FRONT_MINIMAL = 2, E_SENTINELS_FORCE = 3 };
static const char* entry_name[] = {"parallel_multiway_merge", "parallel_multiway_merge_base", "parallel_multiway_merge(minimal_n=0)",
                                   "parallel_multiway_merge_sentinels"};

struct Case {
    std::vector<std::vector<uint32_t>> seqs;
    int length, threads, splitting, oversampling, mwma, stable, entry;
    int tracked = 0;  // element type: 0 = plain struct, 1 = heap-owning lifetime-tracked (copy-assignment onto raw storage, leaks, use of dead elements)
    std::string seqs_str() const {
        std::string s;
        for (size_t i = 0; i < seqs.size(); ++i) s += (i ? "," : "") + keys_str(seqs[i]);
        return seqs.empty() ? "none" : s;
    }
    std::string str() const {
        return vh::fmt("%s|L%d|t%d|s%d|o%d|a%d|%d|e%d%s", seqs_str().c_str(), length, threads, splitting, oversampling, mwma, stable, entry, tracked ? "|tracked" : "");
    }
    std::string label() const {
        return vh::fmt("%s%s[%s%s]", stable ? "stable_" : "", entry_name[entry], splitting ? "exact" : "sampling", tracked ? ",tracked" : "");
    }
};

static Case parse_case(const std::string& s) {
    Case c;
    std::vector<std::string> f;
    size_t p = 0;
    while (true) {
        size_t e = s.find('|', p);
        f.push_back(s.substr(p, e == std::string::npos ? std::string::npos : e - p));
        if (e == std::string::npos) break;
        p = e + 1;
    }
    if (f[0] != "none") {
        size_t q = 0;
        while (true) {
            size_t e = f[0].find(',', q);
            c.seqs.push_back(parse_keys(f[0].substr(q, e == std::string::npos ? std::string::npos : e - q)));
            if (e == std::string::npos) break;
            q = e + 1;
        }
    }
    c.length = atoi(f[1].c_str() + 1);
    c.threads = atoi(f[2].c_str() + 1);
    c.splitting = atoi(f[3].c_str() + 1);
    c.oversampling = atoi(f[4].c_str() + 1);
    c.mwma = atoi(f[5].c_str() + 1);
    c.stable = atoi(f[6].c_str());
    c.entry = atoi(f[7].c_str() + 1);
    c.tracked = f.size() > 8 && f[8] == "tracked";
    return c;
}

typedef void (*FailFn)(const char* kind, const std::string& msg);

template <class Elem, class ElemLess>
static void run_merge_t(const Case& c, FailFn failfn) {
    typedef SlotsT<Elem> Slots;
    typedef CountItT<Elem> CountIt;
    size_t k = c.seqs.size();
    bool sentinels = c.entry == E_SENTINELS_FORCE;
    // inputs: exact-size heap blocks (one extra slot holding a maximal key for the sentinel entry points)
    std::vector<Elem*> buf(k);
    std::vector<std::pair<Elem*, Elem*>> seqs(k);
    struct R {
        uint32_t key, seq, pos;
    };
    std::vector<R> ref;
    for (size_t s = 0; s < k; ++s) {
        size_t n = c.seqs[s].size();
        buf[s] = new Elem[n + (sentinels ? 1 : 0) + (n + (sentinels ? 1 : 0) == 0 ? 1 : 0)];
        for (size_t i = 0; i < n; ++i) {
            buf[s][i] = Elem{c.seqs[s][i], (uint32_t)(s * 100 + i)};
            ref.push_back(R{c.seqs[s][i], (uint32_t)s, (uint32_t)i});
        }
        if (sentinels) buf[s][n] = Elem{0xFFFFFFFFu, 0xFFFFFFFFu};
        seqs[s] = {buf[s], buf[s] + n};
    }
    std::stable_sort(ref.begin(), ref.end(), [](const R& a, const R& b) { return a.key < b.key; });
    size_t L = (size_t)c.length;
    Slots slots;
    slots.n = L;
    slots.data = new Elem[L ? L : 1];
    slots.count = new int[L + 8]();
    CountIt target{&slots, 0};

    tlx::parallel_multiway_merge_oversampling = (size_t)c.oversampling;
    tlx::parallel_multiway_merge_force_sequential = false;
    tlx::parallel_multiway_merge_force_parallel = (c.entry == E_FRONT_FORCE || c.entry == E_SENTINELS_FORCE);
    tlx::parallel_multiway_merge_minimal_k = c.entry == E_FRONT_MINIMAL ? 0 : 2;
    tlx::parallel_multiway_merge_minimal_n = c.entry == E_FRONT_MINIMAL ? 0 : 1000;
    tlx::MultiwayMergeAlgorithm mwma = (tlx::MultiwayMergeAlgorithm)c.mwma;
    tlx::MultiwayMergeSplittingAlgorithm sp = c.splitting ? tlx::MWMSA_EXACT : tlx::MWMSA_SAMPLING;
    CountIt ret = target;
    ptrdiff_t len = (ptrdiff_t)L;
    size_t T = (size_t)c.threads;
    if (c.entry == E_BASE) {
        ret = c.stable ? tlx::parallel_multiway_merge_base<true>(seqs.begin(), seqs.end(), target, len, ElemLess(), mwma, sp, T)
                       : tlx::parallel_multiway_merge_base<false>(seqs.begin(), seqs.end(), target, len, ElemLess(), mwma, sp, T);
    } else if (c.entry == E_SENTINELS_FORCE) {
        ret = c.stable ? tlx::stable_parallel_multiway_merge_sentinels(seqs.begin(), seqs.end(), target, len, ElemLess(), mwma, sp, T)
                       : tlx::parallel_multiway_merge_sentinels(seqs.begin(), seqs.end(), target, len, ElemLess(), mwma, sp, T);
    } else {
        ret = c.stable ? tlx::stable_parallel_multiway_merge(seqs.begin(), seqs.end(), target, len, ElemLess(), mwma, sp, T)
                       : tlx::parallel_multiway_merge(seqs.begin(), seqs.end(), target, len, ElemLess(), mwma, sp, T);
    }
    // ---- oracles
    std::string out;
    for (size_t i = 0; i < L && i < 24; ++i) out += vh::fmt("%u.%u ", slots.data[i].key, slots.data[i].tag);
    std::string ctx = c.str() + " -> " + out;
    bool ok = true;
    if (ret.i != (ptrdiff_t)L) failfn("return", vh::fmt("%s: returned target+%td, expected target+%zu", ctx.c_str(), ret.i, L)), ok = false;
    for (size_t i = 0; i < L + 8 && ok; ++i) {
        int want = i < L ? 1 : 0;
        if (slots.count[i] != want) {
            failfn(i < L ? (slots.count[i] == 0 ? "slot-not-written" : "slot-written-twice") : "overrun",
                   vh::fmt("%s: output slot %zu written %d time(s)", ctx.c_str(), i, slots.count[i]));
            ok = false;
        }
    }
    std::vector<size_t> taken(k, 0);
    for (size_t i = 0; i < L && ok; ++i) {
        const Elem& e = slots.data[i];
        if (e.key != ref[i].key) failfn("values", vh::fmt("%s: position %zu has key %u, sequential merge has %u", ctx.c_str(), i, e.key, ref[i].key)), ok = false;
        else if (c.stable && e.tag != ref[i].seq * 100 + ref[i].pos)
            failfn("stability", vh::fmt("%s: position %zu is element %u, stable merge has %u", ctx.c_str(), i, e.tag, ref[i].seq * 100 + ref[i].pos)), ok = false;
        else {
            size_t s = e.tag / 100, p = e.tag % 100;
            if (s >= k || p >= c.seqs[s].size() || c.seqs[s][p] != e.key) failfn("values", ctx + ": output element is not an input element"), ok = false;
            else if (p != taken[s]) failfn("values", vh::fmt("%s: elements of sequence %zu not taken as a prefix in order", ctx.c_str(), s)), ok = false;
            else taken[s]++;
        }
    }
    for (size_t s = 0; s < k && ok; ++s) {
        ptrdiff_t adv = seqs[s].first - buf[s];
        if (adv != (ptrdiff_t)taken[s])
            failfn("advance", vh::fmt("%s: sequence %zu advanced by %td but contributed %zu element(s)", ctx.c_str(), s, adv, taken[s])), ok = false;
        if (seqs[s].second != buf[s] + c.seqs[s].size()) failfn("advance", ctx + ": end iterator of an input changed"), ok = false;
        for (size_t i = 0; i < c.seqs[s].size() && ok; ++i)
            if (buf[s][i].key != c.seqs[s][i] || buf[s][i].tag != s * 100 + i) failfn("input-modified", ctx), ok = false;
    }
    for (size_t s = 0; s < k; ++s) delete[] buf[s];
    delete[] slots.data;
    delete[] slots.count;
}

static void run_merge(const Case& c, FailFn failfn) {
    if (!c.tracked) {
        run_merge_t<par::Elem, par::ElemLess>(c, failfn);
        return;
    }
    long live0 = Tracked::live().load();
    Tracked::errors() = 0;
    run_merge_t<Tracked, TrackedLess>(c, failfn);
    if (Tracked::errors().load() != 0) {
        Tracked::errors() = 0;
        failfn("use-of-dead-element", c.str() + ": an element was read, assigned or destroyed while not alive (e.g. assignment onto raw storage)");
    }
    if (Tracked::live().load() != live0)
        failfn("temporaries-not-destroyed", vh::fmt("%s: %ld element instance(s) created by the merge are still alive after it returned", c.str().c_str(),
                                                    Tracked::live().load() - live0));
}

// all sorted sequences over `nkeys` keys with length <= maxlen
static std::vector<std::vector<uint32_t>> sorted_seqs(int nkeys, int maxlen) {
    std::vector<std::vector<uint32_t>> r;
    r.push_back({});
    size_t from = 0;
    for (int l = 1; l <= maxlen; ++l) {
        size_t to = r.size();
        for (size_t i = from; i < to; ++i)
            for (uint32_t kk = r[i].empty() ? 0 : r[i].back(); kk < (uint32_t)nkeys; ++kk) {
                auto w = r[i];
                w.push_back(kk);
                r.push_back(w);
            }
        from = to;
    }
    return r;
}

static void fail_inputs(const char* kind, const std::string& msg) { vh::fail_here(kind, msg); }
static void fail_sched(const char* kind, const std::string& msg) { vs_fail(kind, msg.c_str()); }

int main(int argc, char** argv) {
    bool schedules = false, thorough = false;
    for (int i = 1; i < argc; ++i) {
        if (!strcmp(argv[i], "mode=schedules")) schedules = true;
        if (!strcmp(argv[i], "thorough")) thorough = true;
    }
    if (schedules) {
        std::vector<vx::Scenario> scs;
        const char* ins[] = {"01,01|L4|t2", "012,1,02|L6|t3", "11,11,1|L3|t2", "0122,,01|L5|t3", "00,11|L2|t2"};
        for (const char* in : ins)
            for (int sp = 0; sp <= 1; ++sp)
                for (int st = 0; st <= 1; ++st) {
                    Case c = parse_case(std::string(in) + vh::fmt("|s%d|o2|a0|%d|e1", sp, st));
                    vx::Scenario s;
                    s.name = "pmwm:" + c.str();
                    s.family = c.label();
                    s.body = [c]() {
                        run_merge(c, &fail_sched);
                        vs_observe("merged");
                    };
                    s.delay = c.threads >= 3;
                    s.bound_quick = 2;
                    s.bound_thorough = 3;
                    s.horizon = 100000;
                    scs.push_back(s);
                }
        return vx::run(argc, argv, scs);
    }
    vh::init(argc, argv);
    if (vh::args().has_replay)
        return vh::replay_one([&](const std::string& r) {
            Case c = parse_case(r);
            vh::at(c.label().c_str(), c.str());
            vx::run_default([&] { run_merge(c, &fail_inputs); });
        });
    bool light = vh::args().opt("light") == "1";  // TSan pass: reduced configuration product
    // ---- tuple families
    std::vector<std::vector<std::vector<uint32_t>>> tuples;
    {
        auto S3 = sorted_seqs(3, thorough ? 3 : 2);  // 3 keys
        for (size_t a = 0; a < S3.size(); ++a) {
            tuples.push_back({S3[a]});
            for (size_t b = 0; b < S3.size(); ++b) {
                tuples.push_back({S3[a], S3[b]});
                for (size_t d = 0; d < S3.size(); ++d) tuples.push_back({S3[a], S3[b], S3[d]});
            }
        }
        auto S2 = sorted_seqs(2, thorough ? 2 : 1);  // 2 keys, k = 4
        for (auto& a : S2)
            for (auto& b : S2)
                for (auto& d : S2)
                    for (auto& e : S2) tuples.push_back({a, b, d, e});
        // more than 16 sequences: the exact splitter's multisequence_partition samples one element per sequence, and
        // libstdc++'s std::sort is stable (insertion sort) up to 16 elements only
        for (int k : {17, 24}) {
            tuples.push_back(std::vector<std::vector<uint32_t>>(k, std::vector<uint32_t>{1}));
            std::vector<std::vector<uint32_t>> alt, run;
            for (int i = 0; i < k; ++i) alt.push_back({(uint32_t)(i % 2)});
            tuples.push_back(alt);
            for (int i = 0; i < k; ++i) run.push_back(i % 3 == 0 ? std::vector<uint32_t>{1, 1} : std::vector<uint32_t>{1});
            tuples.push_back(run);
        }
        if (thorough) tuples.push_back(std::vector<std::vector<uint32_t>>(20, std::vector<uint32_t>{1, 1, 2}));
        // one dominant sequence
        tuples.push_back({{0, 0, 0, 1, 1, 1, 1, 2, 2, 2, 2, 2}, {1}, {0, 2}});
        tuples.push_back({{1}, {0, 0, 1, 1, 1, 1, 1, 1, 2, 2, 2, 2}, {}});
        if (thorough) {
            auto S4 = sorted_seqs(3, 4);
            for (auto& a : S4)
                if (a.size() == 4)
                    for (auto& b : S4)
                        if (b.size() >= 3) tuples.push_back({a, b});
        }
    }
    std::vector<int> threads = thorough ? std::vector<int>{1, 2, 3, 5, 32} : std::vector<int>{1, 2, 3, 5};
    struct Cfg {
        int splitting, oversampling, mwma, stable, entry;
    };
    std::vector<Cfg> cfgs;
    for (int st = 0; st <= 1; ++st) {
        if (!thorough) {
            // quick: three configurations per stability flavour
            cfgs.push_back({1, 10, tlx::MWMA_LOSER_TREE, st, E_FRONT_FORCE});
            cfgs.push_back({0, 1, tlx::MWMA_LOSER_TREE, st, E_FRONT_FORCE});
            if (!light) cfgs.push_back({0, 10, tlx::MWMA_BUBBLE, st, E_BASE});
            // the remaining entry points (their own Stable/forwarding arguments): only on the tuples with four or more sequences
            // (see the filter in the case loop), where the loser-tree merges - the only ones that can be unstable - run
            if (!light) cfgs.push_back({1, 10, tlx::MWMA_LOSER_TREE, st, E_SENTINELS_FORCE});
            if (!light) cfgs.push_back({0, 10, tlx::MWMA_LOSER_TREE_COMBINED, st, E_FRONT_MINIMAL});
            continue;
        }
        for (int sp = 0; sp <= 1; ++sp) {
            std::vector<int> overs = sp == 0 ? std::vector<int>{1, 2, 10} : std::vector<int>{10};
            for (int o : overs) {
                cfgs.push_back({sp, o, tlx::MWMA_LOSER_TREE, st, E_FRONT_FORCE});
                if (light) continue;
                if (o != 2) cfgs.push_back({sp, o, tlx::MWMA_BUBBLE, st, E_BASE});
                if (o == 10) {
                    cfgs.push_back({sp, o, tlx::MWMA_LOSER_TREE_COMBINED, st, E_FRONT_MINIMAL});
                    cfgs.push_back({sp, o, tlx::MWMA_LOSER_TREE, st, E_SENTINELS_FORCE});
                }
            }
        }
    }
    // case list: (tuple, length, threads, cfg) — length 0..total
    struct Idx {
        uint32_t tuple;
        uint16_t length;
    };
    std::vector<Idx> tl;
    for (size_t t = 0; t < tuples.size(); ++t) {
        size_t total = 0;
        for (auto& s : tuples[t]) total += s.size();
        for (size_t L = 0; L <= total; ++L) tl.push_back({(uint32_t)t, (uint16_t)L});
    }
    uint64_t per = threads.size() * cfgs.size() * 2;  // x element type
    uint64_t ncases = tl.size() * per;
    if (vh::args().shard == 0) {
        Case ex{tuples[tuples.size() / 3], 2, 3, 1, 10, 0, 1, 0};
        vh::sample("case " + ex.str() + " = sequences (keys as digits) | length | threads | splitting (0 sampling, 1 exact) | oversampling | algorithm | stable | entry point");
    }
    vh::run_cases(ncases, [&](uint64_t id) {
        uint64_t q = id % per, ti = id / per;
        Case c;
        c.seqs = tuples[tl[ti].tuple];
        c.length = tl[ti].length;
        c.tracked = (int)(q % 2);
        q /= 2;
        c.threads = threads[q % threads.size()];
        const Cfg& g = cfgs[q / threads.size()];
        c.splitting = g.splitting;
        c.oversampling = g.oversampling;
        c.mwma = g.mwma;
        c.stable = g.stable;
        c.entry = g.entry;
        if (c.entry == E_FRONT_MINIMAL && c.threads == 1) return;  // threads > 1 is part of that dispatch condition
        if (!thorough && (c.entry == E_SENTINELS_FORCE || c.entry == E_FRONT_MINIMAL) && c.seqs.size() < 4) return;
        vh::at(c.label().c_str(), c.str());
        long steps = vx::run_default([&] { run_merge(c, &fail_inputs); });
        vh::stat_add("cases");
        vh::stat_add("states");
        vh::stat_add("executions");
        vh::stat_add("transitions", steps > 0 ? steps : 1);
        size_t total = 0;
        for (auto& s : c.seqs) total += s.size();
        if ((size_t)c.length < total) vh::stat_add("cases_length_lt_total");
        if ((id & 4095) == 0) vh::outcome(vh::fmt("k=%zu threads=%d %s", c.seqs.size(), c.threads, c.splitting ? "exact" : "sampling"));
    });
    return vh::finish();
}
