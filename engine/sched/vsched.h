/* vsched.h — C interface of the serialising scheduler (engine E1).
 *
 * The scheduler core (vsched.c) is compiled WITHOUT any sanitizer and without STL so that its
 * baton hand-offs (raw futex) create no happens-before edge ThreadSanitizer could see, and so
 * that none of its own bookkeeping is instrumented.  All state of shim objects that more than
 * one thread touches (mutex owner flags, cv waiter lists, thread table) lives here.
 */
#ifndef VSCHED_H
#define VSCHED_H
#include <stddef.h>
#include <stdint.h>

#ifdef __cplusplus
extern "C" {
#endif

#define VS_MAXT 48
#define VS_MAXPOINTS 60000
#define VS_MAXPREFIX 8192
#define VS_MAXOPT 12

enum vs_status {
    VS_RUNNING = 0,
    VS_OK = 1,            /* main returned, all threads done */
    VS_QUIESCENT_OK = 2,  /* no runnable thread, harness accepted the quiescent state */
    VS_DEADLOCK = 3,      /* no runnable thread, not accepted */
    VS_HORIZON = 4,       /* too many steps */
    VS_FAIL = 5,          /* harness oracle failed (vs_fail) */
    VS_DIVERGED = 6,      /* replay of the prefix found a different option count: nondeterminism */
    VS_THREADS_LEFT = 7,  /* main returned while other threads still exist */
    VS_SPIN_FAULT = 8     /* horizon hit by one thread repeating one identical load (scheduler gap) */
};

enum vs_kind { VS_K_NORMAL = 0, VS_K_YIELD = 1, VS_K_FREE = 2, VS_K_NOTIFY = 3, VS_K_SPURIOUS = 4 };

struct vs_point {
    unsigned char nopt;    /* number of options (>= 2) */
    unsigned char chosen;  /* index taken */
    unsigned char altcost; /* preemption cost of taking any option != 0 */
    unsigned char kind;
    unsigned char tids[VS_MAXOPT]; /* thread ids of the options, option 0 first */
    uint64_t state;                /* abstract global state at this point (stateful exploration), 0 if not computed */
};

struct vs_shared {
    volatile int status;
    volatile int npoints;
    volatile int nsteps;
    int nprefix;
    int horizon;
    int spurious_at; /* -1, or: inject one spurious wake-up at the n-th cv wait (0-based) */
    int nthreads_created;
    int user[8]; /* [0] scenario index, [1] delay mode, [2] no recording, [3] post-release points, [4] compute state hashes */
    char fail_sig[160];
    char fail_msg[1200];
    int obs_len;
    char obs[8192];
    char blocked[1024];
    unsigned char prefix[VS_MAXPREFIX];
    struct vs_point points[VS_MAXPOINTS];
};

/* ---- process-level control (called by the explorer / harness main thread) ---- */
void vs_begin(struct vs_shared* sh); /* start scheduling: caller becomes thread 0 */
void vs_end(void);                   /* thread 0 finished its body: verifies all threads are done */
int vs_active(void);
/* quiescence callback: return 1 if "no runnable thread" is an acceptable final state */
void vs_set_quiescence_cb(int (*cb)(void));
void vs_set_abnormal_exit_code(int c);
/* stateful exploration: harness-supplied hash of the shared data the scheduler cannot see, and a per-thread tag
 * for thread-local data that the call stack does not show (loop counters, which script step, ...) */
void vs_set_state_cb(uint64_t (*cb)(void));
void vs_set_tag(uint64_t tag); /* exit code used when an execution ends by deadlock/horizon/vs_fail (default 0) */

/* ---- used by the shim ---- */
int vs_self(void);
int vs_thread_create(void (*fn)(void*), void* arg); /* returns tid */
void vs_thread_join(int tid);
int vs_thread_done(int tid);

int vs_mutex_new(void);
void vs_mutex_lock(int m);
int vs_mutex_trylock(int m);
void vs_mutex_unlock(int m);

int vs_cv_new(void);
void vs_cv_wait(int cv, int m); /* caller holds m (scheduler level); real mutex already released */
void vs_cv_notify_one(int cv);
void vs_cv_notify_all(int cv);

void vs_atomic_point(const void* addr, int is_load);
void vs_atomic_loaded(const void* addr, uint64_t val);
void vs_atomic_written(void); /* after an atomic store / read-modify-write (post-release scheduling point) */
void vs_yield(void);
void vs_sched_point(void); /* generic scheduling point */

/* ---- harness helpers ---- */
void vs_observe(const char* text);                /* append to the observation log */
void vs_fail(const char* sig, const char* msg);   /* oracle failure: records and ends the execution */
int vs_blocked_count(void);                       /* number of threads blocked (for quiescence oracles) */
int vs_thread_blocked_on_cv(int tid);             /* 1 if tid is blocked in a cv wait */
int vs_nthreads(void);
long vs_steps(void);

#ifdef __cplusplus
}
#endif
#endif
