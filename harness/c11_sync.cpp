// C11 — Semaphore, ThreadBarrierMutex, ThreadBarrierSpin under every schedule (engine E1).
// Compiled with the shadow-std shim; tlx headers unchanged.
#include <tlx/semaphore.hpp>
#include <tlx/thread_barrier_mutex.hpp>
#include <tlx/thread_barrier_spin.hpp>

#include "sched/vexplore.hpp"

using vshim::thread;

// ---------------------------------------------------------------------------------------------
// Semaphore: every tuple of per-thread call scripts (bounded), every interleaving.

struct Op {
    char kind;  // 's' signal(), 'S' signal(n), 'w' wait(d,s), 't' try_acquire(d,s)
    int a, b;
    std::string str() const {
        if (kind == 's') return "s";
        if (kind == 'S') return vh::fmt("S%d", a);
        return vh::fmt("%c%d%d", kind, a, b);
    }
};

struct LogEntry {
    Op op;
    long ret;
    int tid;
    long inv, resp;  // global stamps taken immediately before the call and after its return
};

static tlx::Semaphore* g_sem;
static std::vector<LogEntry>* g_log;
static long g_stamp;
static int g_waiting[VS_MAXT][3];  // [t] = {active, delta, slack}, indexed by scheduler tid

// explicit-state mode: abstract shared state = semaphore value, the log of completed calls (the oracle is evaluated on
// it, so it belongs to the state) and the waiting table; thread-local state = call site + script position tag
__attribute__((no_sanitize("thread"))) static uint64_t sem_state() {
    uint64_t h = 5;
    auto mix = [&h](uint64_t v) { h = (h ^ (v + 0x9E3779B97F4A7C15ull + (h << 6) + (h >> 2))) * 0xff51afd7ed558ccdull; };
    if (g_sem) mix(g_sem->value());
    if (g_log)
        for (auto& e : *g_log) mix((uint64_t)e.tid * 1000003 + (uint64_t)e.op.kind * 10007 + (uint64_t)e.op.a * 101 + (uint64_t)e.op.b * 11 + (uint64_t)e.ret * 7 + (uint64_t)e.inv * 131 + (uint64_t)e.resp * 17);
    for (int t = 0; t < VS_MAXT; ++t)
        if (g_waiting[t][0]) mix((uint64_t)t * 97 + g_waiting[t][1] * 5 + g_waiting[t][2]);
    mix((uint64_t)g_stamp);
    return h;
}

static int sem_quiescent_ok() {
    // the threads came to rest: no blocked waiter may be covered by the current value
    size_t v = g_sem->value();
    for (int t = 0; t < VS_MAXT; ++t)
        if (g_waiting[t][0] && vs_thread_blocked_on_cv(t) && v >= (size_t)(g_waiting[t][1] + g_waiting[t][2])) {
            vs_fail("stranded-waiter", vh::fmt("threads at rest, value=%zu but T%d is still blocked in wait(delta=%d, slack=%d)", v, t,
                                               g_waiting[t][1], g_waiting[t][2])
                                           .c_str());
        }
    return 1;
}

// Linearizability against the counter model, by brute force over the few overlapping calls: is there a total
// order of the completed calls that respects real time (a call that returned before another was invoked comes
// first) and in which every call is legal and returns what the model returns?
//   signal(n): v += n, returns v.   wait(d,s): only if v >= d+s ("returns only after the value was at least
//   delta plus slack"), v -= d, returns v.   try_acquire(d,s): true and v -= d iff v >= d+s.
// v never goes negative, which is token conservation.  The final model value must equal value().
static bool lin_search(const std::vector<LogEntry>& log, std::vector<char>& done, size_t ndone, long v, long final_value, std::string& why) {
    if (ndone == log.size()) {
        if (v == final_value) return true;
        why = vh::fmt("final value()=%ld differs from the model value %ld", final_value, v);
        return false;
    }
    for (size_t i = 0; i < log.size(); ++i) {
        if (done[i]) continue;
        bool minimal = true;  // no other pending call returned before this one was invoked
        for (size_t j = 0; j < log.size() && minimal; ++j)
            if (!done[j] && j != i && log[j].resp < log[i].inv) minimal = false;
        if (!minimal) continue;
        const LogEntry& e = log[i];
        long nv = v;
        bool ok = true;
        switch (e.op.kind) {
        case 's':
        case 'S':
            nv = v + (e.op.kind == 's' ? 1 : e.op.a);
            ok = e.ret == nv;
            break;
        case 'w':
            ok = v >= e.op.a + e.op.b;
            nv = v - e.op.a;
            ok = ok && e.ret == nv;
            break;
        case 't': {
            bool can = v >= e.op.a + e.op.b;
            ok = (e.ret != 0) == can;
            if (can) nv = v - e.op.a;
            break;
        }
        }
        if (!ok || nv < 0) continue;
        done[i] = 1;
        if (lin_search(log, done, ndone + 1, nv, final_value, why)) return true;
        done[i] = 0;
    }
    return false;
}

static void sem_check_log(size_t init, const std::vector<LogEntry>& log) {
    std::vector<char> done(log.size(), 0);
    std::string why;
    if (!lin_search(log, done, 0, (long)init, (long)g_sem->value(), why)) {
        std::string h;
        for (auto& e : log) h += vh::fmt("T%d:%s=%ld[%ld,%ld] ", e.tid, e.op.str().c_str(), e.ret, e.inv, e.resp);
        vs_fail("not-linearizable", vh::fmt("no legal order of the completed calls (init=%zu, final value()=%zu): %s %s", init, g_sem->value(),
                                            h.c_str(), why.c_str())
                                        .c_str());
    }
}

static void sem_body(size_t init, const std::vector<std::vector<Op>>& scripts) {
    tlx::Semaphore sem(init);
    std::vector<LogEntry> log;
    g_sem = &sem;
    g_log = &log;
    g_stamp = 0;
    memset(g_waiting, 0, sizeof g_waiting);
    std::vector<thread> th;
    for (size_t i = 0; i < scripts.size(); ++i) {
        const std::vector<Op>* sc = &scripts[i];
        th.emplace_back([sc, &sem, &log]() {
            int me = vs_self();
            int step = 0;
            for (const Op& op : *sc) {
                vs_set_tag(++step);
                long r = 0;
                long inv = ++g_stamp;
                switch (op.kind) {
                case 's': r = (long)sem.signal(); break;
                case 'S': r = (long)sem.signal(op.a); break;
                case 'w':
                    g_waiting[me][0] = 1, g_waiting[me][1] = op.a, g_waiting[me][2] = op.b;
                    r = (long)sem.wait(op.a, op.b);
                    g_waiting[me][0] = 0;
                    break;
                case 't': r = sem.try_acquire(op.a, op.b) ? 1 : 0; break;
                }
                log.push_back({op, r, me, inv, ++g_stamp});
            }
        });
    }
    for (auto& t : th) t.join();
    sem_check_log(init, log);
    g_sem = nullptr;
    g_log = nullptr;
    std::string o;
    for (auto& e : log) o += vh::fmt("T%d%s=%ld ", e.tid, e.op.str().c_str(), e.ret);
    vs_observe(o.c_str());
}

// ---------------------------------------------------------------------------------------------
// barriers

static int g_n, g_gens;
static int g_entered[8], g_left[8], g_lambda[8];

static uint64_t (*g_bar_fields)();
__attribute__((no_sanitize("thread"))) static uint64_t bar_state() {
    uint64_t h = 9;
    auto mix = [&h](uint64_t v) { h = (h ^ (v + 0x9E3779B97F4A7C15ull + (h << 6) + (h >> 2))) * 0xff51afd7ed558ccdull; };
    for (int g = 0; g < 8; ++g) mix((uint64_t)g_entered[g] * 64 + g_left[g] * 8 + g_lambda[g]);
    if (g_bar_fields) mix(g_bar_fields());
    return h;
}
static void* g_bar;
template <class Barrier>
__attribute__((no_sanitize("thread"))) static uint64_t bar_fields();
template <>
uint64_t bar_fields<tlx::ThreadBarrierMutex>() {
    auto* b = static_cast<tlx::ThreadBarrierMutex*>(g_bar);
    return b ? b->counts_[0] * 1000 + b->counts_[1] * 10 + b->step_ : 0;
}
template <>
uint64_t bar_fields<tlx::ThreadBarrierSpin>() {
    auto* b = static_cast<tlx::ThreadBarrierSpin*>(g_bar);
    return b ? b->waiting_.vs_peek() * 1000 + b->step_.vs_peek() : 0;
}

template <class Barrier, bool Yield>
static void barrier_body(int n, int gens) {
    Barrier bar(n);
    g_bar = &bar;
    g_bar_fields = &bar_fields<Barrier>;
    g_n = n;
    g_gens = gens;
    memset(g_entered, 0, sizeof g_entered);
    memset(g_left, 0, sizeof g_left);
    memset(g_lambda, 0, sizeof g_lambda);
    std::vector<thread> th;
    for (int i = 0; i < n; ++i) {
        th.emplace_back([&bar]() {
            for (int g = 0; g < g_gens; ++g) {
                vs_set_tag(1 + g);
                g_entered[g]++;
                auto action = [g]() {
                    if (g_entered[g] != g_n)
                        vs_fail("action-before-all-arrived", vh::fmt("generation %d: action ran with %d of %d threads arrived", g, g_entered[g], g_n).c_str());
                    if (g_left[g] != 0) vs_fail("action-after-release", vh::fmt("generation %d: action ran after %d thread(s) left", g, g_left[g]).c_str());
                    g_lambda[g]++;
                };
                if (Yield)
                    bar.wait_yield(action);
                else
                    bar.wait(action);
                if (g_entered[g] != g_n)
                    vs_fail("left-before-all-entered", vh::fmt("T%d left generation %d when only %d of %d had entered", vs_self(), g, g_entered[g], g_n).c_str());
                if (g_lambda[g] != 1) vs_fail("action-count", vh::fmt("T%d left generation %d with action count %d", vs_self(), g, g_lambda[g]).c_str());
                g_left[g]++;
            }
        });
    }
    for (auto& t : th) t.join();
    for (int g = 0; g < gens; ++g)
        if (g_left[g] != n || g_lambda[g] != 1) vs_fail("final-count", "generation counters wrong at the end");
    vs_observe(vh::fmt("gens=%d step=%zu", gens, (size_t)bar.step()).c_str());
    g_bar = nullptr;
}

// Happens-before through the barrier (TSan build): every thread writes a PLAIN slot of its own before the barrier, the action
// sums the slots into a plain variable, every thread reads the sum and all slots afterwards.  No other synchronisation and no
// shared counters: under the serialising scheduler (invisible to TSan) a report means that the barrier itself does not order
// "everything before anyone's arrival" before "the action" before "everything after anyone's release" - e.g. an acquire load
// weakened to relaxed, which the sequentially consistent exploration cannot see.  One slot array per generation (a thread may
// already write generation g+1's slot while a slow thread still reads generation g's).
static int hb_slot[4][4], hb_sum[4];
template <class Barrier, bool Yield>
static void barrier_hb_body(int n, int gens) {
    Barrier bar(n);
    g_bar = nullptr;
    g_bar_fields = nullptr;
    memset(hb_slot, 0, sizeof hb_slot);
    memset(hb_sum, 0, sizeof hb_sum);
    std::vector<thread> th;
    for (int i = 0; i < n; ++i) {
        th.emplace_back([&bar, i, n, gens]() {
            for (int g = 0; g < gens; ++g) {
                hb_slot[g][i] = 100 + i;
                auto action = [g, n]() {
                    int s = 0;
                    for (int k = 0; k < n; ++k) s += hb_slot[g][k];
                    hb_sum[g] = s;
                };
                if (Yield)
                    bar.wait_yield(action);
                else
                    bar.wait(action);
                int want = 0;
                for (int k = 0; k < n; ++k) want += 100 + k;
                if (hb_sum[g] != want) vs_fail("action-effect-not-visible", vh::fmt("T%d after generation %d: sum=%d, expected %d", vs_self(), g, hb_sum[g], want).c_str());
                for (int k = 0; k < n; ++k)
                    if (hb_slot[g][k] != 100 + k) vs_fail("pre-barrier-write-not-visible", vh::fmt("T%d after generation %d: slot of thread %d is %d", vs_self(), g, k, hb_slot[g][k]).c_str());
            }
        });
    }
    for (auto& t : th) t.join();
    vs_observe(vh::fmt("hb gens=%d step=%zu", gens, (size_t)bar.step()).c_str());
}

// ---------------------------------------------------------------------------------------------

static std::vector<Op> alphabet(bool thorough) {
    // 'S' with a = 1 is signal(1) through the delta overload (a different code path from the parameterless signal())
    std::vector<Op> a = {{'s', 1, 0}, {'S', 2, 0}, {'S', 1, 0}, {'w', 1, 0}, {'w', 2, 0}, {'w', 1, 1}, {'t', 1, 0}};
    if (thorough) {
        a.push_back({'S', 3, 0});
        a.push_back({'w', 0, 1});
        a.push_back({'w', 2, 1});
        a.push_back({'t', 2, 1});
    }
    return a;
}

static bool has_kind(const std::vector<std::vector<Op>>& s, const char* kinds) {
    for (auto& t : s)
        for (auto& o : t)
            if (strchr(kinds, o.kind)) return true;
    return false;
}

int main(int argc, char** argv) {
    bool thorough = false;
    for (int i = 1; i < argc; ++i)
        if (!strcmp(argv[i], "thorough")) thorough = true;
    std::vector<vx::Scenario> scs;

    // --- semaphore script tuples
    std::vector<Op> A = alphabet(thorough);
    std::vector<std::vector<Op>> scripts;  // all scripts of length 1..2
    for (auto& a : A) scripts.push_back({a});
    // two-call scripts only over the base alphabet (the thorough extras appear in one-call scripts): the space
    // of script tuples is what dominates the cost
    std::vector<Op> A2 = alphabet(false);
    for (auto& a : A2)
        for (auto& b : A2) scripts.push_back({a, b});
    int maxcalls = 4;
    int maxthreads = thorough ? 4 : 3;
    // enumerate non-decreasing tuples of script indices (threads are symmetric)
    std::vector<std::vector<int>> tuples;
    std::function<void(std::vector<int>&, int, int)> gen = [&](std::vector<int>& cur, int from, int calls) {
        if (cur.size() >= 2) tuples.push_back(cur);
        if ((int)cur.size() == maxthreads) return;
        for (int i = from; i < (int)scripts.size(); ++i) {
            int c = (int)scripts[i].size();
            if (calls + c > maxcalls) continue;
            if (!thorough && cur.size() >= 2 && calls + c > 3) continue;  // quick: 3 threads only with one call each
            if (thorough && cur.size() >= 2 && calls + c > (cur.size() >= 3 ? 4 : 3)) continue;  // thorough: 3 threads <= 3 calls, 4 threads one call each
            // four threads: base alphabet only (the extras are covered with 2 and 3 threads)
            if (cur.size() == 3 && (i >= (int)A2.size() || cur[0] >= (int)A2.size() || cur[1] >= (int)A2.size() || cur[2] >= (int)A2.size())) continue;
            cur.push_back(i);
            gen(cur, i, calls + c);
            cur.pop_back();
        }
    };
    std::vector<int> cur;
    gen(cur, 0, 0);
    for (auto& tp : tuples) {
        std::vector<std::vector<Op>> ss;
        for (int i : tp) ss.push_back(scripts[i]);
        // without a wait nothing blocks, without a signal nothing is ever woken: both needed to interact;
        // pure signal/try_acquire mixes are kept for 2 threads (atomicity of the counter)
        bool interesting = has_kind(ss, "w") ? has_kind(ss, "sS") : (tp.size() == 2 && has_kind(ss, "t") && has_kind(ss, "sS"));
        if (!interesting) continue;
        for (size_t init = 0; init <= 1; ++init) {
            std::string name = vh::fmt("sem:i%zu", init);
            for (auto& s : ss) {
                name += ":";
                for (auto& o : s) name += o.str() + ".";
            }
            vx::Scenario sc;
            sc.name = name;
            sc.family = "semaphore";
            sc.body = [init, ss]() { sem_body(init, ss); };
            sc.quiescent_ok = &sem_quiescent_ok;
            int calls = 0;
            for (auto& s : ss) calls += (int)s.size();
            sc.bound_quick = 1;
            // three threads with a two-call script: bound 1 (the explicit-state scenario below covers them without a bound)
            sc.bound_thorough = (ss.size() == 2 || (ss.size() == 3 && calls == 3)) ? 2 : 1;
            sc.horizon = 5000;
            sc.whole = true;
            sc.spurious_pass = thorough && ss.size() == 2;
            scs.push_back(sc);
            // explicit-state (unbounded) exploration of the same scenario
            if (ss.size() == 2 || calls <= 3) {
                vx::Scenario sx = sc;
                sx.name = "X:" + name;
                sx.stateful = true;
                sx.state_cb = &sem_state;
                sx.spurious_pass = false;
                sx.thorough_only = !(ss.size() == 2 && calls <= 2);
                scs.push_back(sx);
            }
        }
    }
    // --- barriers
    for (int n = 1; n <= 4; ++n)
        for (int g = 1; g <= 3; ++g) {
            if (n == 4 && g > 2) continue;
            if (!thorough && n == 4) continue;
            struct V {
                const char* nm;
                void (*fn)(int, int);
            } vs[] = {{"mutex.wait", &barrier_body<tlx::ThreadBarrierMutex, false>},
                      {"mutex.wait_yield", &barrier_body<tlx::ThreadBarrierMutex, true>},
                      {"spin.wait", &barrier_body<tlx::ThreadBarrierSpin, false>},
                      {"spin.wait_yield", &barrier_body<tlx::ThreadBarrierSpin, true>}};
            for (auto& v : vs) {
                vx::Scenario sc;
                sc.name = vh::fmt("barrier:%s:n%d:g%d", v.nm, n, g);
                sc.family = std::string("barrier.") + v.nm;
                auto fn = v.fn;
                sc.body = [fn, n, g]() { fn(n, g); };
                sc.bound_quick = 1;
                sc.bound_thorough = n <= 2 ? 3 : (n == 3 ? 2 : 1);
                sc.horizon = 20000;
                sc.whole = (n <= 2);
                // condition-variable waits may wake spuriously: one injected spurious wake-up per execution
                sc.spurious_pass = std::string(v.nm) == "mutex.wait" && n >= 2 && n <= 3 && g <= 2;
                sc.spurious_kmax = thorough ? 4 : 2;
                scs.push_back(sc);
                if (n <= 3 && g <= 2) {
                    vx::Scenario sx = sc;
                    sx.name = "X:" + sc.name;
                    sx.stateful = true;
                    sx.state_cb = &bar_state;
                    sx.spurious_pass = false;
                    sx.whole = true;
                    sx.thorough_only = !(n == 2 || (n == 3 && g == 1));
                    scs.push_back(sx);
                }
            }
        }
    // --- happens-before through the barriers (meaningful in the TSan build; the value checks also run under ASan)
    for (int n = 2; n <= 3; ++n)
        for (int g = 1; g <= 2; ++g) {
            struct V {
                const char* nm;
                void (*fn)(int, int);
            } vs[] = {{"mutex.wait", &barrier_hb_body<tlx::ThreadBarrierMutex, false>},
                      {"spin.wait", &barrier_hb_body<tlx::ThreadBarrierSpin, false>},
                      {"spin.wait_yield", &barrier_hb_body<tlx::ThreadBarrierSpin, true>}};
            for (auto& v : vs) {
                vx::Scenario sc;
                sc.name = vh::fmt("hb:%s:n%d:g%d", v.nm, n, g);
                sc.family = std::string("barrier-hb.") + v.nm;
                auto fn = v.fn;
                sc.body = [fn, n, g]() { fn(n, g); };
                sc.bound_quick = 1;
                sc.bound_thorough = n == 2 ? 2 : 1;
                sc.horizon = 20000;
                sc.whole = true;
                scs.push_back(sc);
            }
        }
    return vx::run(argc, argv, scs);
}
