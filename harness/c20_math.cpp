// C20 (part 2 of 2) — integer helpers of tlx/math/*.hpp (8/16-bit template instantiations, 64-bit overloads,
// popcount buffer form, two-argument helpers) and tlx::Aggregate; bounded exhaustive enumeration (E3), ASan build.
// The 32-bit overloads are swept by c20_math32.cpp.  Domains and references: see c20_common.hpp.
//
// Families (replay string "<family>:<a hex>:<b hex>"):
//   u8,i8,u16,i16  every value of the type: clz/ctz/ffs/integer_log2_floor/round_up_to_power_of_two/
//                  is_power_of_two *_template + sgn; popcount_generic8/16, bswap16(+generic)
//   p8u,p8i        every pair (a,b) of uint8_t / int8_t: abs_diff, div_ceil, round_up
//   v64            structured 64-bit patterns (one/two-bit patterns [thorough: + all three-bit patterns], 2^k+-1, 2^k-2^j, extremes, byte patterns, their
//                  negations and complements): all overloads for long / unsigned long / long long / unsigned long
//                  long + the templates, popcount_generic64, bswap64(+generic), rol64/ror64(+generic) shifts 0..63
//   pcb            popcount(data,size): every size 0..24 at every alignment 0..7, exact-size heap block (ASan
//                  sees any over-read), patterns all-ones / all-zero / one hot byte at every position
//   g<k>           div_ceil / round_up / abs_diff over the structured grid G(T) x G(T) of type combination k
//   aggd,aggi      tlx::Aggregate<double> / <int>: every pair of operands; an operand is a value list of length
//                  0..3 over {-2,0,0.5,1e6} ({-2,0,1,1000000} for int) either fed with add() or built with operator+
//                  from a prefix and a suffix aggregate (so operands that are themselves results of a combination,
//                  including the combination of two empty aggregates, are covered).  A+B, B+A, A+=B, B+=A and one
//                  Aggregate fed all values vs. a two-pass long double reference: count/min/max exact, mean,
//                  variance(0/1), stdev(0/1) within 1e-9 relative or 1e-12 absolute.  For an empty result min/max/mean
//                  are compared with a default constructed Aggregate.
#include <cstring>
#include <memory>

#include "c20_common.hpp"

using namespace c20;

// ---------------------------------------------------------------------------------------------
// small types

template <class T>
static void small_value(T x) {
    ++g_ninputs;
    g_in.a = (uint64_t)(typename std::make_unsigned<T>::type)x, g_in.b = 0;
    check_templates<T>(x);
}
static void u8_value(uint8_t x) {
    small_value<uint8_t>(x);
    cmp(S<F_popcount_generic8>::s, tlx::popcount_generic8(x), naive_pop(x), x);
}
static void u16_value(uint16_t x) {
    small_value<uint16_t>(x);
    cmp(S<F_popcount_generic16>::s, tlx::popcount_generic16(x), naive_pop(x), x);
    const uint16_t bs = (uint16_t)ref_bswap(x, 2);
    cmp(S<F_bswap16>::s, tlx::bswap16(x), bs, x);
    cmp(S<F_bswap16_generic>::s, tlx::bswap16_generic(x), bs, x);
}
template <class T>
static void pair8(T a, T b) {
    ++g_ninputs;
    g_in.a = (uint64_t)(int64_t)a, g_in.b = (uint64_t)(int64_t)b;
    check_abs_diff<T>(a, b);
    check_div<T, T>(a, b);
}

// ---------------------------------------------------------------------------------------------
// 64 bit structured values

static void v64_value(uint64_t x) {
    ++g_ninputs;
    g_in.a = x, g_in.b = 0;
    check_overloads<unsigned long>(x);
    check_overloads<long>((long)x);
    check_overloads<unsigned long long>(x);
    check_overloads<long long>((long long)x);
    check_templates<unsigned long>(x);
    check_templates<long>((long)x);
    check_templates<unsigned long long>(x);
    check_templates<long long>((long long)x);
    cmp(S<F_popcount_generic64>::s, tlx::popcount_generic64(x), naive_pop(x), (i128)x);
    const uint64_t bs = ref_bswap(x, 8);
    cmp(S<F_bswap64>::s, tlx::bswap64(x), (i128)bs, (i128)x);
    cmp(S<F_bswap64_generic>::s, tlx::bswap64_generic(x), (i128)bs, (i128)x);
    for (int s = 0; s < 64; ++s) {
        const uint64_t rl = ref_rol(x, s, 64), rr = ref_ror(x, s, 64);
        cmp(S<F_rol64>::s, tlx::rol64(x, s), (i128)rl, (i128)x, s);
        cmp(S<F_rol64_generic>::s, tlx::rol64_generic(x, s), (i128)rl, (i128)x, s);
        cmp(S<F_ror64>::s, tlx::ror64(x, s), (i128)rr, (i128)x, s);
        cmp(S<F_ror64_generic>::s, tlx::ror64_generic(x, s), (i128)rr, (i128)x, s);
    }
}

// ---------------------------------------------------------------------------------------------
// popcount(data, size)

static void pcb_case(size_t len, size_t align) {
    g_in.a = len, g_in.b = align;
    vh::at("popcount(data,size)", cur_replay());
    // data = base + align, data + len = end of the heap block; operator new[] returns 16-byte aligned storage
    std::unique_ptr<uint8_t[]> base(new uint8_t[align + len ? align + len : 1]);
    uint8_t* data = base.get() + align;
    memset(base.get(), 0xff, align);  // bytes before the range are all ones: reading them changes the count
    auto run = [&](const char* what, size_t want) {
        ++g_ninputs;
        size_t got = tlx::popcount(data, len);
        size_t ref = 0;
        for (size_t i = 0; i < len; ++i) ref += naive_pop(data[i]);
        if (ref != want) {
            vh::out_line("ERROR pcb reference inconsistent");
            exit(2);
        }
        cmp(S<F_popcount_buffer>::s, got, (i128)ref, (i128)len, (i128)align);
        (void)what;
    };
    memset(data, 0xff, len);
    run("ones", 8 * len);
    memset(data, 0, len);
    run("zeros", 0);
    for (size_t p = 0; p < len; ++p) {
        memset(data, 0, len);
        data[p] = 0xa7;
        run("hot", 5);
    }
    for (size_t i = 0; i < len; ++i) data[i] = (uint8_t)((1u << (i % 9)) - 1);  // popcount i%9
    size_t w = 0;
    for (size_t i = 0; i < len; ++i) w += i % 9;
    run("ramp", w);
}

// ---------------------------------------------------------------------------------------------
// two-argument helpers over a structured grid

template <class T>
static std::vector<T> grid() {
    const i128 mx = std::numeric_limits<T>::max(), mn = std::numeric_limits<T>::min();
    const i128 H = (i128)1 << (4 * sizeof(T));
    std::vector<i128> c = {0, 1, 2, 3, 4, 5, 6, 7, 8, 9, 10, 15, 16, 17, 31, 32, 33, 100, 127, 128, 129, 255, 256, 257, 1000,
                           H - 1, H, H + 1, 3 * H, mx / 3, mx / 3 + 1, mx / 2, mx / 2 + 1, mx / 2 + 2, (mx / 4) * 3,
                           mx - mx / 3, mx - H, mx - 1000, mx - 256, mx - 255, mx - 3, mx - 2, mx - 1, mx,
                           -1, -2, -3, -7, -8, -100, -128, -129, -1000, -H, mn, mn + 1, mn + 2, mn / 2, mn / 2 - 1,
                           mn / 2 + 1, -(mx / 3), mn + H, -(mx / 2), -mx};
    std::vector<T> r;
    std::sort(c.begin(), c.end());
    c.erase(std::unique(c.begin(), c.end()), c.end());
    for (i128 v : c)
        if (v >= mn && v <= mx) r.push_back((T)v);
    return r;
}

template <class N, class K>
static void grid_pair(N n, K k) {
    ++g_ninputs;
    g_in.a = (uint64_t)(int64_t)n, g_in.b = (uint64_t)(int64_t)k;
    check_div<N, K>(n, k);
}
template <class T>
static void grid_pair_same(T a, T b) {
    grid_pair<T, T>(a, b);
    check_abs_diff<T>(a, b);
}
template <class N, class K>
static void grid_all() {
    for (N n : grid<N>())
        for (K k : grid<K>()) grid_pair<N, K>(n, k);
}
template <class T>
static void grid_all_same() {
    for (T a : grid<T>())
        for (T b : grid<T>()) grid_pair_same<T>(a, b);
}
static const int NGRID = 10;
// all == true: run the whole grid of combination k; else only the pair (a, b)
static void grid_dispatch(int k, bool all, uint64_t a, uint64_t b) {
    typedef unsigned long ulong_;
    typedef long long ll;
    typedef unsigned long long ull;
    switch (k) {
    case 0: all ? grid_all_same<int>() : grid_pair_same<int>((int)a, (int)b); break;
    case 1: all ? grid_all_same<unsigned>() : grid_pair_same<unsigned>((unsigned)a, (unsigned)b); break;
    case 2: all ? grid_all_same<long>() : grid_pair_same<long>((long)a, (long)b); break;
    case 3: all ? grid_all_same<ulong_>() : grid_pair_same<ulong_>((ulong_)a, (ulong_)b); break;
    case 4: all ? grid_all_same<ll>() : grid_pair_same<ll>((ll)a, (ll)b); break;
    case 5: all ? grid_all_same<ull>() : grid_pair_same<ull>((ull)a, (ull)b); break;
    case 6: all ? grid_all_same<short>() : grid_pair_same<short>((short)a, (short)b); break;
    case 7: all ? grid_all_same<unsigned short>() : grid_pair_same<unsigned short>((unsigned short)a, (unsigned short)b); break;
    case 8: all ? grid_all<ulong_, unsigned>() : grid_pair<ulong_, unsigned>((ulong_)a, (unsigned)b); break;
    case 9: all ? grid_all<int, long>() : grid_pair<int, long>((int)a, (long)b); break;
    }
}
static const char* GRID_FAM[NGRID] = {"g0", "g1", "g2", "g3", "g4", "g5", "g6", "g7", "g8", "g9"};

// ---------------------------------------------------------------------------------------------
// Aggregate

template <class T>
struct AggVals;
template <>
struct AggVals<double> {
    static std::vector<double> get() { return {-2, 0, 0.5, 1e6}; }
    static constexpr const char* fam = "aggd";
};
template <>
struct AggVals<int> {
    static std::vector<int> get() { return {-2, 0, 1, 1000000}; }
    static constexpr const char* fam = "aggi";
};

template <class T>
struct Agg {
    typedef tlx::Aggregate<T> A;
    struct Operand {
        int list;
        int mode;  // 0: all values fed with add(); k >= 1: operator+ of (first k-1 values fed) and (rest fed)
    };
    std::vector<std::vector<T>> lists;
    std::vector<Operand> ops;
    mutable unsigned long long nprinted[6] = {0, 0, 0, 0, 0, 0};

    Agg() {
        std::vector<T> al = AggVals<T>::get();
        lists.push_back({});
        size_t from = 0;
        for (int l = 1; l <= 3; ++l) {
            size_t to = lists.size();
            for (size_t i = from; i < to; ++i)
                for (T v : al) {
                    std::vector<T> x = lists[i];
                    x.push_back(v);
                    lists.push_back(x);
                }
            from = to;
        }
        for (size_t i = 0; i < lists.size(); ++i)
            for (int m = 0; m <= (int)lists[i].size() + 1; ++m) ops.push_back({(int)i, m});
    }
    static A fed(const std::vector<T>& v, size_t lo, size_t hi) {
        A a;
        for (size_t i = lo; i < hi; ++i) a.add(v[i]);
        return a;
    }
    A build(const Operand& o) const {
        const std::vector<T>& v = lists[o.list];
        if (o.mode == 0) return fed(v, 0, v.size());
        return fed(v, 0, o.mode - 1) + fed(v, o.mode - 1, v.size());
    }
    std::string show(const Operand& o) const {
        std::string s = "[";
        for (size_t i = 0; i < lists[o.list].size(); ++i) s += vh::fmt(i ? ",%g" : "%g", (double)lists[o.list][i]);
        s += "]";
        return s + (o.mode == 0 ? "(add)" : vh::fmt("(first %d + rest)", o.mode - 1));
    }

    struct Ref {
        size_t n;
        T mn, mx;
        long double mean, nvar;
    };
    static Ref reference(const std::vector<T>& v) {
        Ref r{v.size(), T(), T(), 0, 0};
        if (v.empty()) return r;
        r.mn = *std::min_element(v.begin(), v.end());
        r.mx = *std::max_element(v.begin(), v.end());
        long double s = 0;
        for (T x : v) s += (long double)x;
        r.mean = s / v.size();
        for (T x : v) r.nvar += ((long double)x - r.mean) * ((long double)x - r.mean);
        return r;
    }
    static bool close_(double got, long double want) {
        if (std::isnan(got)) return false;
        long double d = fabsl((long double)got - want);
        return d <= 1e-12L || d <= 1e-9L * fabsl(want);
    }

    // opkind: 0 add, 1 operator+, 2 operator+=
    void verify(int opkind, const A& r, const Ref& ref, const std::string& what) const {
        static const char* OPN[3] = {"add", "operator+", "operator+="};
        auto bad = [&](const char* acc, bool isnan_, const std::string& got, const std::string& want) {
            ++g_nfail;
            int slot = opkind * 2 + (isnan_ ? 1 : 0);
            if (nprinted[slot]++ >= 2) return;
            vh::fail(vh::fmt("Aggregate<%s>::%s/%s", TN<T>::name, OPN[opkind], isnan_ ? "nan" : "mismatch"), cur_replay(),
                     vh::fmt("%s: %s tlx=%s ref=%s", what.c_str(), acc, got.c_str(), want.c_str()));
        };
        auto num = [](long double v) { return vh::fmt("%.17Lg", v); };
        ++g_ncmp;
        if (r.count() != ref.n) bad("count()", false, num(r.count()), num(ref.n));
        const A dflt;
        const T wmn = ref.n ? ref.mn : dflt.min(), wmx = ref.n ? ref.mx : dflt.max();
        ++g_ncmp;
        if (!(r.min() == wmn)) bad("min()", false, num(r.min()), num(wmn));
        ++g_ncmp;
        if (!(r.max() == wmx)) bad("max()", false, num(r.max()), num(wmx));
        if (ref.n) {
            ++g_ncmp;
            if (!(r.span() == (T)(ref.mx - ref.mn))) bad("span()", false, num(r.span()), num(ref.mx - ref.mn));
        }
        const long double wmean = ref.n ? ref.mean : (long double)dflt.mean();
        double m3[3] = {r.mean(), r.avg(), r.average()};
        for (double m : m3) {
            ++g_ncmp;
            if (!close_(m, wmean)) bad("mean()", std::isnan(m), num(m), num(wmean));
        }
        for (size_t ddof = 0; ddof <= 1; ++ddof) {
            // count <= 1: tlx defines the variance as 0 (see variance()); else nvar / (n - ddof)
            const long double wv = ref.n <= 1 ? 0.0L : ref.nvar / (long double)(ref.n - ddof);
            double v2[2] = {r.variance(ddof), r.var(ddof)};
            for (double v : v2) {
                ++g_ncmp;
                if (!close_(v, wv)) bad(ddof ? "variance(1)" : "variance(0)", std::isnan(v), num(v), num(wv));
            }
            double s2[2] = {r.standard_deviation(ddof), r.stdev(ddof)};
            for (double s : s2) {
                ++g_ncmp;
                if (!close_(s, sqrtl(wv))) bad(ddof ? "stdev(1)" : "stdev(0)", std::isnan(s), num(s), num(sqrtl(wv)));
            }
        }
        {  // default argument = 1
            ++g_ncmp;
            const long double wv = ref.n <= 1 ? 0.0L : ref.nvar / (long double)(ref.n - 1);
            if (!close_(r.variance(), wv)) bad("variance()", std::isnan(r.variance()), num(r.variance()), num(wv));
        }
        seen(O_aggcount, (int)ref.n);
    }

    void pair(size_t ia, size_t ib) const {
        ++g_ninputs;
        g_in.fam = AggVals<T>::fam, g_in.a = ia, g_in.b = ib;
        const Operand &oa = ops[ia], &ob = ops[ib];
        std::vector<T> all = lists[oa.list], all_rev = lists[ob.list];
        all.insert(all.end(), lists[ob.list].begin(), lists[ob.list].end());
        all_rev.insert(all_rev.end(), lists[oa.list].begin(), lists[oa.list].end());
        const Ref ref = reference(all);
        const std::string d = "A=" + show(oa) + " B=" + show(ob);
        const A a = build(oa), b = build(ob);
        verify(1, a + b, ref, d + " A+B");
        verify(1, b + a, ref, d + " B+A");
        {
            A x = a;
            A& ret = (x += b);
            verify(2, x, ref, d + " A+=B");
            ++g_ncmp;
            if (&ret != &x) vh::fail(vh::fmt("Aggregate<%s>::operator+=/mismatch", TN<T>::name), cur_replay(), "operator+= does not return *this");
        }
        {
            A y = b;
            y += a;
            verify(2, y, ref, d + " B+=A");
        }
        verify(0, fed(all, 0, all.size()), ref, d + " one Aggregate fed A's then B's values");
        verify(0, fed(all_rev, 0, all_rev.size()), ref, d + " one Aggregate fed B's then A's values");
    }
};

// ---------------------------------------------------------------------------------------------

struct Case {
    int fam;  // 0 u8, 1 i8, 2 u16, 3 i16, 4 p8u, 5 p8i, 6 v64, 7 pcb, 8 grid, 9 aggd, 10 aggi
    uint64_t lo, hi;
};

int main(int argc, char** argv) {
    vh::init(argc, argv);
    build_tables();
    self_check();
    const std::vector<uint64_t> S64 = structured(64, vh::args().thorough());
    const Agg<double> aggd;
    const Agg<int> aggi;

    std::vector<Case> cases;
    cases.push_back({0, 0, 256});
    cases.push_back({1, 0, 256});
    for (uint64_t b = 0; b < 65536; b += 4096) cases.push_back({2, b, b + 4096}), cases.push_back({3, b, b + 4096});
    for (uint64_t b = 0; b < 256; b += 16) cases.push_back({4, b, b + 16}), cases.push_back({5, b, b + 16});
    for (uint64_t b = 0; b < S64.size(); b += 128) cases.push_back({6, b, std::min<uint64_t>(b + 128, S64.size())});
    for (uint64_t len = 0; len <= 24; ++len)
        for (uint64_t al = 0; al < 8; ++al) cases.push_back({7, len, al});
    for (uint64_t k = 0; k < NGRID; ++k) cases.push_back({8, k, 0});
    for (uint64_t i = 0; i < aggd.ops.size(); ++i) cases.push_back({9, i, 0});
    for (uint64_t i = 0; i < aggi.ops.size(); ++i) cases.push_back({10, i, 0});

    auto run_case = [&](uint64_t id) {
        const Case& c = cases[id];
        vh::at("c20", vh::fmt("case:%llx:0", (unsigned long long)id));
        switch (c.fam) {
        case 0: g_in.fam = "u8"; for (uint64_t v = c.lo; v < c.hi; ++v) u8_value((uint8_t)v); break;
        case 1: g_in.fam = "i8"; for (uint64_t v = c.lo; v < c.hi; ++v) small_value<int8_t>((int8_t)(uint8_t)v); break;
        case 2: g_in.fam = "u16"; for (uint64_t v = c.lo; v < c.hi; ++v) u16_value((uint16_t)v); break;
        case 3: g_in.fam = "i16"; for (uint64_t v = c.lo; v < c.hi; ++v) small_value<int16_t>((int16_t)(uint16_t)v); break;
        case 4:
            g_in.fam = "p8u";
            for (uint64_t a = c.lo; a < c.hi; ++a)
                for (unsigned b = 0; b < 256; ++b) pair8<uint8_t>((uint8_t)a, (uint8_t)b);
            break;
        case 5:
            g_in.fam = "p8i";
            for (uint64_t a = c.lo; a < c.hi; ++a)
                for (unsigned b = 0; b < 256; ++b) pair8<int8_t>((int8_t)(uint8_t)a, (int8_t)(uint8_t)b);
            break;
        case 6: g_in.fam = "v64"; for (uint64_t i = c.lo; i < c.hi; ++i) v64_value(S64[i]); break;
        case 7: g_in.fam = "pcb"; pcb_case(c.lo, c.hi); break;
        case 8: g_in.fam = GRID_FAM[c.lo]; grid_dispatch((int)c.lo, true, 0, 0); break;
        case 9: for (size_t j = 0; j < aggd.ops.size(); ++j) aggd.pair(c.lo, j); break;
        case 10: for (size_t j = 0; j < aggi.ops.size(); ++j) aggi.pair(c.lo, j); break;
        }
        flush_case();
    };

    if (vh::args().has_replay) {
        return vh::replay_one([&](const std::string& r) {
            std::string fam;
            uint64_t a, b;
            if (!parse_replay(r, &fam, &a, &b)) return;
            if (fam == "case") {
                if (a < cases.size()) run_case(a);
                return;
            }
            for (int k = 0; k < NGRID; ++k)
                if (fam == GRID_FAM[k]) g_in.fam = GRID_FAM[k], grid_dispatch(k, false, a, b);
            if (fam == "u8") g_in.fam = "u8", u8_value((uint8_t)a);
            if (fam == "i8") g_in.fam = "i8", small_value<int8_t>((int8_t)(uint8_t)a);
            if (fam == "u16") g_in.fam = "u16", u16_value((uint16_t)a);
            if (fam == "i16") g_in.fam = "i16", small_value<int16_t>((int16_t)(uint16_t)a);
            if (fam == "p8u") g_in.fam = "p8u", pair8<uint8_t>((uint8_t)a, (uint8_t)b);
            if (fam == "p8i") g_in.fam = "p8i", pair8<int8_t>((int8_t)a, (int8_t)b);
            if (fam == "v64") g_in.fam = "v64", v64_value(a);
            if (fam == "pcb") g_in.fam = "pcb", pcb_case(a, b);
            if (fam == "aggd" && a < aggd.ops.size() && b < aggd.ops.size()) aggd.pair(a, b);
            if (fam == "aggi" && a < aggi.ops.size() && b < aggi.ops.size()) aggi.pair(a, b);
            flush_case();
        });
    }
    if (vh::args().shard == 0) {
        vh::sample("int8_t x=-128: clz_template=0 ctz_template=7 ffs_template=8 is_power_of_two_template=false sgn=-1; "
                   "log2/round_up skipped (x<1)");
        vh::sample(vh::fmt("v64: %zu structured 64-bit patterns, e.g. 0x%llx: all overloads for long/unsigned long/long "
                           "long/unsigned long long + templates, popcount_generic64, bswap64, rol64/ror64 x 64 shifts",
                           S64.size(), (unsigned long long)S64[S64.size() / 2]));
        vh::sample(vh::fmt("grid<int> has %zu values, grid<unsigned long> %zu: div_ceil/round_up/abs_diff on all pairs, e.g. "
                           "div_ceil(0xffffffffffffffff, 2)",
                           grid<int>().size(), grid<unsigned long>().size()));
        vh::sample(vh::fmt("Aggregate<double>: %zu lists -> %zu operands (fed / prefix+suffix), %zu pairs; e.g. A=[-2,0.5](add) "
                           "B=[1e6](first 0 + rest): A+B, B+A, A+=B, B+=A, one fed all vs two-pass reference",
                           aggd.lists.size(), aggd.ops.size(), aggd.ops.size() * aggd.ops.size()));
    }
    vh::run_cases(cases.size(), run_case);
    return vh::finish();
}
