from vlib import Harness, NCPU


def plan(tier):
    h = Harness("c18_string_view", ["harness/c18_string_view.cpp"], flavor="asan")
    return {
        "harnesses": [h],
        "runs": [(h, ["--tier", tier], NCPU)],
        "states_key": "cases", "transitions_key": "comparisons", "traces_key": "comparisons",
        "distinct_key": "cases",
        "rule": "every (haystack, needle) pair over the alphabet {0x00,'a','b',0x80} with |h|<=%d, |n|<=%d; per pair every query "
                "form with every pos/n in {0..|h|+2, npos-1, npos}; a case is one distinct pair (all are distinct; trivial = none)"
                % ((4, 3) if tier == "thorough" else (3, 2)),
        "assumptions": ["libstdc++ std::string_view is the reference", "calls restricted to where std::string_view is defined",
                        "alphabet of 4 bytes and the stated length bound"],
    }
