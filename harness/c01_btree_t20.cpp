// C01/C02 type configurations, group 20 (see c01_btree.hpp; C01_TYPE(kind, greater, leaf, inner, search 0=linear 1=binary 2=default traits, element))
#include "c01_btree.hpp"
C01_TYPE(MAP, true, 9, 8, 1, int)
C01_TYPE(MSET, false, 9, 8, 0, int)
C01_TYPE(SET, false, 9, 9, 0, int)
C01_TYPE(MMAP, true, 9, 9, 1, int)
C01_TYPE(SET, false, 8, 8, 2, int)
C01_TYPE(MMAP, true, 8, 8, 2, int)
C01_TYPE(MAP, false, 8, 8, 2, int)
