// C13 — heaps: main() of the c13_heaps harness (see c13_common.hpp for the layout of the TUs).
//
// Collects the configurations of the tier, balances them over the shards (longest-processing-time-first on
// the cost estimates; deterministic), runs the BFS of every configuration owned by this shard.
// Options:  only=<substring>  run only configurations whose name contains the substring (debugging)
//           below_top=1       RadixHeap: allow pushes below the key last returned by top() (see c13_radix_heap.hpp)
//           maxkey=0|1        RadixHeap: force the BFS alphabet without/with the largest key (default: automatic)
//           depth=<d> tsize=<n> ntables=<n> nk=<n> afull=<n>   override the tier's bounds (experiments)
// Built twice by checks/C13.py: ASan with asserts (everything) and ASan -DNDEBUG -DC13_RADIX_ONLY (RadixHeap only).
// Replay string: <configuration name>|<op,op,...>
#include <sys/resource.h>

#include <algorithm>

#include "c13_common.hpp"

namespace c13 {
Ctx* g_ctx = nullptr;
}

// glibc's assert() ends in __assert_fail(); this replacement prints the same line but with the function name reduced to
// `ns::Class::function` (template arguments and parameter list removed), so that the failure signature derived from it
// does not depend on the instantiation, and aborts as the original does.
extern "C" void __assert_fail(const char* expr, const char* file, unsigned int line, const char* func) noexcept {
    std::string f = func ? func : "?", o;
    size_t par = std::string::npos;
    int depth = 0;
    for (size_t i = 0; i < f.size(); ++i) {  // position of the parameter list's '(' at template depth 0
        if (f[i] == '<') depth++;
        else if (f[i] == '>') depth--;
        else if (f[i] == '(' && depth == 0 && (i < 8 || f.compare(i - 8, 8, "operator") != 0)) {
            par = i;
            break;
        }
    }
    if (par != std::string::npos) f = f.substr(0, par);
    depth = 0;
    for (char ch : f) {  // drop template arguments
        if (ch == '<') depth++;
        else if (ch == '>') depth--;
        else if (depth == 0) o += ch;
    }
    size_t sp = o.rfind(' ');  // drop the return type
    if (sp != std::string::npos) o = o.substr(sp + 1);
    fprintf(stderr, "%s:%u: %s: Assertion `%s' failed.\n", file, line, o.c_str(), expr);
    fflush(stderr);
    abort();
}

int main(int argc, char** argv) {
    vh::init(argc, argv);
    bool T = vh::args().thorough();
    std::vector<c13::Config> cfgs;
#ifndef C13_RADIX_ONLY  /* the NDEBUG build of this harness contains the RadixHeap configurations only */
    c13::register_dary_1(cfgs, T);
    c13::register_dary_2(cfgs, T);
    c13::register_dary_3(cfgs, T);
    c13::register_dary_4(cfgs, T);
    c13::register_addr_1(cfgs, T);
    c13::register_addr_2(cfgs, T);
    c13::register_addr_3(cfgs, T);
#endif
    c13::register_radix_1(cfgs, T);
    c13::register_radix_2(cfgs, T);
    c13::register_radix_3(cfgs, T);
    c13::register_radix_4(cfgs, T);
    c13::register_radix_5(cfgs, T);
    c13::register_radix_6(cfgs, T);
    c13::register_radix_7(cfgs, T);
    c13::register_radix_8(cfgs, T);

    if (vh::args().has_replay) {
        return vh::replay_one([&](const std::string& r) {
            size_t bar = r.rfind('|');
            std::string cfg = r.substr(0, bar), h = bar == std::string::npos ? "" : r.substr(bar + 1);
            for (auto& c : cfgs)
                if (c.name == cfg) {
                    c.replay(h);
                    return;
                }
            vh::out_line("ERROR unknown configuration in replay string: " + cfg);
        });
    }

    std::string only = vh::args().opt("only");
    if (!only.empty()) {
        std::vector<c13::Config> f;
        for (auto& c : cfgs)
            if (c.name.find(only) != std::string::npos) f.push_back(c);
        cfgs.swap(f);
    }

    int sh = vh::args().shard, n = vh::args().nshards;
    std::vector<size_t> order(cfgs.size());
    for (size_t i = 0; i < order.size(); ++i) order[i] = i;
    std::stable_sort(order.begin(), order.end(), [&](size_t a, size_t b) { return cfgs[a].cost > cfgs[b].cost; });
    std::vector<double> load(n, 0.0);
    std::vector<size_t> mine;
    for (size_t i : order) {
        int best = 0;
        for (int s = 1; s < n; ++s)
            if (load[s] < load[best]) best = s;
        load[best] += cfgs[i].cost;
        if (best == sh) mine.push_back(i);
    }
    // one written-out sample per heap class (the first configuration of each class, whoever owns it)
    std::set<std::string> sampled;
    for (size_t i = 0; i < cfgs.size(); ++i) {
        std::string cls = cfgs[i].name.substr(0, cfgs[i].name.find('<'));
        if (cfgs[i].sample.empty() || !sampled.insert(cls).second) continue;
        if (std::find(mine.begin(), mine.end(), i) != mine.end()) vh::out_line("SAMPLE " + cfgs[i].sample);
    }
    for (size_t i : mine) {
        double t0 = vh::now();
        vh::disabled_labels().clear();  // crash classes are per instantiation; do not carry them over to the next configuration
        struct rusage ru0, ru1;
        getrusage(RUSAGE_CHILDREN, &ru0);
        cfgs[i].run();
        getrusage(RUSAGE_CHILDREN, &ru1);
        double cpu = (ru1.ru_utime.tv_sec - ru0.ru_utime.tv_sec) + 1e-6 * (ru1.ru_utime.tv_usec - ru0.ru_utime.tv_usec) +
                     (ru1.ru_stime.tv_sec - ru0.ru_stime.tv_sec) + 1e-6 * (ru1.ru_stime.tv_usec - ru0.ru_stime.tv_usec);
        vh::note(vh::fmt("%s: wall %.1fs cpu %.1fs (shard %d)", cfgs[i].name.c_str(), vh::now() - t0, cpu, sh));
        vh::stat_add("configurations");
    }
    return vh::finish();
}
