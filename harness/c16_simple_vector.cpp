// C16 (SimpleVector part) — element lifetimes and contents of tlx::SimpleVector across construction, resize,
// destroy(), fill, move, swap and destruction; explicit-state closure over operation histories (engine E2).
//
// State: two vectors u (index 0) and w (index 1), each absent or a real tlx::SimpleVector<T, Mode>, with a
// std::vector<int> model next to it (-1 = indeterminate value: `new int[n]` and the NoInit modes do not initialise).
// Configurations: Normal with Tracked, Normal with int, NoInitButDestroy with int, NoInitNoDestroy with int (with
// non-trivial element types the NoInit modes hand the lifetime to the user by design, so they are not driven).
//
// Mutating ops: ctor(x,n) n in 0..4, default_ctor(x), write(x,i,v) [v[i] = value 0|1 through operator[]], fill(x,v),
//   fill_default(x) [fill()], resize(x,m) m in 0..5, destroy(x) [the member destroy()], move_ctor(x<-y),
//   move_assign(x<-y), self_move_assign(x), swap(u,w), self_swap(x), destruct(x) [destructor].
// Read-only queries (observe): size, data, begin/end/cbegin/cend and iteration, operator[] / at() (const and
// non-const) for every index, front/back on non-empty vectors.
// Contract enforced by the driver: indices < size(); front/back only on non-empty vectors.
// Reduction: a vector is constructed with / resized to more than 2 elements only while the other one is absent or
// holds <= 2 elements (both vectors share nothing).
//
// Oracles after every transition: size and contents == model (resize keeps the first min(old,new) elements,
// new Tracked elements are default-constructed, move/swap carry the very same objects, write/fill assign in place);
// Tracked live-set == exactly the stored elements; ASan (new[]/delete[] mismatch, out-of-array access).
#include <tlx/container/simple_vector.hpp>


#include "c16_common.hpp"
#include "hist/vhist.hpp"

using namespace c16;

static const char* mode_name(tlx::SimpleVectorMode m) {
    switch (m) {
    case tlx::SimpleVectorMode::Normal: return "Normal";
    case tlx::SimpleVectorMode::NoInitButDestroy: return "NoInitButDestroy";
    default: return "NoInitNoDestroy";
    }
}

template <class T, tlx::SimpleVectorMode Mode>
struct SVSystem {
    typedef tlx::SimpleVector<T, Mode> SV;
    typedef ElemOps<T> E;
    // value a freshly created slot holds: default-constructed Tracked, indeterminate int
    static const int kFresh = E::tracked ? (int)kDefaultValue : -1;
    // value_type(): Tracked() or int() == 0
    static const int kValueInit = E::tracked ? (int)kDefaultValue : 0;

    struct MElem {
        int v;
        long serial;
    };
    struct Vec {
        Holder<SV> sv;
        bool present = false;
        std::vector<MElem> m;
    };
    struct State {
        Ledger ledger;
        Vec x[2];
        bool tainted = false;
        State() { led() = &ledger; }
        ~State() {
            led() = &ledger;
            bool q0 = quiet();
            if (tainted) quiet() = true;
            if (!teardown_begin()) {
                x[1].sv.leak();
                x[0].sv.leak();
                quiet() = q0;
                return;
            }
            x[1].sv.reset();
            x[0].sv.reset();
            teardown_end();
            if (!ledger.live.empty()) report("element-leaked", vh::fmt("%zu element(s) still alive after both vectors were destroyed", ledger.live.size()));
            quiet() = q0;
        }
    };

    std::string name() { return vh::fmt("SV<%s,%s>", E::name(), mode_name(Mode)); }
    std::unique_ptr<State> fresh() {
        guard_collect();
        return std::unique_ptr<State>(new State());
    }

    enum Kind { K_CTOR = 1, K_DEFCTOR, K_WRITE, K_FILL, K_FILL_DEFAULT, K_RESIZE, K_DESTROY, K_MOVECTOR, K_MOVEASSIGN, K_SELF_MOVEASSIGN, K_SWAP, K_SELF_SWAP, K_DESTRUCT, K_LAST };
    static uint32_t enc(int k, int x, int arg = 0) { return k * 1000 + x * 100 + arg; }
    static const char* label(int k) {
        static const char* n[] = {"?", "ctor", "default_ctor", "write", "fill", "fill_default", "resize", "destroy", "move_ctor", "move_assign",
                                  "self_move_assign", "swap", "self_swap", "destruct"};
        return k > 0 && k < K_LAST ? n[k] : "?";
    }
    std::string op_name(uint32_t op) {
        int k = op / 1000, x = (op / 100) % 10, arg = op % 100;
        const char* xs = x ? "w" : "u";
        const char* ys = x ? "u" : "w";
        switch (k) {
        case K_CTOR: case K_FILL: case K_RESIZE: return vh::fmt("%s(%s,%d)", label(k), xs, arg);
        case K_WRITE: return vh::fmt("write(%s,%d,%d)", xs, arg / 2, arg % 2);
        case K_MOVECTOR: case K_MOVEASSIGN: return vh::fmt("%s(%s<-%s)", label(k), xs, ys);
        case K_SWAP: return "swap(u,w)";
        default: return vh::fmt("%s(%s)", label(k), xs);
        }
    }

    static bool small(const Vec& v) { return !v.present || v.m.size() <= 2; }

    std::vector<uint32_t> ops(const State& s) {
        std::vector<uint32_t> r;
        for (int x = 0; x < 2; ++x) {
            const Vec &X = s.x[x], &Y = s.x[1 - x];
            if (!X.present) {
                r.push_back(enc(K_DEFCTOR, x));
                for (int n = 0; n <= 4; ++n)
                    if (n <= 2 || small(Y)) r.push_back(enc(K_CTOR, x, n));
                continue;
            }
            for (size_t i = 0; i < X.m.size(); ++i)
                for (int v = 0; v < 2; ++v) r.push_back(enc(K_WRITE, x, (int)i * 2 + v));
            for (int v = 0; v < 2; ++v) r.push_back(enc(K_FILL, x, v));
            r.push_back(enc(K_FILL_DEFAULT, x));
            for (int m = 0; m <= 5; ++m)
                if (m <= 2 || small(Y)) r.push_back(enc(K_RESIZE, x, m));
            r.push_back(enc(K_DESTROY, x));
        }
        for (int x = 0; x < 2; ++x) {
            const Vec &X = s.x[x], &Y = s.x[1 - x];
            if (!X.present) {
                if (Y.present) r.push_back(enc(K_MOVECTOR, x));
                continue;
            }
            if (Y.present) r.push_back(enc(K_MOVEASSIGN, x));
            r.push_back(enc(K_SELF_MOVEASSIGN, x));
            if (x == 0 && Y.present) r.push_back(enc(K_SWAP, 0));
            r.push_back(enc(K_SELF_SWAP, x));
            r.push_back(enc(K_DESTRUCT, x));
        }
        return r;
    }

    void apply(State& s, uint32_t op) {
        led() = &s.ledger;
        unsigned long long f0 = fail_count();
        int k = op / 1000, x = (op / 100) % 10, arg = op % 100;
        Vec &X = s.x[x], &Y = s.x[1 - x];
        switch (k) {
        case K_CTOR:
            X.sv.emplace((size_t)arg);
            X.present = true;
            X.m.assign((size_t)arg, MElem{kFresh, -1});
            break;
        case K_DEFCTOR:
            X.sv.emplace();
            X.present = true;
            X.m.clear();
            break;
        case K_WRITE: {
            T t = E::make(arg % 2);
            (*X.sv)[(size_t)(arg / 2)] = t;  // assignment in place: the stored object stays the same
            X.m[(size_t)(arg / 2)].v = arg % 2;
            break;
        }
        case K_FILL: {
            T t = E::make(arg);
            X.sv->fill(t);
            for (auto& e : X.m) e.v = arg;
            break;
        }
        case K_FILL_DEFAULT:
            X.sv->fill();
            for (auto& e : X.m) e.v = kValueInit;
            break;
        case K_RESIZE: {
            size_t keep = std::min(X.m.size(), (size_t)arg);
            std::vector<MElem> nm((size_t)arg, MElem{kFresh, -1});
            for (size_t i = 0; i < keep; ++i) nm[i].v = X.m[i].v;  // values kept, objects are new
            X.sv->resize((size_t)arg);
            X.m.swap(nm);
            break;
        }
        case K_DESTROY:
            X.sv->destroy();
            X.m.clear();
            break;
        case K_MOVECTOR:
            X.sv.emplace(std::move(*Y.sv));
            X.present = true;
            X.m = std::move(Y.m);
            Y.m.clear();
            break;
        case K_MOVEASSIGN:
            *X.sv = std::move(*Y.sv);
            X.m = std::move(Y.m);
            Y.m.clear();
            break;
        case K_SELF_MOVEASSIGN: {
            SV* self = &*X.sv;
            *X.sv = std::move(*self);  // simple_vector.hpp handles this explicitly: no-op
            break;
        }
        case K_SWAP:
            s.x[0].sv->swap(*s.x[1].sv);
            s.x[0].m.swap(s.x[1].m);
            break;
        case K_SELF_SWAP:
            X.sv->swap(*X.sv);
            break;
        case K_DESTRUCT:
            X.sv.reset();
            X.present = false;
            X.m.clear();
            break;
        default:
            vh::fail_here("harness-bad-op", vh::fmt("op %u", op));
        }
        post_check(s);
        if (fail_count() != f0) s.tainted = true;
    }

    void post_check(State& s) {
        size_t stored = 0;
        std::set<const void*> stored_addr;
        for (int x = 0; x < 2; ++x) {
            Vec& X = s.x[x];
            const char* xs = x ? "w" : "u";
            if (!X.present) continue;
            SV& sv = *X.sv;
            if (sv.size() != X.m.size()) {
                vh::fail_here("size-mismatch", vh::fmt("%s.size()=%zu model %zu", xs, sv.size(), X.m.size()));
                return;
            }
            if (!X.m.empty() && sv.data() == nullptr) {
                vh::fail_here("no-storage", vh::fmt("%s.size()=%zu but data() == nullptr", xs, sv.size()));
                return;
            }
            for (size_t i = 0; i < X.m.size(); ++i) {
                const T* e = sv.data() + i;
                stored_addr.insert(e);
                if (!E::live(e)) {
                    vh::fail_here("element-destroyed-while-stored", vh::fmt("%s[%zu] of %zu is stored but its object is not alive", xs, i, X.m.size()));
                    return;
                }
                if (X.m[i].v >= 0 && E::value(*e) != X.m[i].v) {
                    vh::fail_here("content-mismatch", vh::fmt("%s[%zu]=%d model %d", xs, i, E::value(*e), X.m[i].v));
                    return;
                }
                if (X.m[i].serial < 0) X.m[i].serial = E::serial(*e);
                else if (E::serial(*e) != X.m[i].serial) {
                    vh::fail_here("element-identity-changed", vh::fmt("%s[%zu] is object #%ld, model says object #%ld", xs, i, E::serial(*e), X.m[i].serial));
                    return;
                }
            }
            stored += X.m.size();
        }
        if (E::tracked && s.ledger.live.size() != stored) {
            size_t extra = 0;
            for (auto& kv : s.ledger.live)
                if (!stored_addr.count(kv.first)) extra++;
            vh::fail_here("element-leaked", vh::fmt("%zu element(s) alive but the vectors store %zu: %zu object(s) are alive without being stored",
                                                    s.ledger.live.size(), stored, extra));
        }
    }

    void observe(State& s) {
        led() = &s.ledger;
        unsigned long long f0 = fail_count();
        for (int x = 0; x < 2; ++x) {
            Vec& X = s.x[x];
            const char* xs = x ? "w" : "u";
            if (!X.present) continue;
            SV& sv = *X.sv;
            const SV& csv = sv;
            size_t n = X.m.size();
            if (csv.size() != n) {
                vh::fail_here("size-mismatch", vh::fmt("%s.size()=%zu model %zu", xs, csv.size(), n));
                continue;
            }
            if (sv.begin() != sv.data() || csv.begin() != csv.data() || csv.cbegin() != csv.data() || csv.data() != sv.data())
                vh::fail_here("begin-mismatch", vh::fmt("%s: begin()/cbegin()/data() disagree", xs));
            if ((size_t)(sv.end() - sv.begin()) != n || (size_t)(csv.end() - csv.begin()) != n || (size_t)(csv.cend() - csv.cbegin()) != n)
                vh::fail_here("end-mismatch", vh::fmt("%s: end()-begin() != size()", xs));
            size_t i = 0;
            for (const T& e : csv) {
                if (i < n && X.m[i].v >= 0 && E::value(e) != X.m[i].v) vh::fail_here("iteration-mismatch", vh::fmt("%s: element %zu = %d model %d", xs, i, E::value(e), X.m[i].v));
                ++i;
            }
            if (i != n) vh::fail_here("iteration-count", vh::fmt("%s: iterated %zu elements, size %zu", xs, i, n));
            for (i = 0; i < n; ++i) {
                const T* e = csv.data() + i;
                if (&sv[i] != e || &csv[i] != e || &sv.at(i) != e || &csv.at(i) != e) vh::fail_here("operator[]-mismatch", vh::fmt("%s: operator[]/at(%zu) is not data()+%zu", xs, i, i));
            }
            if (n > 0) {
                if (&sv.front() != csv.data() || &csv.front() != csv.data()) vh::fail_here("front-mismatch", vh::fmt("%s.front() is not element 0", xs));
                if (&sv.back() != csv.data() + (n - 1) || &csv.back() != csv.data() + (n - 1)) vh::fail_here("back-mismatch", vh::fmt("%s.back() is not element size-1", xs));
            }
            vh::outcome(vh::fmt("%s size=%zu array=%s", xs, n, sv.array_ ? "set" : "null"));
        }
        if (fail_count() != f0) s.tainted = true;
    }

    std::string canon(const State& s) {
        std::string c;
        for (int x = 0; x < 2; ++x) {
            const Vec& X = s.x[x];
            if (!X.present) {
                c += "_|";
                continue;
            }
            c += vh::fmt("n%zu p%d [", X.sv->size_, X.sv->array_ ? 1 : 0);
            for (auto& e : X.m) c += e.v < 0 ? '?' : (char)('0' + e.v);  // == real contents where determinate (checked after every transition)
            c += "]|";
        }
        return c;
    }
};

template <class Sys>
static void run_one(Sys& sys, StatKeeper& keep) {
    guard_reset();
    vhist::Options opt;  // closure
    vhist::run_config(sys, opt);
    keep.harvest();
    keep.sum["configurations"] += 1;
}

int main(int argc, char** argv) {
    vh::init(argc, argv);
    guard_init();
    SVSystem<Tracked, tlx::SimpleVectorMode::Normal> s0;
    SVSystem<int, tlx::SimpleVectorMode::Normal> s1;
    SVSystem<int, tlx::SimpleVectorMode::NoInitButDestroy> s2;
    SVSystem<int, tlx::SimpleVectorMode::NoInitNoDestroy> s3;
    if (vh::args().has_replay) {
        return vh::replay_one([&](const std::string& r) {
            size_t bar = r.find('|');
            std::string cfg = r.substr(0, bar), h = bar == std::string::npos ? "" : r.substr(bar + 1);
            if (cfg == s0.name()) vhist::replay_config(s0, h);
            else if (cfg == s1.name()) vhist::replay_config(s1, h);
            else if (cfg == s2.name()) vhist::replay_config(s2, h);
            else if (cfg == s3.name()) vhist::replay_config(s3, h);
            else vh::out_line("ERROR bad replay string " + r);
        });
    }
    int sh = vh::args().shard, n = vh::args().nshards;
    if (sh == 0)
        vh::sample("SV<Tracked,Normal>: ctor(u,3) write(u,1,1) resize(u,5) default_ctor(w) move_assign(w<-u) swap(u,w) fill(u,0) resize(u,2) "
                   "destroy(u) destruct(w) ... closure over all such histories; canonical state e.g. 'n5 p1 [71777]|n0 p0 []|'");
    StatKeeper keep;
    if (0 % n == sh) run_one(s0, keep);
    if (1 % n == sh) run_one(s1, keep);
    if (2 % n == sh) run_one(s2, keep);
    if (3 % n == sh) run_one(s3, keep);
    keep.restore();
    return vh::finish();
}
