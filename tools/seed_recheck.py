#!/usr/bin/env python3
"""tools/seed_recheck.py <seed-name>... [--tier quick|thorough]

Re-runs our checks against already confirmed seeded changes (seeded/<name>/patch.diff) after the machinery
changed: applies the patch to /repo, runs the checks recorded in meta.json, undoes the patch, and stores the
outcome under meta["recheck"].  Exit status 1 if a seed that used to be detected is now missed.
"""
import json
import os
import shutil
import subprocess
import sys
import time

VERIF = os.path.dirname(os.path.dirname(os.path.abspath(__file__)))


def sh(cmd, cwd=None, env=None, timeout=7200):
    r = subprocess.run(cmd, shell=True, cwd=cwd, stdout=subprocess.PIPE, stderr=subprocess.STDOUT, text=True, errors="replace", timeout=timeout, env=env)
    return r.returncode, r.stdout


def main():
    names = [a for a in sys.argv[1:] if not a.startswith("--")]
    tier = "quick"
    if "--tier" in sys.argv:
        tier = sys.argv[sys.argv.index("--tier") + 1]
        names = [n for n in names if n != tier]
    bad = 0
    for name in names:
        d = os.path.join(VERIF, "seeded", name)
        meta = json.load(open(os.path.join(d, "meta.json")))
        checks = [c for c, v in meta.get("checks", {}).items() if v.get("detected")] or [meta["property"]]
        if sh("git -C /repo status --porcelain -- tlx tests")[1].strip():
            print("refusing: /repo has local changes")
            return 2
        rc, o = sh("git -C /repo apply %s" % os.path.join(d, "patch.diff"))
        if rc != 0:
            print(name, "patch does not apply:", o[:200])
            bad += 1
            continue
        res = {}
        try:
            for c in checks:
                env = dict(os.environ)
                env["VERIF_OUT_DIR"] = "/tmp/seed_out_%s" % name
                t1 = time.time()
                rc, o = sh("bin/check %s --tier %s" % (c, tier), VERIF, env=env)
                viol = [l[:300] for l in o.splitlines() if l.startswith("VIOLATION")]
                res[c] = {"exit": rc, "violations": len(viol), "first_violations": viol[:3], "tier": tier, "wall_s": round(time.time() - t1, 1),
                          "detected": rc == 1 and len(viol) > 0}
        finally:
            sh("git -C /repo checkout -- .")
            shutil.rmtree("/tmp/seed_out_%s" % name, ignore_errors=True)
        meta["recheck"] = res
        json.dump(meta, open(os.path.join(d, "meta.json"), "w"), indent=1)
        det = any(v["detected"] for v in res.values())
        if not det:
            bad += 1
        print(name, "DETECTED" if det else "MISSED", {c: (v["violations"], [x.split("sig=")[-1][:90] for x in v["first_violations"][:2]]) for c, v in res.items()})
    return 1 if bad else 0


if __name__ == "__main__":
    sys.exit(main())
