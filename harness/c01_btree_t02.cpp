// C01/C02 type configurations, group 2 [quick tier] (see c01_btree.hpp; C01_TYPE(kind, greater, leaf, inner, search 0=linear 1=binary 2=default traits, element))
#include "c01_btree.hpp"
C01_TYPE(MSET, false, 5, 6, 0, int)
C01_TYPE(SET, false, 8, 8, 0, int)
