from vlib import Harness

# one configuration per shard (see harness/c17_splay.cpp / c17_lru.cpp main): the number of shards equals the number of
# configurations of the tier, so every configuration gets its own process (the harness also copes with fewer shards).
SPLAY_CONFIGS = {"quick": 10, "thorough": 9}
LRU_CONFIGS = {"quick": 4, "thorough": 4}


def plan(tier):
    t = "thorough" if tier == "thorough" else "quick"
    flags = ["-fno-access-control"]  # canonical state = private members (list_/map_, root_/size_)
    lru = Harness("c17_lru", ["harness/c17_lru.cpp"], flavor="asan", extra_flags=flags)
    splay = Harness("c17_splay", ["harness/c17_splay.cpp"], flavor="asan", extra_flags=flags)
    return {
        "harnesses": [lru, splay],
        "runs": [(lru, ["--tier", tier], LRU_CONFIGS[t]),
                 (splay, ["--tier", tier], SPLAY_CONFIGS[t])],
        "rule": "BFS closure (frontier empty) over operation histories, one closure per configuration. "
                "LRU: LruCacheSet<int> and LruCacheMap<int,int>, keys {0..3} (thorough: set {0..5}, map {0..4}), and the same with heap-owning std::string keys (3 keys; thorough: map 4, set 5; a moved-from key is empty, so a key read after a move or a dangling index entry is visible), values {0,1}; ops put, touch, "
                "touch_if_exists, erase, erase_if_exists, get_touch, pop (non-empty only), clear, incl. every op on absent keys (a thrown "
                "exception is a transition that must leave the state unchanged); states de-duplicated on the internal list_ (keys, values, "
                "order), the map_ index (key -> list position) and its bucket count. "
                "SplayTree quick: set flavour over keys {0..5} x {less/int, greater/int, less/Tracked}, multiset flavour over keys {0,1,2} with "
                "multiplicity <= 3 x {less/int, greater/int, greater/Tracked} and multiplicity <= 5 with at most 7 nodes (less/int). Thorough: set less/int over {0..8}, greater/int and less/Tracked "
                "over {0..7}; multiset less/int over {0,1,2} with multiplicity <= 5 and <= 12 nodes, greater/int and greater/Tracked with "
                "multiplicity <= 4, less/int over {0..3} with multiplicity <= 2 and over {0,1} with multiplicity <= 5. Both tiers: an unguarded "
                "2-key set configuration for ASan confirmation of dangling-node states. Ops insert, exists, find, erase(key), erase(node from "
                "find), clear, all enabled in every state incl. the empty tree and after clear(); states de-duplicated on (size_, tree shape "
                "with keys in pre-order with null markers). Every reached state is also destroyed under the allocation ledger / key registry. "
                "states = distinct canonical states, transitions = real tlx calls compared with the reference",
        "assumptions": [
            "key universes and multiplicity caps as stated (the driver does not insert a key beyond its cap); int and one heap-owning key type",
            "pop() only on a non-empty cache (documented: the user checks size()); erase(node) only with a non-null node returned by find()",
            "find(): only membership is compared (a neighbour or nullptr is accepted for an absent key)",
            "LruCacheMap::get() is treated as a query that does not touch (code and tests; its doc comment is a copy of get_touch()'s)",
            "states whose tree refers to freed nodes are reported and not explored further",
        ],
    }
