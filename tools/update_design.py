#!/usr/bin/env python3
"""Rewrites the generated tables of DESIGN.md (between BEGIN/END markers) from known-findings.txt and seeded/*/meta.json."""
import os
import re
import subprocess

HERE = os.path.dirname(os.path.dirname(os.path.abspath(__file__)))
d = open(os.path.join(HERE, "DESIGN.md")).read()

rows = []
for line in open(os.path.join(HERE, "known-findings.txt")):
    line = line.strip()
    m = re.match(r"fixed:\s+property=(\S+)\s+(\S+)\s+(.*)", line)
    if m:
        rows.append("| %s | fixed `%s` | %s |" % (m.group(1), m.group(2), m.group(3).replace("|", "\\|")))
    m = re.match(r"open:\s+property=(\S+)\s+sig=(\S+)\s+(.*)", line)
    if m:
        rows.append("| %s | **open** (`%s`) | %s |" % (m.group(1), m.group(2), m.group(3).replace("|", "\\|")))
rows.sort()
findings = "| prop | status | what failed (witness) |\n|---|---|---|\n" + "\n".join(rows)
seeds = subprocess.check_output(["python3", os.path.join(HERE, "tools", "seed_table.py")], text=True)


def put(doc, tag, body):
    b, e = "<!-- BEGIN:%s -->" % tag, "<!-- END:%s -->" % tag
    if b not in doc:
        raise SystemExit("marker %s missing" % tag)
    i, j = doc.index(b) + len(b), doc.index(e)
    return doc[:i] + "\n" + body.strip() + "\n" + doc[j:]


import importlib.util
import json
spec = importlib.util.spec_from_file_location("mkm", os.path.join(HERE, "tools", "mkmanifest.py"))
# read the CHECKS table without executing the generator part
src = open(os.path.join(HERE, "tools", "mkmanifest.py")).read()
ns = {}
exec(src[:src.index("NA = {}")], {"__file__": os.path.join(HERE, "tools", "mkmanifest.py"), "json": json, "os": os}, ns)
CHECKS = ns["CHECKS"]
for cid in sorted(set(re.findall(r"BEGIN:ASBUILT (C\d\d)", d))):
    c = CHECKS.get(cid)
    if not c:
        body = "**As built:** not registered (see `not_applicable` in MANIFEST.json)."
    else:
        body = "**As built** (engine `%s`): %s\n\n*Assumed / not covered:* %s" % (c["engine"], c["text"], c["note"])
        ev = os.path.join(HERE, "evidence", cid + ".json")
        if os.path.exists(ev):
            e = json.load(open(ev))
            cv = e["coverage"]
            body += ("\n\n*Last run in /verif (%s tier):* states=%d, transitions=%d, executions=%d, exhaustive=%s, wall=%.0fs (wall depends on machine load)."
                     % (e["tier"], cv.get("states", 0), cv.get("transitions", 0), cv.get("traces_validated_against_impl", 0), cv.get("exhaustive"), e["wall_s"]))
    d = put(d, "ASBUILT " + cid, body)

# behaviour-preserving changes (false-alarm test)
import glob
brow = []
for mf in sorted(glob.glob(os.path.join(HERE, "benign", "*", "meta.json"))):
    m = json.load(open(mf))
    desc = ""
    mt = os.path.join(os.path.dirname(mf).replace("-thorough", ""), "summary.txt")
    if os.path.exists(mt):
        desc = open(mt).read().strip().replace("\n", " ").replace("|", "\\|")
    ck = "; ".join("%s %s: %s" % (c, v["tier"], "silent" if v["silent"] else "**ALARM** exit=%s" % v["exit"]) for c, v in m["checks"].items())
    brow.append("| %s | %s | %d | %s | %s |" % (m["name"], ", ".join(m["files_changed"]), m.get("lines_changed", 0), desc, ck))
benign = "| change | files | +/- lines | what it does | our checks |\n|---|---|---|---|---|\n" + "\n".join(brow)
d = put(d, "BENIGN", benign)
d = put(d, "FINDINGS", findings)
d = put(d, "SEEDS", seeds)
open(os.path.join(HERE, "DESIGN.md"), "w").write(d)
print("DESIGN.md tables updated: %d findings" % len(rows))
