// par_common.hpp — element types shared by the C06 / C07 harnesses.
#pragma once
#include <atomic>
#include <cstdint>
#include <string>
#include <vector>

#include "common/vharness.hpp"

namespace par {

// trivially copyable element; the comparator looks at key only, tag = original position
struct Elem {
    uint32_t key;
    uint32_t tag;
};
struct ElemLess {
    bool operator()(const Elem& a, const Elem& b) const { return a.key < b.key; }
};

// heap-owning, lifetime-tracked element.  live() counts instances; real (not shimmed) atomics so
// that the counter itself is neither a scheduling point nor a TSan report.
struct Tracked {
    uint32_t key;
    uint32_t tag;
    int* heap;
    static ::std::atomic<long>& live() {
        static ::std::atomic<long> v(0);
        return v;
    }
    static ::std::atomic<long>& errors() {
        static ::std::atomic<long> v(0);
        return v;
    }
    Tracked() : key(0), tag(0), heap(new int(0x5a5a)) { live()++; }
    Tracked(uint32_t k, uint32_t t) : key(k), tag(t), heap(new int(0x5a5a)) { live()++; }
    Tracked(const Tracked& o) : key(o.key), tag(o.tag), heap(new int(0x5a5a)) {
        if (!o.heap || *o.heap != 0x5a5a) errors()++;
        live()++;
    }
    Tracked& operator=(const Tracked& o) {
        if (!o.heap || *o.heap != 0x5a5a || !heap || *heap != 0x5a5a) errors()++;
        key = o.key;
        tag = o.tag;
        return *this;
    }
    ~Tracked() {
        if (!heap || *heap != 0x5a5a) errors()++;
        else *heap = 0;
        delete heap;
        heap = nullptr;
        live()--;
    }
};
struct TrackedLess {
    bool operator()(const Tracked& a, const Tracked& b) const { return a.key < b.key; }
};

inline std::string keys_str(const std::vector<uint32_t>& k) {
    std::string s;
    for (uint32_t x : k) s += (char)('0' + (x % 10));
    return s.empty() ? "-" : s;
}
inline std::vector<uint32_t> parse_keys(const std::string& s) {
    std::vector<uint32_t> k;
    if (s == "-") return k;
    for (char c : s) k.push_back((uint32_t)(c - '0'));
    return k;
}

}  // namespace par
