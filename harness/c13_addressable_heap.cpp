// C13 — tlx::DAryAddressableIntHeap, arity 1..4 (see c13_addressable_heap.hpp for the driver/oracles).
#include "c13_addressable_heap.hpp"

namespace c13 {
void register_addr_a(std::vector<Config>& out, bool thorough) {
    add_addr<uint32_t, 1>(out, thorough, true, 10);
    add_addr<uint32_t, 2>(out, thorough, true, 20);
    add_addr<uint32_t, 3>(out, thorough, true, 30);
    add_addr<uint32_t, 4>(out, thorough, true, 40);
    // other key types (handles_ stores positions as key_type, not_present() = key_type(-1))
    add_addr<uint8_t, 2>(out, thorough, false, 20);
    add_addr<uint64_t, 3>(out, thorough, false, 30);
}
}  // namespace c13
