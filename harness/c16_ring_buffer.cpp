// C16 (RingBuffer part) — bounded-deque behaviour and exact element lifetimes of tlx::RingBuffer,
// explicit-state closure over operation histories (engine E2).
//
// State: two buffers a (index 0) and b (index 1), each absent or a real tlx::RingBuffer<T, A>, with a
// std::deque model next to it.  T/A = Tracked/CountingAllocator or int/std::allocator.
// One configuration = (element type, M0 = max_size a is constructed with, Mb = max_size b is
// constructed with).  Mb ranges over M0, a neighbour with the same rounded capacity but another
// max_size, and the nearest smaller / larger max_size with a different rounded capacity.
//
// Mutating ops (x = a or b, y = the other one):
//   ctor(x) [RingBuffer(M0|Mb)], default_ctor(x), copy_ctor(x<-y), move_ctor(x<-y), destroy(x) [destructor],
//   push_back_copy/push_back_move/emplace_back/push_front_copy/push_front_move/emplace_front (value 0|1),
//   pop_front, pop_back, clear, move_to (into a vector with exact capacity), copy_assign(x<-y),
//   move_assign(x<-y), self_copy_assign, self_move_assign, deallocate, allocate(m) (a: every m in 0..9, b: Mb).
// Read-only queries (observe): size, empty, max_size, front, back, operator[] for every index (const and
// non-const), copy_to into an exact-size vector.
//
// Contract enforced by the driver (ring_buffer.hpp documents it only through its asserts):
//   * push/emplace only while size() < max_size(); pop/front/back only on a non-empty buffer; operator[] only i < size()
//   * element operations only on a buffer that owns storage (constructed with a max_size, allocate()d, or
//     assigned/moved from such a buffer)
//   * allocate(m) only on a buffer without storage (assert(!data_)): default-constructed, deallocate()d or moved-from.
//     deallocate() is allowed in any state ("if (data_)").
//   * A copy of a buffer without storage is in an unspecified allocation state (the real code allocates a block of
//     the stale capacity); the driver then only destroys, deallocate()s, assigns or copies/moves it ("unknown").
//   * tests/container/ring_buffer_test.cpp pins down that copy- and move-assignment INTO a default-constructed buffer
//     is supported; assignment is therefore driven into every kind of target (also deallocate()d and moved-from ones).
//
// Reduction rules that keep the closure finite and small (they prune the driver's menu, not the oracles).
// "small" = absent or <= 2 elements; "calm" = absent, or without storage / allocated, empty, both cursors 0 and
// max_size_ 0 or the value it is constructed with in this configuration (M0 for a, Mb for b):
//   R1 b grows by its own pushes to at most 2 elements; so does a while its max_size differs from M0
//      (after allocate(m != M0) or after receiving b's state).
//   R2 single-buffer operations (push, pop, clear, move_to, self-assignment, deallocate, allocate) on x are driven
//      only while y is calm, or while both are small.  Otherwise x is frozen until y is destroyed or overwritten.
//   R3 while y is not calm x is pushed into only at the back, while it holds < 2 elements and begin_ == 0
//      (enough to make both buffers non-empty at the same time: assignment into a non-empty target).
//   R4 a.allocate(m) with m not in {0, M0, Mb} only while b is absent, and b is not constructed while a's
//      max_size_ is such an m (interplay of different capacities is what the Mb variants are for).
//   R5 RingBuffer(M) / RingBuffer() construct x only while y is small.
//   Copy/move construction, copy/move assignment in both directions and destruction are always driven, so every
//   reachable state of a (every cursor offset, size and 0/1 content) is a copy source, a move source and an
//   assignment target; assignment targets of the deallocate()d / "unknown" kind are met with <= 2 source elements.
//   Assumption behind R2/R3: two RingBuffers share nothing but the (stateless) allocator.
//
// Oracles after every transition: contents == model through operator[] (values, and for Tracked the serial of the
// object: an element stays the same object while it is stored), Tracked live-set == exactly the stored elements,
// allocator ledger (every block deallocated exactly once with its size, number of outstanding blocks == number of
// buffers owning storage), ASan.  Two invariants of the current representation ("cursor positions modulo the
// power-of-two capacity": a buffer with max_size > 0 has storage, begin_/end_ <= mask_) are ADVISORY only (NOTE, no
// verdict): the next in-contract push/front/back of such a state is explored anyway and fails observably (ASan, assert).
#include <tlx/container/ring_buffer.hpp>

#include <sys/resource.h>

#include <deque>

#include "c16_common.hpp"
#include "hist/vhist.hpp"

using namespace c16;

enum AllocKind { ABSENT = 0, NODATA, DEALLOC, ALLOC, UNKNOWN };
static const char kKindChar[] = {'_', 'n', 'd', 'A', 'u'};

static size_t rounded_capacity(size_t max_size) {
    size_t c = 1;
    while (c < max_size + 1) c <<= 1;
    return c;
}

template <class T, class A>
struct RBSystem {
    typedef tlx::RingBuffer<T, A> RB;
    typedef ElemOps<T> E;
    static const bool kCounting = E::tracked;

    struct MElem {
        int v;
        long serial;  // -1: not yet read from the real object
    };
    struct Buf {
        Holder<RB> rb;
        int kind = ABSENT;
        size_t max = 0;  // model max_size (meaningful while kind == ALLOC)
        std::deque<MElem> m;
    };
    struct State {
        Ledger ledger;
        Buf x[2];
        bool tainted = false;
        State() { led() = &ledger; }
        ~State() {
            led() = &ledger;
            bool q0 = quiet();
            if (tainted) quiet() = true;
            if (!teardown_begin()) {
                x[1].rb.leak();
                x[0].rb.leak();
                quiet() = q0;
                return;
            }
            x[1].rb.reset();
            x[0].rb.reset();
            teardown_end();
            if (!ledger.live.empty()) report("element-leaked", vh::fmt("%zu element(s) still alive after both buffers were destroyed", ledger.live.size()));
            if (!ledger.blocks.empty()) report("allocator-leak", vh::fmt("%zu allocator block(s) never deallocated", ledger.blocks.size()));
            quiet() = q0;
        }
    };

    size_t M0, Mb;
    RBSystem(size_t m0, size_t mb) : M0(m0), Mb(mb) {}

    std::string name() { return vh::fmt("RB<%s>/M%zu/b%zu", E::name(), M0, Mb); }
    std::unique_ptr<State> fresh() {
        guard_collect();
        return std::unique_ptr<State>(new State());
    }

    // ---- op encoding: kind * 1000 + x * 100 + arg
    enum Kind {
        K_CTOR = 1, K_DEFCTOR, K_EMPLACE_BACK, K_PUSH_BACK_COPY, K_PUSH_BACK_MOVE, K_EMPLACE_FRONT, K_PUSH_FRONT_COPY, K_PUSH_FRONT_MOVE,
        K_POP_FRONT, K_POP_BACK, K_CLEAR, K_MOVE_TO, K_COPYCTOR, K_MOVECTOR, K_COPYASSIGN, K_MOVEASSIGN, K_SELF_COPYASSIGN,
        K_SELF_MOVEASSIGN, K_DEALLOCATE, K_ALLOCATE, K_DESTROY, K_LAST
    };
    static uint32_t enc(int k, int x, int arg = 0) { return k * 1000 + x * 100 + arg; }
    static const char* label(int k) {
        static const char* n[] = {"?", "ctor", "default_ctor", "emplace_back", "push_back_copy", "push_back_move", "emplace_front",
                                  "push_front_copy", "push_front_move", "pop_front", "pop_back", "clear", "move_to", "copy_ctor",
                                  "move_ctor", "copy_assign", "move_assign", "self_copy_assign", "self_move_assign", "deallocate",
                                  "allocate", "destroy"};
        return k > 0 && k < K_LAST ? n[k] : "?";
    }
    std::string op_name(uint32_t op) {
        int k = op / 1000, x = (op / 100) % 10, arg = op % 100;
        const char* xs = x ? "b" : "a";
        const char* ys = x ? "a" : "b";
        switch (k) {
        case K_CTOR: return vh::fmt("ctor(%s,%zu)", xs, x ? Mb : M0);
        case K_EMPLACE_BACK: case K_PUSH_BACK_COPY: case K_PUSH_BACK_MOVE: case K_EMPLACE_FRONT: case K_PUSH_FRONT_COPY: case K_PUSH_FRONT_MOVE:
        case K_ALLOCATE: return vh::fmt("%s(%s,%d)", label(k), xs, arg);
        case K_COPYCTOR: case K_MOVECTOR: case K_COPYASSIGN: case K_MOVEASSIGN: return vh::fmt("%s(%s<-%s)", label(k), xs, ys);
        default: return vh::fmt("%s(%s)", label(k), xs);
        }
    }

    // ---- driver
    size_t home(int x) const { return x ? Mb : M0; }
    // calm: absent, or a buffer that never held anything worth remembering: default-constructed / moved-from /
    // freshly constructed, empty, both cursors at 0, max_size_ 0 or its home value
    bool calm(const State& s, int x) const {
        const Buf& b = s.x[x];
        if (b.kind == ABSENT) return true;
        if (b.kind != NODATA && b.kind != ALLOC) return false;
        return b.m.empty() && b.rb->begin_ == 0 && b.rb->end_ == 0 && (b.rb->max_size_ == 0 || b.rb->max_size_ == home(x));
    }
    static bool small(const Buf& b) { return b.kind == ABSENT || b.m.size() <= 2; }
    // a lives a "realloc-foreign" life: its (possibly stale) max_size_ is none of 0, M0, Mb
    bool foreign_a(const State& s) const {
        const Buf& a = s.x[0];
        return a.kind != ABSENT && a.rb->max_size_ != 0 && a.rb->max_size_ != M0 && a.rb->max_size_ != Mb;
    }

    // coarse class of a transition for the crash guard (see c16_common.hpp)
    std::string cls(const State& s, uint32_t op) {
        int k = op / 1000, x = (op / 100) % 10;
        const Buf &X = s.x[x], &Y = s.x[1 - x];
        std::string c = label(k);
        c += ':';
        c += kKindChar[X.kind];
        if (k == K_COPYCTOR || k == K_MOVECTOR || k == K_COPYASSIGN || k == K_MOVEASSIGN) {
            c += kKindChar[Y.kind];
            c += Y.m.empty() ? 'e' : 'n';
            if (X.kind != ABSENT && Y.kind != ABSENT) c += X.rb->capacity_ == Y.rb->capacity_ ? '=' : '#';
        }
        return c;
    }

    std::vector<uint32_t> ops(const State& s) {
        std::vector<uint32_t> r;
        // single-buffer operations, simplest first
        for (int x = 0; x < 2; ++x) {
            const Buf &X = s.x[x], &Y = s.x[1 - x];
            if (X.kind == ABSENT) {
                if (x == 1 && foreign_a(s)) continue;  // R4
                if (!small(Y)) continue;               // R5
                r.push_back(enc(K_CTOR, x));
                r.push_back(enc(K_DEFCTOR, x));
                continue;
            }
            bool ycalm = calm(s, 1 - x);
            if (!(ycalm || (small(X) && small(Y)))) continue;  // R2: X is frozen
            if (X.kind == ALLOC) {
                size_t limit = X.max;
                if (x == 1 || X.max != M0) limit = std::min<size_t>(limit, 2);  // R1
                bool back_only = !ycalm && X.m.size() < 2 && X.rb->begin_ == 0;  // R3
                if (X.m.size() < limit && (ycalm || back_only))
                    for (int k = K_EMPLACE_BACK; k <= (ycalm ? K_PUSH_FRONT_MOVE : K_PUSH_BACK_MOVE); ++k)
                        for (int v = 0; v < 2; ++v) r.push_back(enc(k, x, v));
                if (!X.m.empty()) {
                    r.push_back(enc(K_POP_FRONT, x));
                    r.push_back(enc(K_POP_BACK, x));
                    r.push_back(enc(K_MOVE_TO, x));
                }
                r.push_back(enc(K_CLEAR, x));
            }
            r.push_back(enc(K_SELF_COPYASSIGN, x));
            r.push_back(enc(K_SELF_MOVEASSIGN, x));
            r.push_back(enc(K_DEALLOCATE, x));
            if (X.kind == NODATA || X.kind == DEALLOC) {
                if (x == 0) {
                    for (int m = 0; m <= 9; ++m)
                        if (Y.kind == ABSENT || m == 0 || (size_t)m == M0 || (size_t)m == Mb) r.push_back(enc(K_ALLOCATE, x, m));  // R4
                } else
                    r.push_back(enc(K_ALLOCATE, x, (int)Mb));
            }
        }
        // two-buffer operations and destruction: always driven
        for (int x = 0; x < 2; ++x) {
            const Buf &X = s.x[x], &Y = s.x[1 - x];
            if (X.kind == ABSENT) {
                if (Y.kind != ABSENT && !(x == 1 && foreign_a(s))) {  // R4
                    r.push_back(enc(K_COPYCTOR, x));
                    r.push_back(enc(K_MOVECTOR, x));
                }
                continue;
            }
            if (Y.kind != ABSENT) {
                r.push_back(enc(K_COPYASSIGN, x));
                r.push_back(enc(K_MOVEASSIGN, x));
            }
            r.push_back(enc(K_DESTROY, x));
        }
        if (guard() && guard()->ncls) {
            std::vector<uint32_t> f;
            for (uint32_t op : r) {
                if (guard_blocked(cls(s, op))) vh::stat_add("crash_class_transitions_not_driven");
                else f.push_back(op);
            }
            r.swap(f);
        }
        return r;
    }

    // ---- transitions
    static void model_copy(Buf& X, const Buf& Y) {
        if (Y.kind == ALLOC) {
            X.kind = ALLOC;
            X.max = Y.max;
            X.m = Y.m;
            for (auto& e : X.m) e.serial = -1;  // copies are new objects
        } else {
            X.kind = UNKNOWN;
            X.max = 0;
            X.m.clear();
        }
    }
    static void model_move(Buf& X, Buf& Y) {
        X.kind = Y.kind;  // storage (or the lack of it) travels with the move
        X.max = Y.max;
        X.m = std::move(Y.m);  // the very same objects: serials are kept
        Y.kind = NODATA;
        Y.max = 0;
        Y.m.clear();
    }

    void apply(State& s, uint32_t op) {
        led() = &s.ledger;
        unsigned long long f0 = fail_count();
        int k = op / 1000, x = (op / 100) % 10, arg = op % 100;
        Buf &X = s.x[x], &Y = s.x[1 - x];
        guard_enter(cls(s, op));
        switch (k) {
        case K_CTOR:
            X.rb.emplace(x ? Mb : M0);
            X.kind = ALLOC;
            X.max = x ? Mb : M0;
            X.m.clear();
            break;
        case K_DEFCTOR:
            X.rb.emplace();
            X.kind = NODATA;
            X.max = 0;
            X.m.clear();
            break;
        case K_EMPLACE_BACK:
            X.rb->emplace_back(arg);
            X.m.push_back({arg, -1});
            break;
        case K_PUSH_BACK_COPY: {
            T t = E::make(arg);
            X.rb->push_back(t);
            X.m.push_back({arg, -1});
            if (E::value(t) != arg) vh::fail_here("copy-source-changed", "push_back(const T&) modified its argument");
            break;
        }
        case K_PUSH_BACK_MOVE: {
            T t = E::make(arg);
            X.rb->push_back(std::move(t));
            X.m.push_back({arg, -1});
            break;
        }
        case K_EMPLACE_FRONT:
            X.rb->emplace_front(arg);
            X.m.push_front({arg, -1});
            break;
        case K_PUSH_FRONT_COPY: {
            T t = E::make(arg);
            X.rb->push_front(t);
            X.m.push_front({arg, -1});
            if (E::value(t) != arg) vh::fail_here("copy-source-changed", "push_front(const T&) modified its argument");
            break;
        }
        case K_PUSH_FRONT_MOVE: {
            T t = E::make(arg);
            X.rb->push_front(std::move(t));
            X.m.push_front({arg, -1});
            break;
        }
        case K_POP_FRONT:
            X.rb->pop_front();
            X.m.pop_front();
            break;
        case K_POP_BACK:
            X.rb->pop_back();
            X.m.pop_back();
            break;
        case K_CLEAR:
            X.rb->clear();
            X.m.clear();
            break;
        case K_MOVE_TO: {
            std::vector<T> out;
            out.reserve(X.m.size());  // exact-size destination: no reallocation inside move_to
            X.rb->move_to(&out);
            if (out.size() != X.m.size()) vh::fail_here("move_to-count", vh::fmt("move_to delivered %zu elements, model %zu", out.size(), X.m.size()));
            else
                for (size_t i = 0; i < out.size(); ++i) {
                    if (!E::live(&out[i])) vh::fail_here("use-of-dead-element", vh::fmt("move_to output %zu is not alive", i));
                    else if (E::value(out[i]) != X.m[i].v)
                        vh::fail_here("content-mismatch", vh::fmt("move_to output[%zu]=%d model %d", i, E::value(out[i]), X.m[i].v));
                }
            X.m.clear();
            break;
        }
        case K_COPYCTOR:
            X.rb.emplace(*Y.rb);
            model_copy(X, Y);
            break;
        case K_MOVECTOR:
            X.rb.emplace(std::move(*Y.rb));
            model_move(X, Y);
            break;
        case K_COPYASSIGN:
            *X.rb = *Y.rb;
            model_copy(X, Y);
            break;
        case K_MOVEASSIGN:
            *X.rb = std::move(*Y.rb);
            model_move(X, Y);
            break;
        case K_SELF_COPYASSIGN: {
            RB* self = &*X.rb;
            *X.rb = *self;  // must leave the buffer untouched (same objects)
            break;
        }
        case K_SELF_MOVEASSIGN: {
            RB* self = &*X.rb;
            *X.rb = std::move(*self);  // ring_buffer.hpp handles this explicitly: no-op
            break;
        }
        case K_DEALLOCATE:
            X.rb->deallocate();
            if (X.kind != NODATA) X.kind = DEALLOC;
            X.max = 0;
            X.m.clear();
            break;
        case K_ALLOCATE:
            X.rb->allocate((size_t)arg);
            X.kind = ALLOC;
            X.max = (size_t)arg;
            X.m.clear();
            break;
        case K_DESTROY:
            X.rb.reset();
            X.kind = ABSENT;
            X.max = 0;
            X.m.clear();
            break;
        default:
            vh::fail_here("harness-bad-op", vh::fmt("op %u", op));
        }
        guard_leave();
        post_check(s);
        if (fail_count() != f0) s.tainted = true;
    }

    // after every transition: contents, identity, live-set, allocator ledger, structural invariants
    void post_check(State& s) {
        size_t stored = 0;
        int min_blocks = 0, max_blocks = 0;
        std::set<const void*> stored_addr;
        for (int x = 0; x < 2; ++x) {
            Buf& X = s.x[x];
            const char* xs = x ? "b" : "a";
            if (X.kind == ABSENT) continue;
            RB& rb = *X.rb;
            // a buffer with max_size 0 can never be pushed into: whether it owns a (useless) block is not specified
            if (X.kind == ALLOC) min_blocks += X.max > 0 ? 1 : 0, max_blocks++;
            if (X.kind == UNKNOWN) max_blocks++;
            if (X.kind == ALLOC && X.max > 0) {
                if (rb.data_ == nullptr) {
                    vh::advisory("no-storage", vh::fmt("%s should hold up to %zu elements but data_ == nullptr (capacity_=%zu): the next push writes through a null pointer",
                                                        xs, X.max, rb.capacity_));
                }
                if (rb.begin_ > rb.mask_ || rb.end_ > rb.mask_) {
                    vh::advisory("cursor-out-of-range",
                                  vh::fmt("%s: begin_=%zu end_=%zu but mask_=%zu (capacity_=%zu, max_size_=%zu): the next push/front/back touches data_[] outside the array",
                                          xs, (size_t)rb.begin_, (size_t)rb.end_, rb.mask_, rb.capacity_, rb.max_size_));
                }
            }
            if (rb.size() != X.m.size()) {
                vh::fail_here("size-mismatch", vh::fmt("%s.size()=%zu model %zu", xs, (size_t)rb.size(), X.m.size()));
                return;
            }
            for (size_t i = 0; i < X.m.size(); ++i) {
                const T* e = &rb[i];
                stored_addr.insert(e);
                if (!E::live(e)) {
                    vh::fail_here("element-destroyed-while-stored", vh::fmt("%s[%zu] of %zu is stored but its object has been destroyed", xs, i, X.m.size()));
                    return;
                }
                if (E::value(*e) != X.m[i].v) {
                    vh::fail_here("content-mismatch", vh::fmt("%s[%zu]=%d model %d", xs, i, E::value(*e), X.m[i].v));
                    return;
                }
                if (X.m[i].serial < 0) X.m[i].serial = E::serial(*e);
                else if (E::serial(*e) != X.m[i].serial) {
                    vh::fail_here("element-identity-changed", vh::fmt("%s[%zu] is object #%ld, model says object #%ld is stored there", xs, i, E::serial(*e), X.m[i].serial));
                    return;
                }
            }
            stored += X.m.size();
        }
        if (E::tracked) {
            if (stored_addr.size() != stored) {
                vh::fail_here("element-aliased", "two stored positions refer to the same object");
                return;
            }
            if (s.ledger.live.size() != stored) {
                size_t extra = 0;
                for (auto& kv : s.ledger.live)
                    if (!stored_addr.count(kv.first)) extra++;
                vh::fail_here("element-leaked", vh::fmt("%zu element(s) alive but the buffers store %zu: %zu object(s) are alive without being stored",
                                                        s.ledger.live.size(), stored, extra));
                return;
            }
        }
        if (kCounting) {
            int nb = (int)s.ledger.blocks.size();
            if (nb < min_blocks || nb > max_blocks) {
                vh::fail_here(nb > max_blocks ? "allocator-leak" : "allocator-block-missing",
                              vh::fmt("%d allocator block(s) outstanding, expected %d..%d", nb, min_blocks, max_blocks));
                return;
            }
        }
    }

    // ---- read-only queries
    void observe(State& s) {
        led() = &s.ledger;
        unsigned long long f0 = fail_count();
        for (int x = 0; x < 2; ++x) {
            Buf& X = s.x[x];
            const char* xs = x ? "b" : "a";
            if (X.kind == ABSENT) continue;
            RB& rb = *X.rb;
            const RB& crb = rb;
            size_t n = X.m.size();
            if (crb.size() != n) vh::fail_here("size-mismatch", vh::fmt("%s.size()=%zu model %zu", xs, (size_t)crb.size(), n));
            if (crb.empty() != (n == 0)) vh::fail_here("empty-mismatch", vh::fmt("%s.empty()=%d with %zu elements", xs, (int)crb.empty(), n));
            if (X.kind != ALLOC) continue;
            if (crb.max_size() != X.max) vh::fail_here("max_size-mismatch", vh::fmt("%s.max_size()=%zu model %zu", xs, crb.max_size(), X.max));
            if (crb.size() != n) continue;
            for (size_t i = 0; i < n; ++i) {
                if (E::value(crb[i]) != X.m[i].v || &crb[i] != &rb[i])
                    vh::fail_here("operator[]-mismatch", vh::fmt("%s[%zu]=%d model %d", xs, i, E::value(crb[i]), X.m[i].v));
            }
            if (n > 0) {
                if (&rb.front() != &rb[0] || &crb.front() != &crb[0] || E::value(crb.front()) != X.m.front().v)
                    vh::fail_here("front-mismatch", vh::fmt("%s.front()=%d model %d", xs, E::value(crb.front()), X.m.front().v));
                if (&rb.back() != &rb[n - 1] || &crb.back() != &crb[n - 1] || E::value(crb.back()) != X.m.back().v)
                    vh::fail_here("back-mismatch", vh::fmt("%s.back()=%d model %d", xs, E::value(crb.back()), X.m.back().v));
            }
            {
                std::vector<T> out;
                out.reserve(n);
                crb.copy_to(&out);
                if (out.size() != n) vh::fail_here("copy_to-count", vh::fmt("copy_to delivered %zu elements, model %zu", out.size(), n));
                else
                    for (size_t i = 0; i < n; ++i)
                        if (E::value(out[i]) != X.m[i].v) vh::fail_here("copy_to-mismatch", vh::fmt("copy_to output[%zu]=%d model %d", i, E::value(out[i]), X.m[i].v));
            }
            if (E::tracked) {
                size_t stored = s.x[0].m.size() + s.x[1].m.size();
                if (s.ledger.live.size() != stored) vh::fail_here("element-leaked", "copy_to/queries changed the set of live elements");
            }
            // coverage witnesses
            bool wrapped = rb.end_ < rb.begin_;
            vh::outcome(vh::fmt("%s %s: %s%s%s", E::name(), xs, n == 0 ? "empty" : (n == X.max ? "full" : "partial"), wrapped ? " wrapped" : "",
                                rb.begin_ == rb.mask_ ? " begin-at-last-slot" : ""));
        }
        vh::outcome(vh::fmt("kinds a=%c b=%c", kKindChar[s.x[0].kind], kKindChar[s.x[1].kind]));
        if (vh::args().opt_int("dump", 0)) vh::note("STATE " + canon(s) + " <= " + vh::cur_replay());
        if (fail_count() != f0) s.tainted = true;
    }

    // ---- canonical form: all implementation fields + model kind/contents, address-free
    std::string canon(const State& s) {
        std::string c;
        for (int x = 0; x < 2; ++x) {
            const Buf& X = s.x[x];
            if (X.kind == ABSENT) {
                c += "_|";
                continue;
            }
            const RB& rb = *X.rb;
            c += vh::fmt("%c M%zu C%zu K%zu b%zu e%zu s%zu d%d m%zu [", kKindChar[X.kind], rb.max_size_, rb.capacity_, rb.mask_, (size_t)rb.begin_,
                         (size_t)rb.end_, (size_t)rb.size(), rb.data_ ? 1 : 0, X.max);
            for (auto& e : X.m) c += (char)('0' + e.v);  // == real contents (checked after every transition)
            c += "]|";
        }
        return c;
    }
};

// ---- configurations
struct Config {
    bool tracked;
    size_t M0, Mb;
    double weight;
};

static std::vector<size_t> b_capacities(size_t M0) {
    std::vector<size_t> r{M0};
    auto add = [&](long m) {
        if (m < 0 || m > 9) return;
        for (size_t v : r)
            if (v == (size_t)m) return;
        r.push_back((size_t)m);
    };
    size_t c0 = rounded_capacity(M0);
    // same rounded capacity, different max_size
    if (M0 + 1 <= 9 && rounded_capacity(M0 + 1) == c0) add((long)M0 + 1);
    else if (M0 >= 1 && rounded_capacity(M0 - 1) == c0) add((long)M0 - 1);
    // nearest smaller / larger max_size with another rounded capacity
    for (long m = (long)M0 - 1; m >= 0; --m)
        if (rounded_capacity(m) != c0) {
            add(m);
            break;
        }
    for (long m = (long)M0 + 1; m <= 9; ++m)
        if (rounded_capacity(m) != c0) {
            add(m);
            break;
        }
    return r;
}

static std::vector<Config> configs(bool thorough) {
    std::vector<Config> r;
    size_t top = thorough ? 9 : 5;
    long lim = vh::args().opt_int("maxcap", -1);
    if (lim >= 0) top = (size_t)lim;
    for (int tr = 1; tr >= 0; --tr)
        for (size_t M0 = 0; M0 <= top; ++M0)
            for (size_t Mb : b_capacities(M0)) r.push_back({tr != 0, M0, Mb, (double)rounded_capacity(M0) * (double)(1u << (M0 + 1))});
    return r;
}

static double child_cpu_seconds() {
    rusage ru;
    getrusage(RUSAGE_CHILDREN, &ru);
    return ru.ru_utime.tv_sec + ru.ru_stime.tv_sec + (ru.ru_utime.tv_usec + ru.ru_stime.tv_usec) * 1e-6;
}

template <class Sys>
static void run_one(Sys& sys, StatKeeper& keep) {
    guard_reset();
    vhist::Options opt;  // closure
    long cap = vh::args().opt_int("maxstates", -1);  // debugging aid only
    if (cap > 0) opt.max_states = (size_t)cap;
    double t0 = child_cpu_seconds();
    vhist::run_config(sys, opt);
    vh::note(vh::fmt("%s: %.1fs cpu (shard %d)", sys.name().c_str(), child_cpu_seconds() - t0, vh::args().shard));
    keep.harvest();
}

static void dispatch(const Config& c, const std::function<void(RBSystem<Tracked, CountingAllocator<Tracked>>&)>& ft,
                     const std::function<void(RBSystem<int, std::allocator<int>>&)>& fi) {
    if (c.tracked) {
        RBSystem<Tracked, CountingAllocator<Tracked>> s(c.M0, c.Mb);
        ft(s);
    } else {
        RBSystem<int, std::allocator<int>> s(c.M0, c.Mb);
        fi(s);
    }
}

int main(int argc, char** argv) {
    vh::init(argc, argv);
    guard_init();
    if (vh::args().has_replay) {
        return vh::replay_one([&](const std::string& r) {
            size_t bar = r.find('|');
            std::string cfg = r.substr(0, bar), h = bar == std::string::npos ? "" : r.substr(bar + 1);
            char et[32] = {0};
            size_t m0 = 0, mb = 0;
            if (sscanf(cfg.c_str(), "RB<%31[^>]>/M%zu/b%zu", et, &m0, &mb) != 3) {
                vh::out_line("ERROR bad replay string " + r);
                return;
            }
            Config c{std::string(et) == "Tracked", m0, mb, 0};
            dispatch(c, [&](auto& s) { vhist::replay_config(s, h); }, [&](auto& s) { vhist::replay_config(s, h); });
        });
    }
    std::vector<Config> cs = configs(vh::args().thorough());
    std::vector<double> w;
    for (auto& c : cs) w.push_back(c.weight);
    int sh = vh::args().shard, n = vh::args().nshards;
    std::vector<int> shard_of = assign_shards(w, n);
    if (sh == 0) {
        vh::sample("RB<Tracked>/M3/b1: ctor(a,3) emplace_back(a,1) push_front_move(a,0) pop_back(a) copy_ctor(b<-a) deallocate(a) allocate(a,7) "
                   "move_assign(a<-b) self_copy_assign(a) destroy(b) ... closure over all such histories; canonical state e.g. "
                   "'A M3 C4 K3 b3 e1 s2 d1 m3 [01]|_|'");
        vh::sample(vh::fmt("%zu configurations (element type x M0 x Mb), e.g. M0=5: Mb in {5,6,3,8}", cs.size()));
    }
    StatKeeper keep;
    std::string only = vh::args().opt("only");  // debugging aid: only=Tracked/M2/b4
    for (size_t i = 0; i < cs.size(); ++i) {
        if (shard_of[i] != sh) continue;
        if (!only.empty() && only != vh::fmt("%s/M%zu/b%zu", cs[i].tracked ? "Tracked" : "int", cs[i].M0, cs[i].Mb)) continue;
        dispatch(cs[i], [&](auto& s) { run_one(s, keep); }, [&](auto& s) { run_one(s, keep); });
        keep.sum["configurations"] += 1;
    }
    keep.restore();
    return vh::finish();
}
