// C13 — tlx::RadixHeap<Data, KeyExtract, KeyType, Radix>: depth-bounded BFS over operation histories with
// canonical-state de-duplication (engine E2).
//
// Contract taken from the header: the heap is monotone — "does not allow the insertion of keys smaller than
// [the insertion] limit.  The frontier is increased to the current minimum when invoking the methods top(),
// pop() and swap_top_bucket().  To query the currently smallest item without updating the insertion limit use
// peak_top_key()", and top()/pop()/swap_top_bucket() each carry "\warning Updates insertion limit; no smaller
// keys can be inserted later".  The property text speaks of "the most recently extracted minimum" only, but
// the doc comment explicitly excludes inserting below a key that top() has returned, so the DRIVER'S FLOOR is
//     floor = the key most recently returned by top() or removed by pop()/swap_top_bucket() since the last clear()
// and only keys >= floor are pushed (tests/container/radix_heap_test.cpp uses the heap the same way).  With the
// harness option below_top=1 the floor follows the property's wording literally (pop/swap_top_bucket only);
// that mode is not part of the check (it exposes that top() caches current_bucket_, which the doc excludes).
// swap_top_bucket(): "Exchanges the top buckets with an *empty* user provided bucket" — after reorganisation the
// top bucket lies in the lowest row, where a bucket holds a single key value, and all entries with that key are
// in it; the oracle demands exactly the multiset of minimal-key entries (as the repo test does).
// clear(): "Clears all internal queues and resets insertion limit" -> floor reset.
//
// Key alphabet per (type, radix R): signed {min, min+1, -1, 0, 1, 2, R-1, R, R+1, max-1, max}; unsigned
// {0, 1, 2, R-1, R, R+1, mid-1, mid, mid+1, max-1, max} with mid = 2^(bits-1).  Entries = lifetime-tracked
// Elem{key, tag(key)} (see c13_common.hpp).
// Ops (mutating): push(v), emplace(k, k, tag), emplace_keyfirst(k, tag) for every alphabet key >= floor;
//   top() (it reorganises); pop(); swap_top_bucket(empty vector); clear().
// Oracles after every transition (const queries only, nothing here restructures): size(), empty(),
//   peak_top_key() == model minimum; returned bucket index == get_bucket_key(k) asked before the insertion;
//   top(): key == model minimum, tag intact; swap_top_bucket: exactly the model's entries with the minimal key;
//   element ledger (live entries == size, nothing read after move/destroy).
// In every new state: two COPIES are drained — one by peak_top_key()/top()/pop(), one by swap_top_bucket() —
//   and must yield the sorted model multiset; the original's internal state is unchanged afterwards.
// Canonical state = size_, insertion_limit_, current_bucket_, every bucket's contents/min/filled bit + floor.
#pragma once
#include <tlx/container/radix_heap.hpp>

#include <algorithm>
#include <limits>
#include <set>
#include <type_traits>

#include <unordered_map>

#include "c13_common.hpp"

namespace c13 {

template <class K>
struct RKeyName;
#define C13_KN(T, S)                          \
    template <>                               \
    struct RKeyName<T> {                      \
        static const char* nm() { return S; } \
    };
C13_KN(int8_t, "i8")
C13_KN(uint8_t, "u8")
C13_KN(int16_t, "i16")
C13_KN(uint16_t, "u16")
C13_KN(int32_t, "i32")
C13_KN(uint32_t, "u32")
C13_KN(int64_t, "i64")
C13_KN(uint64_t, "u64")
#undef C13_KN

template <class K>
inline uint32_t rtag(K k) {
    return (uint32_t)((uint64_t)(typename std::make_unsigned<K>::type)k * 2654435761ull + 12345u);
}

template <class K>
struct RElem {
    K key;
    uint32_t tag;
    Life life;
    RElem(K k, uint32_t t) : key(k), tag(t) {}
};
template <class K>
struct RKeyExtract {
    K operator()(const RElem<K>& e) const {
        e.life.touch();
        return e.key;
    }
};

template <class K, unsigned Radix>
struct RadixSys {
    typedef RElem<K> Elem;
    typedef tlx::RadixHeap<Elem, RKeyExtract<K>, K, Radix> Heap;

    std::vector<K> alpha;  // sorted; the last entry is always the largest key of the type
    bool below_top;
    bool use_max = true;   // whether the BFS offers the largest key (see max_family())
    RadixSys() {
        typedef std::numeric_limits<K> L;
        K R = (K)Radix;
        if (std::is_signed<K>::value) alpha = {L::min(), (K)(L::min() + 1), (K)-1, 0, 1, 2, (K)(R - 1), R, (K)(R + 1), (K)(L::max() - 1), L::max()};
        else {
            K mid = (K)(L::max() / 2 + 1);
            alpha = {0, 1, 2, (K)(R - 1), R, (K)(R + 1), (K)(mid - 1), mid, (K)(mid + 1), (K)(L::max() - 1), L::max()};
        }
        std::sort(alpha.begin(), alpha.end());
        alpha.erase(std::unique(alpha.begin(), alpha.end()), alpha.end());
        below_top = vh::args().opt_int("below_top", 0) != 0;
    }

    struct State {
        Ctx ctx;
        std::unique_ptr<Heap> heap;
        std::multiset<K> model;
        bool has_floor = false;
        size_t steps = 0;
        K floor = 0;
        State() {
            g_ctx = &ctx;
            heap.reset(new Heap());
        }
        ~State() {
            g_ctx = &ctx;
            heap.reset();
            if (ctx.live != 0) vh::fail_here("live-elements-at-end", vh::fmt("%ld entries alive after the heap was destroyed", ctx.live));
        }
    };

    std::string name_;
    const std::string& name() {
        if (name_.empty()) name_ = vh::fmt("RadixHeap<%s,r%u>", RKeyName<K>::nm(), Radix);
        return name_;
    }
    std::unique_ptr<State> fresh() { return std::unique_ptr<State>(new State()); }

    enum Kind { PUSH = 1, EMPLACE, KEYFIRST, TOP, POP, SWAP, CLEAR };
    static uint32_t enc(int k, unsigned arg = 0) { return ((uint32_t)k << 12) | arg; }
    static std::string kstr(K k) { return std::is_signed<K>::value ? std::to_string((long long)k) : std::to_string((unsigned long long)k); }

    std::unordered_map<uint32_t, std::string> name_cache_;
    std::string op_name(uint32_t op) {
        auto it = name_cache_.find(op);
        if (it != name_cache_.end()) return it->second;
        return name_cache_[op] = op_name_uncached(op);
    }
    // in below_top mode (the property's literal monotonicity condition, see the header comment) every label carries a
    // distinct prefix so that the known finding about top() can be told from everything else
    std::string pfx() const { return below_top ? "RadixHeap@insert-below-last-top." : "RadixHeap."; }
    std::string op_name_uncached(uint32_t op) {
        unsigned k = op >> 12, a = op & 4095;
        switch (k) {
        case PUSH: return pfx() + "push(" + kstr(alpha[a % alpha.size()]) + ")";
        case EMPLACE: return pfx() + "emplace(" + kstr(alpha[a % alpha.size()]) + ")";
        case KEYFIRST: return pfx() + "emplace_keyfirst(" + kstr(alpha[a % alpha.size()]) + ")";
        case TOP: return pfx() + "top()";
        case POP: return pfx() + "pop()";
        case SWAP: return pfx() + "swap_top_bucket()";
        case CLEAR: return pfx() + "clear()";
        }
        return "RadixHeap.?";
    }

    std::vector<uint32_t> ops(const State& s) {
        std::vector<uint32_t> r;
        for (int kind = PUSH; kind <= KEYFIRST; ++kind)
            for (size_t i = 0; i < alpha.size(); ++i) {
                if (!use_max && i + 1 == alpha.size()) continue;
                if (!s.has_floor || alpha[i] >= s.floor) r.push_back(enc(kind, (unsigned)i));
            }
        if (!s.model.empty()) {
            r.push_back(enc(TOP));
            r.push_back(enc(POP));
            r.push_back(enc(SWAP));
        }
        r.push_back(enc(CLEAR));
        return r;
    }

    static std::string model_str(const State& s) {
        std::string m = "{";
        for (K k : s.model) m += kstr(k) + " ";
        return m + "}";
    }

    void check_queries(State& s) {
        const Heap& h = *s.heap;
        if (h.size() != s.model.size()) {
            vh::fail_here("size", vh::fmt("size()=%zu, model %s", h.size(), model_str(s).c_str()));
            return;
        }
        if (h.empty() != s.model.empty()) {
            vh::fail_here("empty", vh::fmt("empty()=%d, model %s", (int)h.empty(), model_str(s).c_str()));
            return;
        }
        if (!s.model.empty() && !h.empty()) {
            K p = h.peak_top_key();
            if (p != *s.model.begin()) {
                vh::fail_here("peak_top_key", vh::fmt("peak_top_key()=%s, model %s", kstr(p).c_str(), model_str(s).c_str()));
                return;
            }
        }
        if (s.ctx.misuse) {
            vh::fail_here("element-lifetime", s.ctx.first_misuse);
            return;
        }
        if (s.ctx.live != (long)s.model.size()) {
            vh::fail_here("live-elements", vh::fmt("%ld entries alive, model holds %zu", s.ctx.live, s.model.size()));
            return;
        }
    }

    void apply(State& s, uint32_t op) {
        g_ctx = &s.ctx;
        Heap& h = *s.heap;
        unsigned kind = op >> 12, a = op & 4095;
        switch (kind) {
        case PUSH:
        case EMPLACE:
        case KEYFIRST: {
            K k = alpha[a % alpha.size()];
            size_t want = const_cast<const Heap&>(h).get_bucket_key(k), idx;
            if (want >= Heap::num_buckets) {
                // the insertion would index buckets_data_/mins_ out of bounds (wild access whose ASan kind depends on what
                // the index happens to hit): report it deterministically and do not perform the call
                // (one signature for the three insertion calls: the defect is in the shared bucket computation)
                vh::fail("RadixHeap.insert/bucket-index-out-of-range", vh::cur_replay(), vh::fmt("get_bucket_key(%s)=%zu with insertion limit rank %llu, but there are only %zu buckets", kstr(k).c_str(),
                                                                   want, (unsigned long long)h.insertion_limit_, (size_t)Heap::num_buckets));
                return;
            }
            if (kind == PUSH) {
                Elem e(k, rtag(k));
                idx = h.push(e);
                if (!e.life.alive() || e.key != k) vh::fail_here("argument-modified", "push(const&) changed its argument");
            } else if (kind == EMPLACE) idx = h.emplace(k, k, rtag(k));
            else idx = h.emplace_keyfirst(k, rtag(k));
            if (idx != want) vh::fail_here("bucket-index", vh::fmt("returned bucket %zu, get_bucket_key(%s) said %zu", idx, kstr(k).c_str(), want));
            s.model.insert(k);
            break;
        }
        case TOP: {
            const Elem& e = h.top();
            K m = *s.model.begin();
            if (!e.life.alive() || e.key != m || e.tag != rtag(e.key))
                vh::fail_here("key", vh::fmt("top() returned key %s (tag %s), model minimum %s of %s", kstr(e.key).c_str(), e.tag == rtag(e.key) ? "ok" : "damaged",
                                             kstr(m).c_str(), model_str(s).c_str()));
            if (!below_top) {
                s.has_floor = true;
                s.floor = m;
            }
            break;
        }
        case POP: {
            K m = *s.model.begin();
            h.pop();
            s.model.erase(s.model.begin());
            s.has_floor = true;
            s.floor = m;
            break;
        }
        case SWAP: {
            K m = *s.model.begin();
            size_t cnt = s.model.count(m);
            {
                std::vector<Elem> ex;
                h.swap_top_bucket(ex);
                bool ok = ex.size() == cnt;
                for (const Elem& e : ex)
                    if (!e.life.alive() || e.key != m || e.tag != rtag(m)) ok = false;
                if (!ok) {
                    std::string o;
                    for (const Elem& e : ex) o += kstr(e.key) + " ";
                    vh::fail_here("bucket", vh::fmt("swap_top_bucket returned [%s], expected %zu entries with key %s (model %s)", o.c_str(), cnt, kstr(m).c_str(), model_str(s).c_str()));
                }
            }
            s.model.erase(m);
            s.has_floor = true;
            s.floor = m;
            break;
        }
        case CLEAR:
            h.clear();
            s.model.clear();
            s.has_floor = false;
            s.floor = 0;
            break;
        }
        if (is_last_op_of_published_history(++s.steps)) check_queries(s);
    }

    void observe(State& s) {
        g_ctx = &s.ctx;
        std::string before = canon(s);
        {
            Heap c(*s.heap);  // copy: drained by peak_top_key / top / pop
            auto it = s.model.begin();
            bool ok = true;
            size_t steps = 0;
            std::string got;
            while (!c.empty() && steps <= s.model.size() + 2) {
                K p = c.peak_top_key();
                const Elem& e = c.top();
                got += kstr(e.key) + " ";
                if (it == s.model.end() || p != *it || e.key != *it || e.tag != rtag(e.key) || !e.life.alive()) ok = false;
                else ++it;
                c.pop();
                steps++;
                if (c.size() + steps != s.model.size()) ok = false;
            }
            if (steps != s.model.size() || !ok)
                vh::fail_here("drain", vh::fmt("draining a copy with top()/pop() gave [%s], model %s", got.c_str(), model_str(s).c_str()));
        }
        {
            Heap c(*s.heap);  // copy: drained by swap_top_bucket
            auto it = s.model.begin();
            bool ok = true;
            size_t total = 0, rounds = 0;
            std::string got;
            while (!c.empty() && rounds <= s.model.size() + 2) {
                std::vector<Elem> ex;
                c.swap_top_bucket(ex);
                rounds++;
                if (ex.empty() || it == s.model.end()) {
                    ok = false;
                    break;
                }
                K m = *it;
                size_t cnt = s.model.count(m);
                if (ex.size() != cnt) ok = false;
                for (const Elem& e : ex) {
                    got += kstr(e.key) + " ";
                    if (e.key != m || e.tag != rtag(m) || !e.life.alive()) ok = false;
                }
                got += "| ";
                total += ex.size();
                it = s.model.upper_bound(m);
            }
            if (total != s.model.size() || !ok)
                vh::fail_here("drain-buckets", vh::fmt("draining a copy with swap_top_bucket() gave [%s], model %s", got.c_str(), model_str(s).c_str()));
        }
        if (canon(s) != before) vh::fail_here("copy-aliases-original", "draining copies changed the original heap");
        if (s.ctx.misuse) vh::fail_here("element-lifetime", s.ctx.first_misuse);
        if (s.ctx.live != (long)s.model.size()) vh::fail_here("live-elements", vh::fmt("%ld entries alive after the copies were destroyed, model holds %zu", s.ctx.live, s.model.size()));
        // which structural situation this state is in (shows the enumeration reaches the reorganisation paths)
        const Heap& h = *s.heap;
        vh::outcome(vh::fmt("RadixHeap %s r%u: limit%s0 current_bucket%s0 rows_used=%d", RKeyName<K>::nm(), Radix, h.insertion_limit_ ? ">" : "=",
                            h.current_bucket_ ? ">" : "=", rows_used(h)));
    }

    static int rows_used(const Heap& h) {
        int m = 0;
        for (size_t i = 0; i < Heap::num_buckets; ++i)
            if (!h.buckets_data_[i].empty()) m = i < Radix ? 1 : (int)((i - 1) / (Radix - 1)) + 1;
        return m;
    }

    std::string canon(const State& s) {
        const Heap& h = *s.heap;
        typedef typename Heap::ranked_key_type RK;
        std::string c = vh::fmt("n%zu L%llu c%zu|", h.size_, (unsigned long long)h.insertion_limit_, h.current_bucket_);
        for (size_t i = 0; i < Heap::num_buckets; ++i) {
            bool f = h.filled_.is_set(i);
            if (h.buckets_data_[i].empty() && !f && h.mins_[i] == std::numeric_limits<RK>::max()) continue;
            c += vh::fmt("%zu%c", i, f ? 'f' : 'e');
            if (h.mins_[i] != std::numeric_limits<RK>::max()) c += vh::fmt("m%llu", (unsigned long long)h.mins_[i]);
            c += '[';
            for (const Elem& e : h.buckets_data_[i]) {
                c += vh::fmt("%lld", (long long)e.key);
                c += e.life.alive() && e.tag == rtag(e.key) ? ' ' : '!';
            }
            c += ']';
        }
        if (s.has_floor) c += vh::fmt("|F%lld", (long long)s.floor);
        return c;
    }

    // Family "max" (asserts-on builds).  radix_heap.hpp uses numeric_limits<rank>::max() both as the rank of the largest
    // key and as the "bucket empty" marker in mins_[]; reorganize_() contains a debug assertion
    // `key < mins_[first_non_empty + 1]` that fires when a bucket holding the largest key is redistributed while the next
    // bucket is empty.  That crashes *systematically* for histories containing the largest key, which would run the BFS
    // into the engine's 40-crash cap.  So, in a build with asserts, a fixed family of short histories with the largest key
    // (every x, then max, in both insertion orders, drained by pop / top+pop / swap_top_bucket; every x <= y, then max,
    // drained by pop) is run first, each history in its own child.  If any of them crashes, the crashes are reported and
    // the BFS of this build runs over the alphabet without the largest key; the NDEBUG build of the same harness
    // (second run of checks/C13.py) always runs the BFS over the full alphabet, which also classifies an assertion as
    // "assert-only" (all value oracles hold under NDEBUG) or not.  If the family is clean, the BFS uses the full alphabet.
    int max_family() {
        int crashes = 0;
        unsigned mx = (unsigned)alpha.size() - 1;
        std::vector<std::vector<uint32_t>> fam;
        for (unsigned x = 0; x < mx; ++x)
            for (int order = 0; order < 2; ++order) {
                std::vector<uint32_t> in = order ? std::vector<uint32_t>{enc(PUSH, mx), enc(EMPLACE, x)} : std::vector<uint32_t>{enc(PUSH, x), enc(KEYFIRST, mx)};
                std::vector<uint32_t> a = in, b = in, c = in;
                a.insert(a.end(), {enc(POP), enc(POP)});
                b.insert(b.end(), {enc(TOP), enc(POP), enc(TOP), enc(POP)});
                c.insert(c.end(), {enc(SWAP), enc(SWAP)});
                fam.push_back(a);
                fam.push_back(b);
                fam.push_back(c);
            }
        for (unsigned x = 0; x < mx; ++x)
            for (unsigned y = x; y < mx; ++y) fam.push_back({enc(PUSH, x), enc(PUSH, y), enc(PUSH, mx), enc(POP), enc(POP), enc(POP)});
        for (auto& h : fam) {
            bool ok = vh::run_child([&] {
                std::string rp = name() + "|" + vhist::hist_str(h);
                auto st = fresh();
                for (uint32_t op : h) {
                    unsigned long long fails = vh::shm()->stat_val[vh::stat_slot("failing_cases", false)];
                    if ((op >> 12) >= TOP && (op >> 12) <= SWAP && st->model.empty()) break;  // precondition: non-empty
                    vh::at(vhist::sig_label(op_name(op)).c_str(), rp);
                    st->steps = h.size();  // evaluate the post-op oracles after every op of these histories
                    apply(*st, op);
                    if (vh::shm()->stat_val[vh::stat_slot("failing_cases", false)] != fails) break;  // a failing state is terminal
                }
                vh::at_op("destroy");
                st.reset();
            });
            if (!ok) crashes++;
        }
        family_histories = fam.size();
        return crashes;
    }
    size_t family_histories = 0;

    // A systematically crashing instantiation would hit the engine's restart cap after 40 crashes and hide
    // everything else: first run every single-insertion history in its own child; if more than 3 of them crash,
    // the crashes are reported and the BFS of this configuration is skipped (with a CAP: not exhaustive).
    bool smoke() {
        int crashes = 0;
        for (size_t i = 0; i < alpha.size(); ++i) {
            uint32_t op = enc(PUSH, (unsigned)i);
            bool ok = vh::run_child([&] {
                vh::at("RadixHeap.push", name() + "|" + std::to_string(op));
                auto st = fresh();
                apply(*st, op);
                vh::at_op("RadixHeap.push+observe");
                observe(*st);
                vh::at_op("destroy");
                st.reset();
            });
            if (!ok) crashes++;
        }
        if (crashes > 3) {
            vh::cap(vh::fmt("%s: %d of %zu single-insertion histories crash (reported as FAIL); BFS of this configuration skipped", name().c_str(), crashes,
                            alpha.size()));
            vh::stat_add("configurations_skipped_after_crashes");
            return false;
        }
        return true;
    }
};

template <class K, unsigned Radix>
void add_radix(std::vector<Config>& out, bool thorough, bool in_quick) {
    if (!thorough && !in_quick) return;
    // measured CPU seconds (shard balancing only); the 8/16-bit instantiations currently fail at the first insertion
    double cost = sizeof(K) < 4 ? 5 : std::is_signed<K>::value ? (Radix == 2 ? 7 : Radix == 64 ? 45 : 32) : (Radix == 2 ? 4 : Radix == 64 ? 18 : 13);
    if (!thorough) cost /= 8;
    auto sys = std::make_shared<RadixSys<K, Radix>>();
    vhist::Options opt;
    opt.max_depth = (int)vh::args().opt_int("depth", thorough ? 6 : 5);
    Config c = make_config(sys, cost, opt,
                           sys->name() + ": e.g. push(max) emplace(-1) top() emplace_keyfirst(0) pop() push(R) swap_top_bucket() clear() push(min) — "
                                         "every history of <= depth ops over the 11-key alphabet with keys >= the last top()/pop()/swap key");
    c.run = [sys, opt] {
        if (!sys->smoke()) return;
        long mk = vh::args().opt_int("maxkey", -1);  // -1 = automatic
        int crashes = 0;
#ifndef NDEBUG
        if (mk < 0) {
            crashes = sys->max_family();
            sys->use_max = crashes == 0;
            if (crashes)
                vh::note(vh::fmt("%s: %d of %zu histories of the largest-key family crash in this asserts-on build (reported); its BFS runs without the "
                                 "largest key, the NDEBUG build covers it", sys->name().c_str(), crashes, sys->family_histories));
        }
#endif
        if (mk >= 0) sys->use_max = mk != 0;
        vhist::run_config(*sys, opt);
        vh::stat_add("largest_key_family_histories", (long long)sys->family_histories);
        vh::stat_add("largest_key_family_crashes", crashes);
    };
    out.push_back(c);
}

}  // namespace c13
