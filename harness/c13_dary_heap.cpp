// C13 — tlx::DAryHeap, arity 1..4 (see c13_dary_heap.hpp for the driver/oracles).
#include "c13_dary_heap.hpp"

namespace c13 {
void register_dary_a(std::vector<Config>& out, bool thorough) {
    // cost = measured relative run time (balancing only)
    add_dary<1, 0>(out, thorough, true, 1);
    add_dary<1, 1>(out, thorough, true, 1);
    add_dary<1, 2>(out, thorough, true, 2);
    add_dary<2, 0>(out, thorough, true, 2);
    add_dary<2, 1>(out, thorough, true, 2);
    add_dary<2, 2>(out, thorough, true, 8);
    add_dary<3, 0>(out, thorough, true, 3);
    add_dary<3, 1>(out, thorough, true, 3);
    add_dary<3, 2>(out, thorough, true, 12);
    add_dary<4, 0>(out, thorough, true, 4);
    add_dary<4, 1>(out, thorough, true, 4);
    add_dary<4, 2>(out, thorough, true, 16);
}
}  // namespace c13
