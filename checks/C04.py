from vlib import Harness, NCPU

SRC = ["harness/c04_main.cpp"] + ["harness/c04_p%d.cpp" % i for i in range(7)]


def plan(tier):
    common = dict(shim=True, shim_tlx_cpp=["tlx/thread_pool.cpp", "tlx/multi_timer.cpp"],
                  tlx_cpp=["tlx/die/core.cpp", "tlx/logger/core.cpp", "tlx/timestamp.cpp"])
    ha = Harness("c04_ps5_asan", SRC, flavor="asan", **common)
    ht = Harness("c04_ps5_tsan", SRC, flavor="tsan", **common)
    dl = "200" if tier == "quick" else "1500"
    return {
        "harnesses": [ha, ht],
        "runs": [(ha, ["--tier", tier, "mode=inputs"], NCPU),
                 (ht, ["--tier", "quick", "mode=inputs", "light=1"], NCPU),
                 (ha, ["--tier", tier, "mode=schedules", "--deadline", dl], NCPU),
                 (ht, ["--tier", tier, "mode=schedules", "--deadline", dl], NCPU)],
        "rule": "inputs: every sequence of <=4 (quick) / <=5 (thorough) strings over {a,b,'',ab,aa,ba,bb} plus all-equal / long-common-prefix / duplicate-heavy / "
                "prefix-chain / high-byte families of sizes 6..40, x workers {1,2,3} x 7 tiny-threshold parameter sets (TreeBits 1-2, smallsort 4/8, inssort 2/3, "
                "work sharing on/off, rest_size on/off, 32/64-bit keys) x with/without LCP x {C strings, std::string} x sampler seed, each run of the real "
                "parallel_sample_sort_params<P> on the scheduler's deterministic default schedule (ASan; TSan on a reduced product); schedules: 9 drivers x "
                "with/without LCP under every interleaving within the delay bound (1 quick / 2 thorough), ASan and TSan builds. states = distinct cases + distinct schedules",
        "states_key": "states", "distinct_key": "states",
        "assumptions": ["SC interleavings only", "delay-bounded schedule exploration", "tiny thresholds instead of the default 1 Mi-string threshold (same template code)",
                        "default classifier family only", "sampler seeded by the harness instead of a heap address"],
    }
