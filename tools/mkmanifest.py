#!/usr/bin/env python3
"""Regenerates MANIFEST.json from the table below (keeps it valid and complete)."""
import json
import os

HERE = os.path.dirname(os.path.dirname(os.path.abspath(__file__)))
ids = [json.loads(l)["id"] for l in open(os.path.join(HERE, "properties.jsonl"))]

E3 = "bounded exhaustive input enumeration of the real code vs. an independent reference (E3 venum)"
E2 = "explicit-state BFS over operation histories of the real object with canonical-state de-duplication vs. a reference model (E2 vhist)"
E1 = "stateless preemption-bounded exhaustive schedule exploration of the real code under a serialising scheduler (E1 vsched), ASan + TSan builds"

CHECKS = {
    "C18": dict(engine="venum", technique=E3, design="4/C18",
                text="Every (haystack, needle) pair over a 4-byte alphabet containing 0x00 and 0x80 up to length 4/3 (quick 3/2), "
                     "every pos/n argument in and beyond range incl. npos, every StringView query with a std::string_view counterpart, "
                     "compared call by call with libstdc++'s std::string_view on the same bytes under ASan; exceptions compared by type, "
                     "process termination counts as mismatch. Complete enumeration of that finite space, no sampling.",
                note="libstdc++ std::string_view as reference; alphabet and length bound; calls only where std::string_view is defined"),
}

NA = {}

checks = []
for i in ids:
    if i in CHECKS:
        c = CHECKS[i]
        checks.append({
            "property_id": i,
            "quick_cmd": "bin/check %s --tier quick" % i,
            "thorough_cmd": "bin/check %s --tier thorough" % i,
            "evidence_file": "evidence/%s.json" % i,
            "replay_cmd_template": "bin/check %s --replay {path}" % i,
            "engine": c["engine"],
            "level_claimed": {"category": "model_checking", "text": c["text"], "design_ref": "DESIGN.md section " + c["design"]},
            "level_note": c["note"],
            "technique": c["technique"],
        })
na = [{"property_id": i, "reason": NA.get(i, "check not built yet (work in progress, see DESIGN.md section 4)")}
      for i in ids if i not in CHECKS]
m = {
    "version": 1,
    "setup_cmd": "true",
    "hooks": {"guard": "TLX_VERIF",
              "enable": "no source hooks: harness TUs are compiled with -include engine/sched/vshim.hpp (shadow namespace tlx::std) against unmodified /repo sources",
              "baseline_off_cmd": "ctest --test-dir /repo/_build -j8 --timeout 900",
              "source_commits": [], "add_only": True},
    "engines": [
        {"name": "venum", "path": "engine/common", "serves_properties": [i for i in ids if CHECKS.get(i, {}).get("engine") == "venum"],
         "kind_free_text": E3},
        {"name": "vhist", "path": "engine/hist", "serves_properties": [i for i in ids if CHECKS.get(i, {}).get("engine") == "vhist"],
         "kind_free_text": E2},
        {"name": "vsched", "path": "engine/sched", "serves_properties": [i for i in ids if CHECKS.get(i, {}).get("engine") == "vsched"],
         "kind_free_text": E1},
    ],
    "checks": checks,
    "notes": "All checks are bounded exhaustive explorations of the unmodified tlx code (see DESIGN.md). bin/check rebuilds harnesses from /repo's working tree (hash-keyed cache under build/).",
    "not_applicable": na,
}
json.dump(m, open(os.path.join(HERE, "MANIFEST.json"), "w"), indent=1)
print("checks:", len(checks), "not claimed:", len(na))
