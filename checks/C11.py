from vlib import Harness, NCPU


def plan(tier):
    h = Harness("c11_sync", ["harness/c11_sync.cpp"], flavor="asan", shim=True, extra_flags=["-fno-access-control"])
    # thorough: most semaphore executions end in a legal quiescent state with blocked waiters, which ends the worker
    # process; a new ASan process costs ~7 ms of system time, a plain one ~1.5 ms.  The quick scenario set runs under
    # ASan in both tiers; the larger thorough set runs in a plain -O2 build (asserts on, same oracles).
    hp = Harness("c11_sync_plain", ["harness/c11_sync.cpp"], flavor="plain", shim=True, extra_flags=["-fno-access-control"])
    # TSan build, only the happens-before scenarios of the barriers (hb:*): plain data handed through the barrier; the barrier's
    # acquire/release operations are the only ordering TSan can see (the scheduler TU is uninstrumented)
    ht = Harness("c11_sync_tsan", ["harness/c11_sync.cpp"], flavor="tsan", shim=True, extra_flags=["-fno-access-control"])
    runs = [(h, ["--tier", "quick", "--deadline", "240"], NCPU),
            (ht, ["--tier", tier, "scenario=hb:", "nostateful=1", "--deadline", "200"], 12)]
    if tier == "thorough":
        runs.append((hp, ["--tier", "thorough", "--deadline", "1500"], NCPU))
    return {
        "harnesses": [h, ht, hp] if tier == "thorough" else [h, ht],
        "runs": runs,
        "states_key": "schedules_at_top_bound", "transitions_key": "transitions", "traces_key": "executions",
        "distinct_key": "schedules_at_top_bound",
        "rule": "every tuple of per-thread Semaphore call scripts (2-4 threads, 1-2 calls each, bounded total, initial value 0/1) and every "
                "barrier instance (n=1..4 threads x 1..3 generations x Mutex/Spin x wait/wait_yield); for each, every thread interleaving "
                "with at most B preemptions (iterated B=0,1,..) and every notify_one target choice, executed on the real code under the "
                "serialising scheduler; a schedule is one distinct choice list; states = distinct schedules at the highest completed bound",
        "assumptions": ["sequentially consistent interleavings only, except for the barriers' happens-before scenarios (hb:*), which run in a TSan build: plain data written before "
                        "the barrier, read by the action and read after the barrier must be ordered by the barrier's own acquire/release operations", "no spurious wake-ups in the main exploration",
                        "preemption-bounded: bugs needing more preemptions than the completed bound are missed"],
    }
