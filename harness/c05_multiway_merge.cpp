// C05 — sequential multiway merge (tlx/algorithm/multiway_merge.hpp, merge_advance.hpp,
// container/loser_tree.hpp) vs. a std::stable_sort reference, bounded exhaustive enumeration (E3).
//
// One case = one tuple of k sorted key sequences.  Inside a case: both element types x every
// length in 0..total x every (entry point, algorithm) configuration; every call is a real tlx
// call on freshly reset iterator pairs and a canary-filled, exact-size output block.
//
// Families of tuples (each is enumerated completely, ids are ranks -> unranked by DP tables):
//   U(k, lmin, lmax, nkeys, cap): all k-tuples of sorted sequences over keys {0..nkeys-1} with
//       lmin <= len <= lmax and total length <= cap   (cap >= k*lmax means "no cap").
//   D(k, lother): one "dominant" sequence of length 12 over keys {0,1,2} (all 91) at every
//       position, the other k-1 sequences every sorted sequence of length 0..lother.
//
// Contract decisions (documented contract = doc comments of multiway_merge.hpp + what
// /repo/tests/algorithm/multiway_merge_test.cpp pins down):
//   * `size` ("Maximum size to merge") is only ever passed with 0 <= size <= total; k = 1 does a
//     plain std::copy of `size` elements, so larger sizes are outside the contract.
//   * *_sentinels entry points / Sentinels = true: every sequence is followed by one extra,
//     readable slot holding a key greater than all real keys (the repo test appends
//     numeric_limits::max()); the iterator pair still ends BEFORE that slot.  Non-sentinel entry
//     points get exact-size blocks, so any read of *end is an ASan report.
//   * MWMA_LOSER_TREE_SENTINEL on a non-sentinel entry point: multiway_merge_base explicitly
//     rewrites it to MWMA_LOSER_TREE_COMBINED (multiway_merge.hpp:1181), i.e. the call is
//     defined; it is enumerated too.  (The repo test skips that combination.)
//   * multiway_merge_base<Stable,Sentinels> is what the four frontends forward to 1:1; it is
//     called directly for all four template settings with its *default* algorithm argument,
//     the frontends are called with every algorithm.
//   * unstable variants: the key sequence must equal the reference and the elements taken from
//     each input must be exactly a prefix of that input (any interleaving of equal keys).
//   * Iterators are raw pointers, the iterator-pair container is a std::vector of exact size k.
#include <tlx/algorithm/multiway_merge.hpp>

#include <algorithm>
#include <cstdint>
#include <cstdlib>
#include <cstring>
#include <string>
#include <utility>
#include <vector>

#include "common/vharness.hpp"

typedef std::vector<std::vector<uint8_t>> Tuple;

// ---------------------------------------------------------------------------------------------
// element types

static const uint32_t TAG_SENTINEL = 0xFFFFFFFFu, TAG_CANARY = 0xFFFFFFFEu;
static const uint32_t KEY_SENTINEL = 0xFFFFFFFFu;  // greater than all real keys (as in the repo test)

static const uint32_t ELEM_MAGIC = 0xC0FFEEu;
static long g_cmp_foreign = 0;  // comparator calls with an argument that is not an element made by the harness

struct Small {  // 12 bytes <= 2*sizeof(size_t): LoserTreeCopy / LoserTreeCopyUnguarded
    uint32_t key, tag;
    uint32_t magic;  // set by make(): a value-initialised Small (what the copy trees store for exhausted players) has 0
    static const char* name() { return "small8"; }
    static Small make(uint32_t k, uint32_t t) { return Small{k, t, ELEM_MAGIC}; }
    bool intact() const { return magic == ELEM_MAGIC; }
    bool real() const { return magic == ELEM_MAGIC; }
    bool same(const Small& o) const { return key == o.key && tag == o.tag; }
};
struct Big {  // 40 bytes > 2*sizeof(size_t): LoserTreePointer / LoserTreePointerUnguarded
    uint32_t key, tag;
    uint64_t pad[4];
    static const char* name() { return "big40"; }
    static uint64_t mix(uint32_t k, uint32_t t, int i) {
        return (uint64_t(t) + 1) * 0x9E3779B97F4A7C15ull + (uint64_t(k) << 32) + i;
    }
    static Big make(uint32_t k, uint32_t t) {
        Big b;
        b.key = k, b.tag = t;
        for (int i = 0; i < 4; ++i) b.pad[i] = mix(k, t, i);
        return b;
    }
    bool intact() const {
        for (int i = 0; i < 4; ++i)
            if (pad[i] != mix(key, tag, i)) return false;
        return true;
    }
    bool real() const { return intact(); }
    bool same(const Big& o) const { return key == o.key && tag == o.tag && memcmp(pad, o.pad, sizeof pad) == 0; }
};
// heap-owning, lifetime-tracked element of 16 bytes (still the copy-based loser trees): assignment onto storage that never
// held a constructed object, reading a destroyed element, leaked temporaries and double destruction are visible
struct Own {
    uint32_t key, tag;
    int* heap;
    enum { MAGIC = 0x5a5a };
    static long& live() { static long v = 0; return v; }
    static long& errors() { static long v = 0; return v; }
    bool ok() const { return heap != nullptr && *heap == MAGIC; }
    Own() : key(0), tag(0), heap(new int(MAGIC)) { live()++; }
    Own(const Own& o) : key(o.key), tag(o.tag), heap(new int(MAGIC)) {
        if (!o.ok()) errors()++;
        live()++;
    }
    Own& operator=(const Own& o) {
        if (!o.ok() || !ok()) errors()++;
        key = o.key, tag = o.tag;
        return *this;
    }
    ~Own() {
        if (!ok()) errors()++;
        else *heap = 0;
        delete heap;
        heap = nullptr;
        live()--;
    }
    static const char* name() { return "own16"; }
    static Own make(uint32_t k, uint32_t t) {
        Own o;
        o.key = k, o.tag = t;
        return o;
    }
    bool intact() const { return ok(); }
    bool real() const { return true; }  // (a default-constructed Own owns memory like any other: not distinguishable)
    bool same(const Own& o) const { return key == o.key && tag == o.tag; }
};
static_assert(sizeof(Own) <= 2 * sizeof(size_t), "Own must select the copy-based loser trees");
template <class T>
struct Lifetime {
    static long live() { return 0; }
    static long take_errors() { return 0; }
};
template <>
struct Lifetime<Own> {
    static long live() { return Own::live(); }
    static long take_errors() {
        long e = Own::errors();
        Own::errors() = 0;
        return e;
    }
};
static_assert(sizeof(Small) <= 2 * sizeof(size_t), "Small must select the copy-based loser trees");
static_assert(sizeof(Big) > 2 * sizeof(size_t) && sizeof(Big) >= 40, "Big must select the pointer-based loser trees");

template <class T>
struct KeyLess {  // looks at the key only: the tag makes the tie order observable
    // A user comparator may only be able to handle real elements (pointers it dereferences, indices into a table): the
    // guarded trees keep a `sup` flag so that the value-initialised key of an exhausted player is never compared.
    bool operator()(const T& a, const T& b) const {
        if (!a.real() || !b.real()) ++g_cmp_foreign;
        return a.key < b.key;
    }
};

// ---------------------------------------------------------------------------------------------
// configurations: entry point x algorithm

enum { E_MM = 0, E_SMM, E_MMS, E_SMMS, E_BASE00, E_BASE10, E_BASE01, E_BASE11, E_N };
static const char* const ENTRY_NAME[E_N] = {"multiway_merge", "stable_multiway_merge", "multiway_merge_sentinels",
                                            "stable_multiway_merge_sentinels", "multiway_merge_base<0,0>",
                                            "multiway_merge_base<1,0>", "multiway_merge_base<0,1>",
                                            "multiway_merge_base<1,1>"};
static const bool ENTRY_STABLE[E_N] = {false, true, false, true, false, true, false, true};
static const bool ENTRY_SENT[E_N] = {false, false, true, true, false, false, true, true};
static const char* const ALGO_NAME[5] = {"LOSER_TREE", "LOSER_TREE_COMBINED", "LOSER_TREE_SENTINEL", "BUBBLE", "DEFAULT"};
static_assert(tlx::MWMA_LOSER_TREE == 0 && tlx::MWMA_LOSER_TREE_COMBINED == 1 && tlx::MWMA_LOSER_TREE_SENTINEL == 2 &&
                  tlx::MWMA_BUBBLE == 3 && tlx::MWMA_ALGORITHM_LAST == 4,
              "enum MultiwayMergeAlgorithm changed: revisit the configuration table");

struct Cfg {
    int entry, algo;  // algo 4 = default argument (base only)
    bool stable, sent;
    std::string op[3];  // "<entry>[<algo>,<elemtype>]" for Small / Big / Own
};
static std::vector<Cfg> g_cfg;

static void build_cfgs() {
    for (int e = 0; e < E_N; ++e)
        for (int a = 0; a < 5; ++a) {
            bool base = e >= E_BASE00;
            if (base != (a == 4)) continue;
            Cfg c;
            c.entry = e, c.algo = a, c.stable = ENTRY_STABLE[e], c.sent = ENTRY_SENT[e];
            c.op[0] = std::string(ENTRY_NAME[e]) + "[" + ALGO_NAME[a] + "," + Small::name() + "]";
            c.op[1] = std::string(ENTRY_NAME[e]) + "[" + ALGO_NAME[a] + "," + Big::name() + "]";
            c.op[2] = std::string(ENTRY_NAME[e]) + "[" + ALGO_NAME[a] + "," + Own::name() + "]";
            g_cfg.push_back(c);
        }
}

template <class T>
static T* call_tlx(const Cfg& c, std::vector<std::pair<T*, T*>>& s, T* target, ptrdiff_t len) {
    KeyLess<T> cmp;
    tlx::MultiwayMergeAlgorithm m = static_cast<tlx::MultiwayMergeAlgorithm>(c.algo);
    switch (c.entry) {
    case E_MM: return tlx::multiway_merge(s.begin(), s.end(), target, len, cmp, m);
    case E_SMM: return tlx::stable_multiway_merge(s.begin(), s.end(), target, len, cmp, m);
    case E_MMS: return tlx::multiway_merge_sentinels(s.begin(), s.end(), target, len, cmp, m);
    case E_SMMS: return tlx::stable_multiway_merge_sentinels(s.begin(), s.end(), target, len, cmp, m);
    case E_BASE00: return tlx::multiway_merge_base<false, false>(s.begin(), s.end(), target, len, cmp);
    case E_BASE10: return tlx::multiway_merge_base<true, false>(s.begin(), s.end(), target, len, cmp);
    case E_BASE01: return tlx::multiway_merge_base<false, true>(s.begin(), s.end(), target, len, cmp);
    default: return tlx::multiway_merge_base<true, true>(s.begin(), s.end(), target, len, cmp);
    }
}

// ---------------------------------------------------------------------------------------------
// one tuple

static std::string tuple_str(const Tuple& tp) {
    if (tp.empty()) return "none";
    std::string s;
    for (size_t i = 0; i < tp.size(); ++i) {
        if (i) s += ',';
        if (tp[i].empty()) s += '-';
        for (uint8_t k : tp[i]) s += char('0' + k);
    }
    return s;
}
static Tuple tuple_parse(const std::string& s) {
    Tuple tp;
    if (s == "none") return tp;
    tp.emplace_back();
    for (char c : s) {
        if (c == ',') tp.emplace_back();
        else if (c >= '0' && c <= '9') tp.back().push_back(uint8_t(c - '0'));
    }
    return tp;
}

static unsigned long long n_merges = 0, n_inputs = 0, n_nontrivial = 0, n_elems = 0;

template <class T>
static T* alloc_block(size_t n) {  // exact-size heap block: ASan redzones directly around it; elements default-constructed
    T* p = static_cast<T*>(malloc(n * sizeof(T)));
    for (size_t i = 0; i < n; ++i) new (p + i) T();
    return p;
}
template <class T>
static void free_block(T* p, size_t n) {
    for (size_t i = 0; i < n; ++i) p[i].~T();
    free(p);
}

template <class T>
static void run_tuple_T(const Tuple& tp, const std::string& rp, int ti) {
    const int k = (int)tp.size();
    size_t total = 0;
    for (auto& s : tp) total += s.size();

    // inputs: plain (exact size) and sentinel-terminated blocks, plus pristine copies
    std::vector<T*> plain(k), sent(k);
    std::vector<std::vector<T>> pristine(k);
    for (int i = 0; i < k; ++i) {
        size_t n = tp[i].size();
        plain[i] = alloc_block<T>(n);
        sent[i] = alloc_block<T>(n + 1);
        for (size_t p = 0; p < n; ++p) {
            T e = T::make(tp[i][p], uint32_t(i) * 256 + uint32_t(p));
            plain[i][p] = e, sent[i][p] = e;
            pristine[i].push_back(e);
        }
        sent[i][n] = T::make(KEY_SENTINEL, TAG_SENTINEL);
        pristine[i].push_back(sent[i][n]);
    }
    // reference: stable sort of (key, seq, pos)
    std::vector<uint32_t> ref;  // tags in reference order
    for (int i = 0; i < k; ++i)
        for (size_t p = 0; p < tp[i].size(); ++p) ref.push_back(uint32_t(i) * 256 + uint32_t(p));
    std::stable_sort(ref.begin(), ref.end(),
                     [&](uint32_t a, uint32_t b) { return tp[a >> 8][a & 255] < tp[b >> 8][b & 255]; });
    std::vector<uint32_t> refkey(total);
    for (size_t j = 0; j < total; ++j) refkey[j] = tp[ref[j] >> 8][ref[j] & 255];

    T* out = alloc_block<T>(total);
    std::vector<std::pair<T*, T*>> seqs(k);
    int nonempty = 0;
    for (auto& s : tp) nonempty += !s.empty();

    std::vector<uint32_t> cnt(k), mask(k);
    for (size_t len = 0; len <= total; ++len) {
        if (ti == 0) {
            ++n_inputs;
            if (len >= 1 && nonempty >= 2) ++n_nontrivial;
        }
        // target + len == end of the heap block: a write past target+len is an ASan report;
        // the slots before target carry canaries.
        T* target = out + (total - len);
        for (const Cfg& c : g_cfg) {
            T* const* in = c.sent ? sent.data() : plain.data();
            for (int i = 0; i < k; ++i) seqs[i] = std::make_pair(in[i], in[i] + tp[i].size());
            for (size_t j = 0; j < total; ++j) out[j] = T::make(0xCA000000u + uint32_t(j), TAG_CANARY);
            const char* op = c.op[ti].c_str();
            vh::at_op(op);
            long live_before = Lifetime<T>::live();
            g_cmp_foreign = 0;
            T* ret = call_tlx<T>(c, seqs, target, (ptrdiff_t)len);
            if (g_cmp_foreign)
                vh::fail(std::string(op) + "/comparator-argument", rp,
                         vh::fmt("seqs=%s length=%zu %s: the comparator was called %ld time(s) with an object that is not an input element or sentinel "
                                 "(e.g. the value-initialised key of an exhausted player)", rp.c_str(), len, op, g_cmp_foreign));
            if (long e = Lifetime<T>::take_errors())
                vh::fail(std::string(op) + "/element-lifetime", rp,
                         vh::fmt("seqs=%s length=%zu %s: %ld use(s) of an element that is not alive (assignment onto raw storage, read of a destroyed element, double destruction)",
                                 rp.c_str(), len, op, e));
            if (Lifetime<T>::live() != live_before)
                vh::fail(std::string(op) + "/element-leak", rp,
                         vh::fmt("seqs=%s length=%zu %s: %ld element instance(s) created by the merge are still alive after it returned", rp.c_str(), len, op,
                                 Lifetime<T>::live() - live_before));
            ++n_merges;
            n_elems += len;

            auto desc = [&](const char* what) {
                std::string o;
                for (size_t j = 0; j < len; ++j) {
                    const T& e = target[j];
                    if (e.tag == TAG_CANARY) o += " <unwritten>";
                    else if (e.tag == TAG_SENTINEL) o += " <sentinel>";
                    else o += vh::fmt(" %u@s%u.%u", e.key, e.tag >> 8, e.tag & 255);
                }
                std::string r;
                for (size_t j = 0; j < len; ++j) r += vh::fmt(" %u@s%u.%u", refkey[j], ref[j] >> 8, ref[j] & 255);
                return vh::fmt("%s: seqs=%s length=%zu %s: out=[%s ] ref=[%s ]", what, rp.c_str(), len, op, o.c_str(),
                               r.c_str());
            };

            // --- values / stability
            bool values_ok = true, stable_ok = true;
            std::fill(cnt.begin(), cnt.end(), 0u);
            std::fill(mask.begin(), mask.end(), 0u);
            for (size_t j = 0; j < len; ++j) {
                const T& e = target[j];
                uint32_t s = e.tag >> 8, p = e.tag & 255;
                if (e.tag == TAG_CANARY || e.tag == TAG_SENTINEL || s >= (uint32_t)k || p >= tp[s].size() ||
                    !e.same(pristine[s][p]) || !e.intact() || e.key != refkey[j]) {
                    values_ok = false;
                    continue;
                }
                if (mask[s] & (1u << p)) values_ok = false;  // same input element emitted twice
                mask[s] |= 1u << p;
                ++cnt[s];
                if (e.tag != ref[j]) stable_ok = false;
            }
            for (int i = 0; i < k; ++i)  // elements taken from input i must be exactly its first cnt[i]
                if (mask[i] != (cnt[i] >= 32 ? 0xFFFFFFFFu : (1u << cnt[i]) - 1)) values_ok = false;
            if (!values_ok) vh::fail(std::string(op) + "/values", rp, desc("wrong elements"));
            else if (c.stable && !stable_ok) vh::fail(std::string(op) + "/stability", rp, desc("equal keys out of (sequence, position) order"));

            // --- return value
            if (ret != target + len)
                vh::fail(std::string(op) + "/return", rp,
                         vh::fmt("seqs=%s length=%zu %s: returned target%+td, expected target+%zu", rp.c_str(), len, op,
                                 ret - target, len));
            // --- input cursors: advanced by exactly the number of elements of that input in the output
            if (values_ok) {
                for (int i = 0; i < k; ++i)
                    if (seqs[i].first != in[i] + cnt[i] || seqs[i].second != in[i] + tp[i].size()) {
                        vh::fail(std::string(op) + "/advance", rp,
                                 vh::fmt("seqs=%s length=%zu %s: sequence %d: %u element(s) in the output but begin advanced by %td "
                                         "(end moved by %td)",
                                         rp.c_str(), len, op, i, cnt[i], seqs[i].first - in[i],
                                         seqs[i].second - (in[i] + tp[i].size())));
                        break;
                    }
            }
            // --- nothing written outside [target, target+len): canaries before target, inputs and
            //     sentinel slots untouched (behind target+len is the ASan redzone)
            bool clean = true;
            for (size_t j = 0; j + len < total; ++j)
                if (!out[j].same(T::make(0xCA000000u + uint32_t(j), TAG_CANARY))) clean = false;
            for (int i = 0; i < k; ++i) {
                size_t n = tp[i].size() + (c.sent ? 1 : 0);
                for (size_t p = 0; p < n; ++p)
                    if (!in[i][p].same(pristine[i][p])) clean = false;
            }
            if (!clean) {
                vh::fail(std::string(op) + "/overrun", rp,
                         vh::fmt("seqs=%s length=%zu %s: memory outside [target,target+length) was modified (output canary, "
                                 "input element or sentinel slot)",
                                 rp.c_str(), len, op));
                // restore the inputs for the following calls
                for (int i = 0; i < k; ++i) {
                    for (size_t p = 0; p < tp[i].size(); ++p) plain[i][p] = pristine[i][p];
                    for (size_t p = 0; p <= tp[i].size(); ++p) sent[i][p] = pristine[i][p];
                }
            }
        }
    }
    free_block(out, total);
    for (int i = 0; i < k; ++i) free_block(plain[i], tp[i].size()), free_block(sent[i], tp[i].size() + 1);
    pristine.clear();
    Lifetime<T>::take_errors();  // (harness-side copies of intact elements do not count; reset for the next tuple)
}

static void run_tuple(const Tuple& tp) {
    std::string rp = tuple_str(tp);
    vh::at("setup", rp);
    // watchdog: a tuple takes milliseconds; an endless loop inside tlx kills the crash-isolated child
    // with SIGALRM and is reported as "<entry>[<algo>,<type>]/signal:14" (vh::run_cases has no per-case timeout)
    alarm(10);
    run_tuple_T<Small>(tp, rp, 0);
    run_tuple_T<Big>(tp, rp, 1);
    // heap-owning elements cost an allocation per element copy: every tuple in the quick tier, every fifth in the thorough tier
    static unsigned long long own_n = 0;
    if (!vh::args().thorough() || own_n++ % 5 == 0) run_tuple_T<Own>(tp, rp, 2);
    // outcome classes: show that the enumeration reaches the interesting shapes for every k
    int k = (int)tp.size(), empties = 0;
    size_t total = 0, maxlen = 0;
    bool cross_ties = false;
    uint32_t seen[16] = {0};
    for (int i = 0; i < k; ++i) {
        empties += tp[i].empty();
        total += tp[i].size();
        maxlen = std::max(maxlen, tp[i].size());
        for (uint8_t key : tp[i]) {
            if (seen[key] && seen[key] != uint32_t(i + 1)) cross_ties = true;
            if (!seen[key]) seen[key] = uint32_t(i + 1);
        }
    }
    vh::outcome(vh::fmt("k=%d empties=%s ties_across_sequences=%d dominant=%d", k,
                        empties == 0 ? "none" : (empties == k ? "all" : "some"), (int)cross_ties, (int)(maxlen >= 12)));
    vh::stat_add("cases");
    vh::stat_add(vh::fmt("cases_k%d", k).c_str());
    vh::stat_add("inputs", n_inputs);
    vh::stat_add("inputs_nontrivial", n_nontrivial);
    vh::stat_add("merges", n_merges);
    vh::stat_add("elements_compared", n_elems);
    vh::stat_max("max_total_length", (long long)total);
    n_inputs = n_nontrivial = n_merges = n_elems = 0;
    alarm(0);
}

// ---------------------------------------------------------------------------------------------
// families

static std::vector<std::vector<std::vector<uint8_t>>> sorted_seqs_by_len(int lmax, int nkeys) {
    std::vector<std::vector<std::vector<uint8_t>>> r(lmax + 1);
    r[0].push_back({});
    for (int l = 1; l <= lmax; ++l)
        for (auto& s : r[l - 1])
            for (int key = s.empty() ? 0 : s.back(); key < nkeys; ++key) {
                auto t = s;
                t.push_back(uint8_t(key));
                r[l].push_back(t);
            }
    return r;
}

struct Family {
    char kind;  // 'U' or 'D'
    int k, lmin, lmax, nkeys, cap;
    std::vector<std::vector<std::vector<uint8_t>>> seqs;  // by length
    std::vector<std::vector<uint64_t>> ways;               // ways[j][r]: j sequences, total <= r
    std::vector<std::vector<uint8_t>> dom, other;          // kind D
    uint64_t n;

    static Family U(int k, int lmin, int lmax, int nkeys, int cap) {
        Family f;
        f.kind = 'U', f.k = k, f.lmin = lmin, f.lmax = lmax, f.nkeys = nkeys, f.cap = std::min(cap, k * lmax);
        f.seqs = sorted_seqs_by_len(lmax, nkeys);
        f.ways.assign(k + 1, std::vector<uint64_t>(f.cap + 1, 0));
        for (int r = 0; r <= f.cap; ++r) f.ways[0][r] = 1;
        for (int j = 1; j <= k; ++j)
            for (int r = 0; r <= f.cap; ++r)
                for (int l = lmin; l <= lmax && l <= r; ++l) f.ways[j][r] += f.seqs[l].size() * f.ways[j - 1][r - l];
        f.n = f.ways[k][f.cap];
        return f;
    }
    static Family D(int k, int lother) {
        Family f;
        f.kind = 'D', f.k = k, f.lmin = 0, f.lmax = lother, f.nkeys = 3, f.cap = 0;
        f.dom = sorted_seqs_by_len(12, 3)[12];
        for (auto& v : sorted_seqs_by_len(lother, 3))
            for (auto& s : v) f.other.push_back(s);
        f.n = uint64_t(k) * f.dom.size();
        for (int i = 1; i < k; ++i) f.n *= f.other.size();
        return f;
    }
    Tuple unrank(uint64_t rank) const {
        Tuple tp;
        if (kind == 'D') {
            int pos = int(rank % k);
            rank /= k;
            const auto& d = dom[rank % dom.size()];
            rank /= dom.size();
            for (int i = 0; i < k; ++i) {
                if (i == pos) tp.push_back(d);
                else tp.push_back(other[rank % other.size()]), rank /= other.size();
            }
            return tp;
        }
        int r = cap;
        for (int p = 0; p < k; ++p) {
            int j = k - p - 1;
            for (int l = lmin; l <= lmax && l <= r; ++l) {
                uint64_t w = ways[j][r - l], block = seqs[l].size() * w;
                if (rank < block) {
                    tp.push_back(seqs[l][rank / w]);
                    rank %= w;
                    r -= l;
                    break;
                }
                rank -= block;
            }
        }
        return tp;
    }
    bool contains(const Tuple& tp) const {  // kind U only
        if (kind != 'U' || (int)tp.size() != k) return false;
        int total = 0;
        for (auto& q : tp) {
            if ((int)q.size() < lmin || (int)q.size() > lmax) return false;
            for (uint8_t key : q)
                if (key >= nkeys) return false;
            total += (int)q.size();
        }
        return total <= cap;
    }
    std::string describe() const {
        if (kind == 'D')
            return vh::fmt("D(k=%d: one sequence of length 12 over {0,1,2} at every position, others all sorted sequences of length 0..%d): %llu tuples",
                           k, lmax, (unsigned long long)n);
        return vh::fmt("U(k=%d, len %d..%d, keys 0..%d, total<=%d): %llu tuples", k, lmin, lmax, nkeys - 1, cap,
                       (unsigned long long)n);
    }
};

static std::vector<Family> families(bool thorough) {
    std::vector<Family> F;
    const int NOCAP = 1 << 20;
    if (!thorough) {
        for (int k = 0; k <= 3; ++k) F.push_back(Family::U(k, 0, 4, 3, NOCAP));
        F.push_back(Family::U(4, 0, 4, 3, 8));
        F.push_back(Family::U(5, 0, 4, 3, 7));
        F.push_back(Family::U(6, 0, 4, 3, 6));
        // dense: no empty sequence, so that the unguarded phase of LOSER_TREE_COMBINED runs
        F.push_back(Family::U(4, 1, 2, 3, NOCAP));
        F.push_back(Family::U(5, 1, 2, 3, NOCAP));
        F.push_back(Family::U(6, 1, 2, 3, 8));
        F.push_back(Family::D(3, 1));
        F.push_back(Family::D(4, 1));
    } else {
        for (int k = 0; k <= 3; ++k) F.push_back(Family::U(k, 0, 5, 3, NOCAP));
        F.push_back(Family::U(4, 0, 5, 3, 11));
        F.push_back(Family::U(5, 0, 5, 3, 9));
        F.push_back(Family::U(6, 0, 5, 3, 8));
        F.push_back(Family::U(7, 0, 5, 3, 7));
        F.push_back(Family::U(8, 0, 5, 3, 6));
        F.push_back(Family::U(9, 0, 5, 3, 6));
        // dense: no empty sequence
        F.push_back(Family::U(4, 1, 3, 3, NOCAP));
        F.push_back(Family::U(5, 1, 3, 3, 10));
        F.push_back(Family::U(6, 1, 2, 3, NOCAP));
        F.push_back(Family::U(7, 1, 2, 3, 9));
        F.push_back(Family::U(7, 1, 2, 2, NOCAP));
        F.push_back(Family::U(8, 1, 2, 2, NOCAP));
        F.push_back(Family::U(9, 1, 2, 2, 12));
        // dominant
        F.push_back(Family::D(2, 2));
        F.push_back(Family::D(3, 2));
        F.push_back(Family::D(4, 2));
        F.push_back(Family::D(5, 1));
        F.push_back(Family::D(6, 1));
    }
    return F;
}

int main(int argc, char** argv) {
    vh::init(argc, argv);
    build_cfgs();
    if (vh::args().has_replay)
        return vh::replay_one([&](const std::string& r) { run_tuple(tuple_parse(r)); });

    std::vector<Family> F = families(vh::args().thorough());
    uint64_t ncases = 0;
    for (auto& f : F) ncases += f.n;
    if (vh::args().shard == 0) {
        for (auto& f : F) vh::note(f.describe());
        vh::sample(vh::fmt("tuple %s: for both element types (small8 -> copy loser trees, big40 -> pointer loser trees), every "
                           "length 0..total, %zu (entry point, algorithm) configurations, e.g. %s",
                           tuple_str(F.back().unrank(F.back().n / 2)).c_str(), g_cfg.size(), g_cfg[5].op[1].c_str()));
        vh::sample("tuple 0012,-,22 length=3 stable_multiway_merge[LOSER_TREE_COMBINED,small8]: expect out = 0@s0.0 0@s0.1 1@s0.2, "
                   "return target+3, begins advanced by (3,0,0), canaries / inputs untouched");
    }
    // Interleave the families over the id space so that every shard gets the same mix:
    // id -> (family, rank) by prefix sums.
    std::vector<uint64_t> start(F.size() + 1, 0);
    for (size_t i = 0; i < F.size(); ++i) start[i + 1] = start[i] + F[i].n;
    vh::run_cases(ncases, [&](uint64_t id) {
        size_t fi = std::upper_bound(start.begin(), start.end(), id) - start.begin() - 1;
        Tuple tp = F[fi].unrank(id - start[fi]);
        for (size_t j = 0; j < fi; ++j)  // the families overlap a little: run (and count) every tuple once
            if (F[j].contains(tp)) {
                vh::stat_add("tuples_already_in_earlier_family");
                return;
            }
        run_tuple(tp);
    });
    return vh::finish();
}
