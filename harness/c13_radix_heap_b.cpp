// C13 — tlx::RadixHeap with uint8_t keys x radix {2,4,8,16,64} (driver and oracles: c13_radix_heap.hpp).
// Quick tier: radix {2,8,64} of this key type.
#include "c13_radix_heap.hpp"

namespace c13 {
void register_radix_2(std::vector<Config>& out, bool thorough) {
    add_radix<uint8_t, 2>(out, thorough, true);
    add_radix<uint8_t, 4>(out, thorough, false);
    add_radix<uint8_t, 8>(out, thorough, true);
    add_radix<uint8_t, 16>(out, thorough, false);
    add_radix<uint8_t, 64>(out, thorough, true);
}
}  // namespace c13
