// C13 — heaps (engine E2): shared pieces of the c13_* translation units.
//
// One binary, several TUs (the template instantiations are heavy, so they are compiled in parallel):
//   c13_main.cpp                 main(): collects the configurations, balances them over the shards, replay
//   c13_dary_heap[_b.._d].cpp        tlx::DAryHeap               two arities each x {less, greater, table comparator}
//   c13_addressable_heap[_b,_c].cpp  tlx::DAryAddressableIntHeap arity 1..8, comparator = external priority table
//   c13_radix_heap[_b.._h].cpp       tlx::RadixHeap              one key type each x radix {2,4,8,16,64}
// A configuration = one template instantiation driven by vhist (closure or depth-bounded BFS).
#pragma once
#include <cstdint>
#include <cstring>
#include <functional>
#include <memory>
#include <string>
#include <vector>

#include "hist/vhist.hpp"

namespace c13 {

// ---------------------------------------------------------------------------------------------
// lifetime ledger.  Elements stored in the heaps carry a `Life` member: every constructor counts the
// object in, the destructor counts it out and marks it DEAD, a move marks the source MOVED.  Reading the
// value of a MOVED/DEAD element, copying/moving from one, destroying twice are recorded as misuse; after
// every transition `live == number of elements the model says are stored`.  (The light-weight form of the
// guide's `Tracked`: no heap block per element — ASan already watches the vector storage, and the DEAD
// marker catches reads of destroyed slots inside a vector's capacity, which ASan does not see.)
struct Ctx {
    long live = 0;
    long misuse = 0;
    std::string first_misuse;
    void bad(const char* what) {
        if (!misuse++) first_misuse = what;
    }
};
extern Ctx* g_ctx;  // ledger of the State currently driven (set on every entry into a System)

enum : uint32_t { L_ALIVE = 0xA11CE5EDu, L_MOVED = 0x30BED0FFu, L_DEAD = 0xDEADDEADu };

struct Life {
    uint32_t st;
    Life() noexcept : st(L_ALIVE) { g_ctx->live++; }
    Life(const Life& o) noexcept : st(L_ALIVE) {
        g_ctx->live++;
        if (o.st != L_ALIVE) g_ctx->bad(o.st == L_MOVED ? "copy-constructed from a moved-from element" : "copy-constructed from a destroyed element");
    }
    Life(Life&& o) noexcept : st(L_ALIVE) {
        g_ctx->live++;
        if (o.st != L_ALIVE) g_ctx->bad(o.st == L_MOVED ? "move-constructed from a moved-from element" : "move-constructed from a destroyed element");
        o.st = L_MOVED;
    }
    Life& operator=(const Life& o) noexcept {
        if (this == &o) return *this;
        if (st == L_DEAD) g_ctx->bad("assignment to a destroyed element");
        if (o.st != L_ALIVE) g_ctx->bad(o.st == L_MOVED ? "copy-assigned from a moved-from element" : "copy-assigned from a destroyed element");
        st = L_ALIVE;
        return *this;
    }
    Life& operator=(Life&& o) noexcept {
        if (this == &o) return *this;
        if (st == L_DEAD) g_ctx->bad("assignment to a destroyed element");
        if (o.st != L_ALIVE) g_ctx->bad(o.st == L_MOVED ? "move-assigned from a moved-from element" : "move-assigned from a destroyed element");
        st = L_ALIVE;
        o.st = L_MOVED;
        return *this;
    }
    ~Life() {
        if (st == L_DEAD) g_ctx->bad("element destroyed twice");
        st = L_DEAD;
        g_ctx->live--;
    }
    bool alive() const { return st == L_ALIVE; }
    // called whenever the element's value is read
    void touch() const {
        if (st != L_ALIVE) g_ctx->bad(st == L_MOVED ? "value of a moved-from element read" : "value of a destroyed element read");
    }
};

// ---------------------------------------------------------------------------------------------
// configuration registry

struct Config {
    std::string name;
    double cost = 1;                                  // relative cost estimate (shard balancing only)
    std::function<void()> run;                        // BFS of this configuration (crash-isolated inside)
    std::function<void(const std::string&)> replay;   // replay one history "op,op,..."
    std::string sample;                               // human-readable example history (optional)
};

template <class Sys>
Config make_config(std::shared_ptr<Sys> sys, double cost, const vhist::Options& opt, const std::string& sample = "") {
    Config c;
    c.name = sys->name();
    c.cost = cost;
    c.sample = sample;
    c.run = [sys, opt] { vhist::run_config(*sys, opt); };
    c.replay = [sys](const std::string& h) { vhist::replay_config(*sys, h); };
    return c;
}

// The engine re-creates a state by replaying its history and calls apply() for every replayed op.  The post-op
// oracles of a replayed PREFIX were already evaluated when that prefix was first executed as a new transition
// (BFS: every prefix of a node's history is itself a node; the code is deterministic, which the engine's
// canon-on-replay assertion checks), so they are evaluated again only for the last op of the history the engine
// has published (vh::at): that is the new transition, or the last op of a rebuilt base state.
// `steps` = number of ops applied to this state so far (including the current one).
inline bool is_last_op_of_published_history(size_t steps) {
    const char* r = vh::shm()->replay;
    const char* bar = strrchr(r, '|');
    if (!bar) return true;
    if (bar[1] == '-' || bar[1] == 0) return true;
    size_t n = 1;
    for (const char* p = bar + 1; *p; ++p)
        if (*p == ',') n++;
    return steps >= n;
}

// key lists for build_heap: code -> list of length <= 3 over nk keys (code 0 = empty list)
inline std::vector<int> decode_list_uncached(unsigned code, int nk) {
    std::vector<int> l;
    unsigned off = 0, cnt = 1;
    for (int len = 0; len <= 3; ++len) {
        if (code < off + cnt) {
            unsigned c = code - off;
            for (int i = 0; i < len; ++i) {
                l.push_back((int)(c % nk));
                c /= nk;
            }
            return l;
        }
        off += cnt;
        cnt *= nk;
    }
    return l;
}
inline const std::vector<int>& decode_list(unsigned code, int nk) {
    static std::vector<std::vector<int>> tab[32];
    std::vector<std::vector<int>>& t = tab[nk & 31];
    if (t.empty())
        for (unsigned c = 0; c < 1u + nk + nk * nk + nk * nk * nk; ++c) t.push_back(decode_list_uncached(c, nk));
    static const std::vector<int> none;
    return code < t.size() ? t[code] : none;
}
inline unsigned num_lists(int nk, int maxlen) {
    unsigned n = 0, cnt = 1;
    for (int len = 0; len <= maxlen; ++len) {
        n += cnt;
        cnt *= nk;
    }
    return n;
}
inline std::string list_str(const std::vector<int>& l) {
    std::string s = "[";
    for (size_t i = 0; i < l.size(); ++i) s += (i ? " " : "") + std::to_string(l[i]);
    return s + "]";
}

// registration functions of the TUs
void register_dary_1(std::vector<Config>&, bool thorough);
void register_dary_2(std::vector<Config>&, bool thorough);
void register_dary_3(std::vector<Config>&, bool thorough);
void register_dary_4(std::vector<Config>&, bool thorough);
void register_addr_1(std::vector<Config>&, bool thorough);
void register_addr_2(std::vector<Config>&, bool thorough);
void register_addr_3(std::vector<Config>&, bool thorough);
void register_radix_1(std::vector<Config>&, bool thorough);
void register_radix_2(std::vector<Config>&, bool thorough);
void register_radix_3(std::vector<Config>&, bool thorough);
void register_radix_4(std::vector<Config>&, bool thorough);
void register_radix_5(std::vector<Config>&, bool thorough);
void register_radix_6(std::vector<Config>&, bool thorough);
void register_radix_7(std::vector<Config>&, bool thorough);
void register_radix_8(std::vector<Config>&, bool thorough);

}  // namespace c13
