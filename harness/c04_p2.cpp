// C04: instantiation of the PS5 templates for parameter set p2 (see c04_common.hpp)
#include "harness/c04_common.hpp"
namespace c04 {
void run_p2(const Case& c, FailFn f) { sort_and_check<P2>(c, f); }
}  // namespace c04
