from vlib import Harness, NCPU

SRC = ["harness/c07_parallel_multiway_merge.cpp"]


def plan(tier):
    common = dict(shim=True, shim_tlx_cpp=["tlx/algorithm/parallel_multiway_merge.cpp"], tlx_cpp=["tlx/die/core.cpp"])
    ha = Harness("c07_pmwm_asan", SRC, flavor="asan", **common)
    ht = Harness("c07_pmwm_tsan", SRC, flavor="tsan", **common)
    dl = "150" if tier == "quick" else "1200"
    return {
        "harnesses": [ha, ht],
        "runs": [(ha, ["--tier", tier, "mode=inputs"], NCPU),
                 (ht, ["--tier", "quick", "mode=inputs", "light=1"], NCPU),
                 (ha, ["--tier", tier, "mode=schedules", "--deadline", dl], NCPU),
                 (ht, ["--tier", tier, "mode=schedules", "--deadline", dl], NCPU)],
        "rule": "inputs: every tuple of k<=3 sorted sequences over 3 keys with lengths 0..2 (quick) / 0..3 (thorough), every 4-tuple over 2 keys with "
                "lengths 0..2, dominant-sequence tuples (thorough: all pairs of a length-4 and a length>=3 sequence), x every length 0..total x threads "
                "{1,2,3,5} / {1,2,3,5,32} x {exact, sampling(oversampling 1,2,10)} x stable/unstable x entry point/algorithm pairs, each executed on the "
                "real code on the deterministic default schedule with a write-counting target (ASan build) and once more in a TSan build (the threads do "
                "not synchronise between fork and join, so one execution per input decides race freedom); schedules: 5 inputs x 2 splittings x stable/unstable "
                "under every interleaving within the bound. states = distinct cases + distinct schedules",
        "states_key": "states", "distinct_key": "states",
        "assumptions": ["SC interleavings only", "key alphabet of 3, stated tuple bounds", "parallel path forced through the documented switches (force_parallel / minimal_n, minimal_k)"],
    }
