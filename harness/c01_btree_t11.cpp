// C01/C02 type configurations, group 11 (see c01_btree.hpp; C01_TYPE(kind, greater, leaf, inner, search 0=linear 1=binary 2=default traits, element))
#include "c01_btree.hpp"
C01_TYPE(MAP, true, 4, 6, 1, int)
C01_TYPE(MMAP, false, 4, 6, 0, int)
C01_TYPE(MMAP, true, 4, 6, 1, int)
C01_TYPE(SET, true, 4, 4, 0, int)
C01_TYPE(SET, false, 4, 4, 1, int)
C01_TYPE(MSET, true, 4, 4, 0, int)
C01_TYPE(MSET, false, 4, 4, 1, int)
