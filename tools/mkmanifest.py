#!/usr/bin/env python3
"""Regenerates MANIFEST.json from the table below (keeps it valid and complete)."""
import json
import os

HERE = os.path.dirname(os.path.dirname(os.path.abspath(__file__)))
ids = [json.loads(l)["id"] for l in open(os.path.join(HERE, "properties.jsonl"))]

E3 = "bounded exhaustive input enumeration of the real code vs. an independent reference (E3 venum)"
E2 = "explicit-state BFS over operation histories of the real object with canonical-state de-duplication vs. a reference model (E2 vhist)"
E1 = "stateless preemption-bounded exhaustive schedule exploration of the real code under a serialising scheduler (E1 vsched), ASan + TSan builds"

CHECKS = {
    "C18": dict(engine="venum", technique=E3, design="4/C18",
                text="Every (haystack, needle) pair over a 4-byte alphabet containing 0x00 and 0x80 up to length 4/3 (quick 3/2), "
                     "every pos/n argument in and beyond range incl. npos, every StringView query with a std::string_view counterpart, "
                     "compared call by call with libstdc++'s std::string_view on the same bytes under ASan; exceptions compared by type, "
                     "process termination counts as mismatch. Complete enumeration of that finite space, no sampling.",
                note="libstdc++ std::string_view as reference; alphabet and length bound; calls only where std::string_view is defined"),
    "C14": dict(engine="venum", technique=E3 + "; chunking independence by exhaustive single-split confluence over every buffer fill (state-machine induction)", design="4/C14",
                text="Every message length 0..1100 (quick 0..300) of three byte families plus long messages through all 10 API forms of MD5/SHA-1/SHA-256/SHA-512 "
                     "vs Python hashlib; every (prefix a, chunk n1, chunk n2) with a+n1+n2 <= 2*block+9 checked for equality of the internal digest state "
                     "with the unsplit call (all partitions follow by induction, the state machine branches only on buffer fill); SipHash plain/sse2/dispatch "
                     "vs an independent paper-derived reference on 147 keys x len 0..80 x 16 alignments + the 64 official vectors. Complete enumeration of that space.",
                note="hashlib/OpenSSL as reference; SipHash reference validated on the official vectors; not all 2^128 keys / longer messages"),
    "C15": dict(engine="venum", technique=E3 + "; zero-one principle with its obliviousness hypothesis checked by recording compare-exchange functors", design="4/C15",
                text="For the three network families and every n in 0..16: all 2^n zero-one inputs through the size-specific sortN and the dispatching sort(), "
                     "sorted output required; the recorded (index,index) compare-exchange sequence must be identical for all inputs and inside [0,n) "
                     "(hypothesis of the zero-one principle, which extends the result to every input and strict weak order); additionally all n! permutations "
                     "(n<=9 quick / 11 thorough) and all 3-key inputs with tags under less and greater, the latter also with records that carry a std::string payload "
                     "(move assignment not self-safe, moved-from payload empty: n<=8). Exhaustive, ASan on.",
                note="zero-one principle (Knuth 5.3.4 Thm Z); obliviousness checked for the int instantiation of the template"),
    "C19": dict(engine="venum", technique=E3, design="4/C19",
                text="All byte strings / string vectors up to a length bound over alphabets containing separators, quotes, escapes, whitespace, NUL and 0xFF: "
                     "base64 (line breaks 0/4/8/12/76, strict and lax) and hexdump round trips and RFC 4648 / hex reference encodings; join/split round trip under "
                     "the property's side condition; split_quoted(join_quoted(v)) == v for every vector of <=3 strings of length <=3 (default and custom triple); "
                     "split with every limit/min_fields, replace_first/all, trim family, starts/ends_with(+icase), contains, to_lower/upper, compare/equal/less_icase, "
                     "erase_all, pad, levenshtein against naive references written from the doc comments. ~5M (quick) / ~24M (thorough) distinct inputs, exhaustive.",
                note="references written from the documented definitions; ambiguities resolved as tests/string_test.cpp pins them (listed in the harness header)"),
    "C20": dict(engine="venum", technique=E3, design="4/C20",
                text="Every value of the 8/16-bit instantiations and (thorough) all 2^32 values of the 32-bit overloads of clz/ctz/ffs/popcount/integer_log2/"
                     "is_power_of_two/round_up,down_to_power_of_two/bswap/rol/ror/sgn, structured 64-bit values (all 1-,2-(,3-)bit patterns, 2^k+-1, extremes), "
                     "two-argument grids for div_ceil/round_up/abs_diff, all against naive/128-bit references, intrinsic overloads vs generic templates; Aggregate: "
                     "every pair of operands built from value lists of length 0..3 combined with + and += in both orders vs one Aggregate fed all values.",
                note="reference in __int128 / naive bit loops; results compared only where representable and the argument is in the documented domain"),
    "C09": dict(engine="venum", technique=E3 + " (every replace-the-winner history of every key assignment, driven to exhaustion)", design="4/C09",
                text="For each of the 8 loser tree classes, k in 1..9 players and every assignment of (unsorted) key sequences of length 0..3 over 3 keys "
                     "within a total-keys bound (7 quick / 9 thorough), the full replace history is driven to exhaustion on the real tree; after init() and "
                     "after every delete_min_insert() the winner must be live, minimal among live players and (stable variants) of smallest index among ties. "
                     "Unguarded variants are driven only within their documented contract (no player runs out; sentinel >= all keys). ~4.8e8 histories quick.",
                note="comparators less and greater on a (key,tag) struct; key alphabet of 3; k <= 9"),
    "C12": dict(engine="vhist+vsched", technique=E2 + " for the sequential histories; " + E1 + " for the concurrent part", design="4/C12",
                text="Sequential: BFS closure (frontier empty) over every history of construct/copy/move/assign (all ordered pairs incl. self and aliases)/"
                     "converting/reset/swap/unify/destroy on 4 handle variables; in every state use_count == number of handles, destructor log exact, ASan; plus linked lists "
                     "(handles stored inside managed objects) walked with same-type, const-converting and base-converting cursors by copy, move and temporary assignment. "
                     "Concurrent: every multiset of 2-3 thread scripts copying/moving/assigning/resetting/unify()ing private handles to one shared object, every interleaving "
                     "within the preemption bound, ASan build (use-after-free, assert in ~ReferenceCounter, destroyed exactly once) and TSan build (payload races); "
                     "the same scenarios are also explored without a bound in explicit-state mode (abstract state = scheduler state + call-site chains + reference count + destructor count).",
                note="SC interleavings; preemption bound 2-3 (2 threads) / 1-2 (3 threads); handle variables themselves are thread-private as documented"),
    "C10": dict(engine="vsched", technique=E1, design="4/C10",
                text="Job-graph scenarios (independent jobs, job->child->grandchild, second enqueuing thread, job calling terminate(), terminate()/destruction "
                     "with queued jobs, two external waiters, an external terminating thread, pool reuse, jobs whose closures own a shared token "
                     "whose destructor enqueues a continuation) for pool sizes 1..3: every interleaving of workers, enqueuers and waiters within the "
                     "bound (preemption bound 1-3 quick / 2-4 thorough for 1-2 workers; delay bound 2 / 3 where 3 workers or 4+ threads make free switches explode) "
                     "and every notify_one target, on the real ThreadPool: per-job counters (exactly once), queue empty and busy==0 at the instant "
                     "loop_until_empty returns, done() count, no deadlock / lost wake-up (no runnable thread = deadlock), ASan build + TSan build (visibility of "
                     "plain job results to the waiter, no race). In addition the 1- and 2-worker scenarios are explored WITHOUT a bound in explicit-state mode: DFS over all "
                     "scheduling choices, pruned at abstract states seen before (scheduler state + per-thread call-site chain, pending operation and loop tag + the pool's "
                     "fields and the job ledger), i.e. every interleaving at scheduling-point granularity.",
                note="SC interleavings only; bounded preemptions/delays; exceptions escaping jobs and thread-creation failure not modelled"),
    "C11": dict(engine="vsched", technique=E1, design="4/C11",
                text="Semaphore: every multiset of per-thread call scripts over {signal(), signal(n), wait(d,s), try_acquire(d,s)} (2-4 threads, 1-2 calls each, "
                     "bounded total, initial value 0/1) under every interleaving within the preemption bound and every notify target: linearised call log replayed "
                     "against a counter model (conservation, wait returns only with value >= delta+slack, return values), and at every quiescent state no blocked "
                     "waiter may be covered by the value (stranded waiter). Barriers (Mutex/Spin x wait/wait_yield): n=1..4 threads x 1..3 generations, ghost "
                     "counters: nobody leaves generation g before all entered, action exactly once, by the last arriver, before any release; reuse. "
                     "2-thread (and small 3-thread) semaphore scenarios and barriers with n<=3, g<=2 are additionally explored without a bound in explicit-state mode (abstract "
                     "state = scheduler state + call-site chains + semaphore value / barrier fields + ghost counters + the call log); the mutex barrier also gets one injected "
                     "spurious wake-up per execution.",
                note="SC interleavings only; preemption bound 1 (quick) / 1-3 (thorough) for the bounded part; the thorough scenario set runs in a plain -O2 build with asserts (process restarts after legal quiescent ends dominate the cost under ASan), the quick set under ASan in both tiers; explicit-state mode relies on the stated state abstraction (checked: an abstract state reached with two different option sets is a hard error); TSan is not an oracle here (no race claim in C11)"),
    "C05": dict(engine="venum", technique=E3, design="4/C05",
                text="Every tuple of sorted sequences over 3 keys (k = 0..6 quick / 0..9 thorough, lengths 0..4/5 within total caps, plus dense and dominant-sequence "
                     "families), every length 0..total, every entry point {multiway_merge, stable_, _sentinels, stable_.._sentinels, multiway_merge_base} x "
                     "{LOSER_TREE, COMBINED, SENTINEL, BUBBLE} x {12-byte element (copy tree), 40-byte element (pointer tree), 16-byte heap-owning lifetime-tracked element}: output equals the first `length` of the "
                     "reference (stable) merge, return value, inputs advanced by exactly the contributed counts (tags), nothing written beyond target+length "
                     "(exact-size heap blocks under ASan, canaries), inputs unmodified, the comparator is only ever called with input elements or sentinels (never with the "
                     "value-initialised key of an exhausted player), no element used while not alive, no element copy leaked. 2.8e8 merges quick.",
                note="key alphabet of 3, stated k / length caps; comparator looks at the key only, tags make stability observable"),
    "C06": dict(engine="vsched+venum", technique=E3 + " with every input executed on the scheduler's deterministic default schedule; " + E1 + " for the schedule dimension", design="4/C06",
                text="Inputs: every key sequence over 3 keys up to length 5/6 plus sorted/reversed/all-equal/organ-pipe/cyclic patterns up to n=24/40 (beyond the 16 elements up to which std::sort is an insertion sort) x threads "
                     "{1,2,3,5,8,16,17}/{1..8,16,17,33} (incl. more threads than elements and more than 16 sequences for the exact splitter) x {exact, sampling} x oversampling x stable/unstable x {POD, heap-owning lifetime-tracked element}: "
                     "sorted permutation, equals std::stable_sort for the stable variant, live-instance count unchanged (temporaries destroyed), input in an exact-size "
                     "heap block under ASan. Schedules: 7 small inputs x both splittings x both element types under every interleaving within the bound, ASan + TSan "
                     "(termination, no race).",
                note="SC interleavings; preemption bound (2 threads) / delay bound (3-4 threads) 1-2 quick, 2-3 thorough; <= 4 distinct keys; n <= 24 quick / 40 thorough"),
    "C17": dict(engine="vhist", technique=E2, design="4/C17",
                text="BFS closure over every history of put/touch/touch_if_exists/erase/erase_if_exists/get_touch/pop/clear on LruCacheSet/LruCacheMap (4-6 int keys, 3-5 heap-owning std::string keys) vs a "
                     "reference recency list incl. exact exception behaviour, and of insert/erase(key)/erase(node)/exists/find/clear on SplayTree set (6-9 keys) and "
                     "multiset (2-3 keys, multiplicity 3-6), comparators less/greater, int and heap-owning tracked keys, counting allocator: membership, size, in-order "
                     "sequence vs std::set/multiset, own BST validity walk over the raw nodes, every node freed exactly once, operations on the empty tree and after clear(), "
                     "destruction of every reached state; states de-duplicated on the tree shape / recency list, with the reference model's digest kept per state (a revisit with a different reference state is a divergence).",
                note="finite key universes as stated; find() compared for membership only (as the property says)"),
    "C07": dict(engine="vsched+venum", technique=E3 + " with every case executed on the scheduler's deterministic default schedule (ASan and TSan builds); " + E1 + " for schedule independence", design="4/C07",
                text="Every tuple of <=3 sorted sequences over 3 keys (lengths 0..2 quick / 0..3 thorough), 4-tuples over 2 keys, dominant-sequence tuples, x every length "
                     "0..total x threads {1,2,3,5}/{1,2,3,5,32} x exact/sampling(oversampling 1,2,10) x stable/unstable x entry points (front end with force_parallel, "
                     "with minimal_n/k=0, _sentinels, _base) x merge algorithms x element type {plain struct, heap-owning lifetime-tracked}, plus tuples of 17-24 sequences: output equals the sequential (stable) merge, return value, inputs advanced by exactly "
                     "the contributed counts, every output slot written exactly once (write-counting target iterator), no element used while not alive (assignment onto raw storage), no copy leaked, ASan. The workers do not synchronise between fork "
                     "and join, so the single TSan execution per input decides race freedom for all schedules; 20 scenarios are additionally explored over all interleavings.",
                note="SC interleavings; key alphabet 3; stated tuple bounds; parallel path forced through the documented global switches"),
    "C04": dict(engine="vsched+venum", technique=E3 + " with every case executed on the scheduler's deterministic default schedule (ASan; TSan on a reduced product); " + E1 + " (delay-bounded) for the schedule dimension", design="4/C04",
                text="Real template code parallel_sample_sort_params<P> (what sort_strings_parallel runs) instantiated with 7 tiny-threshold parameter sets so that the whole "
                     "job graph (sample/count/distribute/big-step recursion, sequential sample sort, mkqs, work sharing, LCP pass) runs on small inputs: every sequence of "
                     "<=4/<=5 strings over 7 short strings plus all-equal/long-prefix/duplicate/prefix-chain/high-byte families up to n=40, x workers 1..3 x with/without LCP x "
                     "C strings/std::string x sampler seeds: sorted permutation of the same string objects, exact LCPs, termination (deadlock = no runnable thread), ASan "
                     "(work item touched after release), TSan. 9 drivers (thorough: 13, incl. std::string sets and other parameter sets) x LCP on/off are explored over every interleaving within the delay bound in ASan and TSan builds.",
                note="SC interleavings; delay bound 1 (quick) / 2 (thorough); tiny thresholds stand in for the default ones (same code, different constants); default classifier only; "
                     "scheduling points at synchronisation operations only, plain accesses are covered by TSan on the explored executions"),
    "C03": dict(engine="venum", technique=E3, design="4/C03",
                text="sort_strings / sort_strings_lcp (all 20 overloads) and the selectable detail sorters (insertion sort, multikey quicksort, radixsort CE0/CE2/CE3/CI2/CI3) "
                     "with and without LCP over UChar/Std/UPtrStd string sets and suffix sets: shapes (all sequences of <=k distinct strings over {0x01,a,b,0xFF} of length <=L "
                     "plus two long strings sharing a 9-byte prefix) x multiplicity vectors over {1,2,31,32,33,70} (both sides of the 32 threshold) x 4 arrangements x memory "
                     "limits chosen around the radix step sizes so every documented fall-back edge is taken, every text over {a,b} up to length 12 for suffix sets, and a family "
                     "of 65535..131072-string inputs for the 16-bit radix switch: permutation of the same string objects, unsigned-byte order, exact LCPs, ASan with asserts on.",
                note="NUL-free strings; stated alphabet/length/multiplicity bounds; n <= 131072"),
    "C16": dict(engine="vhist", technique=E2, design="4/C16",
                text="RingBuffer<Tracked, CountingAllocator> and RingBuffer<int>: BFS closure per (max_size 0..5 quick / 0..9 thorough, second-buffer size) over every history of "
                     "push/emplace at both ends (copy and move), pops, clear, copy/move construction and assignment between two buffers (incl. self), deallocate + allocate(m), move_to, "
                     "states de-duplicated on (capacity, mask, begin, end, contents) so both cursors wrap from every offset; std::deque model for contents and accessors, "
                     "live-set of lifetime-tracked elements == stored elements after every transition, allocator ledger, ASan. SimpleVector in its three modes: construct, resize, "
                     "destroy, fill, move construct/assign, swap with exact element ledger in Normal mode.",
                note="driver never exceeds max_size / pops an empty buffer (documented contract); documented reduction rules R1-R5 bound the two-buffer product"),
    "C08": dict(engine="venum", technique=E3, design="4/C08",
                text="Every tuple of m non-empty sorted sequences over 3 keys (m<=3 full product of lengths 1..6 quick / 1..9 thorough, m=4,5 within total caps, very unequal "
                     "pairs/triples such as (1,17),(16,3),(1,1,17),(1,33)), every rank 0..N for multisequence_partition and 0..N-1 for multisequence_selection, comparators "
                     "less (ascending inputs) and greater (descending): offsets sum to rank, max(left) <= min(right), the split is exactly the one induced by the "
                     "(value, sequence index) order (tie-break), selected value and offset among equivalents; elements are (key,tag) so equivalence is not identity; "
                     "families with 17-26 sequences (beyond std::sort's insertion-sort threshold); every case with more than 16 sequences and every 29th other case also with a "
                     "heap-owning lifetime-tracked element (copies made by the splitter constructed, alive and destroyed); exact-size heap blocks under ASan. 5.9e7 cases quick.",
                note="key alphabet of 3; stated m / length caps; selection only for rank < N (documented contract)"),
    "C13": dict(engine="vhist", technique=E2, design="4/C13",
                text="DAryHeap (arity 1..4 quick / 1..8 thorough, less/greater/external priority table): BFS closure over push/pop/extract_top/clear/update_all/build_heap "
                     "(3 overloads, on empty and non-empty heaps) with keys 0..4 twice each; DAryAddressableIntHeap: closure over push/pop/extract_top/remove(k)/update(k) after "
                     "raising or lowering priorities/update_all/build_heap/clear/reserve(n) on unique keys with priorities {0,1,2}, contains(k) for all k after every op, plus a seeded family "
                     "reaching remove()'s sift-up; RadixHeap: 8 key types x radix {2,4,8,16,64}, 11-key alphabet incl. extremes, BFS depth 5/6 with canonical-state de-duplication, "
                     "every new state drained twice (top/pop and swap_top_bucket) against the sorted model, in an asserts-on and an NDEBUG build. Size, top, sanity_check, drain order.",
                note="RadixHeap histories are depth-bounded; keys below the key last returned by top() are only driven in the separate known-finding run (tlx documents top() as raising the insertion limit)"),
    "C01": dict(engine="vhist", technique=E2, design="4/C01",
                text="Real btree_set/multiset/map/multimap facades with custom traits next to the std containers: BFS closure (mode A) for small capacities and key universes "
                     "((4,4) set K=12 quick / K=14 thorough with three-level trees, 6 capacities x 4 kinds x linear/binary search x less/greater in thorough, multi kinds with "
                     "multiplicity caps, two-tree configurations for copy/assign/swap) and depth-bounded BFS (mode B) from bulk_load(n) seeds for every (leaf,inner) in [4..9]^2 "
                     "and the default traits; closure over tree SHAPES (mode S, unique-key kinds): keys abstracted to ranks, every valid tree shape with at most N keys "
                     "((4,4): N=25 quick / 28 thorough, six more capacities in thorough) expanded once with every rank-based insert/erase, which covers every sibling "
                     "shift/merge case of three-level trees; ops insert (plain and hinted), erase(key), erase_one, erase(iterator) at every position, clear, bulk_load of sorted sequences, "
                     "copy-construct, assign, self-assign, swap; in every new state every query (exists/find/count/bounds/equal_range for all keys, forward and reverse "
                     "iteration, ++/-- round trips, all six relational operators, operator[], deep-copy independence) compared with the std container, equal-key runs as multisets.",
                note="finite key universes / multiplicity caps as stated; mode B is depth-bounded (1-3); int and lifetime-tracked keys; comparators less/greater"),
    "C02": dict(engine="vhist", technique=E2, design="4/C02",
                text="Same exploration as C01 (same binaries), structural oracle: after EVERY mutating transition verify() (die switched to exceptions), an independent walk "
                     "of the node structure through tlx::btree_friend (levels, slotuse >= half, key order within and across nodes, separators, leaf chain both ways), "
                     "get_stats() vs the walk, leaves+inner == live nodes in this tree's counting allocator; lifetime-tracked key/value type under ASan: every element "
                     "constructed and destroyed exactly once, none alive after the state is destroyed, no access to dead elements or released nodes.",
                note="as C01; the two oracle families are always both evaluated, C01 reports reference disagreement, C02 invariant/ledger/memory failures"),
}

NA = {}

checks = []
for i in ids:
    if i in CHECKS:
        c = CHECKS[i]
        checks.append({
            "property_id": i,
            "quick_cmd": "bin/check %s --tier quick" % i,
            "thorough_cmd": "bin/check %s --tier thorough" % i,
            "evidence_file": "evidence/%s.json" % i,
            "replay_cmd_template": "bin/check %s --replay {path}" % i,
            "engine": c["engine"],
            "level_claimed": {"category": "model_checking", "text": c["text"], "design_ref": "DESIGN.md section " + c["design"]},
            "level_note": c["note"],
            "technique": c["technique"],
        })
na = [{"property_id": i, "reason": NA.get(i, "check not built yet (work in progress, see DESIGN.md section 4)")}
      for i in ids if i not in CHECKS]
m = {
    "version": 1,
    "setup_cmd": "python3 tools/prebuild.py",
    "hooks": {"guard": "TLX_VERIF",
              "enable": "no source hooks: harness TUs are compiled with -include engine/sched/vshim.hpp (shadow namespace tlx::std) against unmodified /repo sources",
              "baseline_off_cmd": "ctest --test-dir /repo/_build -j8 --timeout 900",
              "source_commits": [], "add_only": True},
    "engines": [
        {"name": "venum", "path": "engine/common", "serves_properties": [i for i in ids if CHECKS.get(i, {}).get("engine") == "venum"],
         "kind_free_text": E3},
        {"name": "vhist", "path": "engine/hist", "serves_properties": [i for i in ids if CHECKS.get(i, {}).get("engine") == "vhist"],
         "kind_free_text": E2},
        {"name": "vsched", "path": "engine/sched", "serves_properties": [i for i in ids if CHECKS.get(i, {}).get("engine") == "vsched"],
         "kind_free_text": E1},
    ],
    "checks": checks,
    "notes": "All checks are bounded exhaustive explorations of the unmodified tlx code (see DESIGN.md). bin/check rebuilds harnesses from /repo's working tree (hash-keyed cache under build/).",
    "not_applicable": na,
}
json.dump(m, open(os.path.join(HERE, "MANIFEST.json"), "w"), indent=1)
print("checks:", len(checks), "not claimed:", len(na))
