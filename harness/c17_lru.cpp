// C17 (LRU part) — LruCacheSet / LruCacheMap operation histories, explicit-state closure (engine E2).
//
// Keys {0..K-1} (K = 4 quick; thorough: 6 for the set, 5 for the map), values {0,1}.  Mutating ops: put, touch, touch_if_exists, erase,
// erase_if_exists, get_touch (map), pop (only on a non-empty cache: the header asserts size(), the class comment says the
// user checks size() first), clear.  Ops on absent keys are ops too: touch/erase/get_touch must throw exactly
// std::range_error (lru_cache.hpp, pinned by tests/container/lru_cache_test.cpp) and leave the cache unchanged;
// the *_if_exists forms return false.  Read-only queries are checked in every new state: exists(k) for all k, size(),
// and for the map get(k) (returns the latest value, does NOT touch — the header comment "get and touch" on get() is a
// copy of get_touch()'s; the code and the existence of get_touch() say otherwise, and the harness checks that get()
// leaves the recency list alone) with std::range_error exactly for absent keys.
// Oracle: a reference std::list (front = most recently put/touched, as list_ in the header), compared element by element
// with the internal list_ after every op; map_ must index exactly the stored keys, each iterator pointing at its own
// list entry; pop() returns the model's back (key and latest value); counting allocator: nothing leaked / freed twice.
#include <tlx/container/lru_cache.hpp>

#include <algorithm>
#include <list>
#include <typeinfo>

#include "c17_common.hpp"

using c17::CountingAlloc;
using c17::Ledger;

// key types: int, or a heap-owning std::string (41 characters, so never in the small-string buffer) whose moved-from
// state differs from its value — a cache that reads a key after moving from it misbehaves only with such a type
template <class KT>
struct KeyOps;
template <>
struct KeyOps<int> {
    static int make(int k) { return k; }
    static int get(const int& k) { return k; }
    static const char* nm() { return ""; }
};
template <>
struct KeyOps<std::string> {
    static std::string make(int k) { return std::string(1, (char)('a' + k)) + std::string(40, 'x'); }
    static int get(const std::string& k) { return k.size() == 41 ? k[0] - 'a' : -1; }  // -1: moved-from or corrupted
    static const char* nm() { return "-strkeys"; }
};

template <bool IsMap, class KT = int>
struct LruSys {
    typedef std::pair<int, int> KV;
    typedef KeyOps<KT> KO;
    typedef typename std::conditional<IsMap, tlx::LruCacheMap<KT, int, CountingAlloc<std::pair<KT, int>>>,
                                      tlx::LruCacheSet<KT, CountingAlloc<KT>>>::type Cache;
    int nkeys;
    explicit LruSys(int nk) : nkeys(nk) {}
    std::string name() const { return vh::fmt("%s%s-k%d", IsMap ? "LruCacheMap" : "LruCacheSet", KO::nm(), nkeys); }

    struct State {
        const LruSys* sys;
        Ledger led;
        std::unique_ptr<Cache> c;
        std::list<KV> model;  // front = most recent
        std::vector<uint32_t> hist;
        bool bad = false;
        explicit State(const LruSys* s) : sys(s) {
            c17::cur_ledger() = &led;
            if constexpr (IsMap) c.reset(new Cache(CountingAlloc<std::pair<KT, int>>(&led)));
            else c.reset(new Cache(CountingAlloc<KT>(&led)));
        }
        ~State() {
            c17::cur_ledger() = &led;
            vh::at("destroy", sys->name() + "|" + vhist::hist_str(hist));
            c.reset();
            if (!bad && !led.live.empty())
                vh::fail_here("leak", vh::fmt("%zu allocation(s) still live after the cache was destroyed", led.live.size()));
        }
    };
    std::unique_ptr<State> fresh() { return std::unique_ptr<State>(new State(this)); }

    static void fail(State& s, const char* kind, const std::string& msg) {
        s.bad = true;
        vh::fail_here(kind, msg);
    }

    enum Kind { PUT = 0, TOUCH, TOUCH_IF, ERASE, ERASE_IF, GET_TOUCH, POP, CLEAR };
    // op = kind * 64 + key * 4 + value
    static uint32_t enc(int kind, int k = 0, int v = 0) { return kind * 64 + k * 4 + v; }
    std::string op_name(uint32_t op) {
        static const char* n[] = {"put", "touch", "touch_if_exists", "erase", "erase_if_exists", "get_touch", "pop", "clear"};
        int kind = op / 64, k = (op / 4) % 16, v = op % 4;
        if (kind == PUT) return IsMap ? vh::fmt("put(%d,%d)", k, v) : vh::fmt("put(%d)", k);
        if (kind == POP || kind == CLEAR) return std::string(n[kind]) + "()";
        return vh::fmt("%s(%d)", n[kind], k);
    }

    std::vector<uint32_t> ops(const State& s) {
        std::vector<uint32_t> r;
        for (int k = 0; k < nkeys; ++k)
            for (int v = 0; v < (IsMap ? 2 : 1); ++v) r.push_back(enc(PUT, k, v));
        for (int kind : {TOUCH, TOUCH_IF, ERASE, ERASE_IF})
            for (int k = 0; k < nkeys; ++k) r.push_back(enc(kind, k));
        if (IsMap)
            for (int k = 0; k < nkeys; ++k) r.push_back(enc(GET_TOUCH, k));
        if (!s.model.empty()) r.push_back(enc(POP));  // pop() on an empty cache is outside the contract (assert(size()))
        r.push_back(enc(CLEAR));
        return r;
    }

    static int ekey(const KT& e) { return KO::get(e); }
    static int eval(const KT&) { return 0; }
    static int ekey(const std::pair<KT, int>& e) { return KO::get(e.first); }
    static int eval(const std::pair<KT, int>& e) { return e.second; }

    typename std::list<KV>::iterator mfind(State& s, int k) {
        return std::find_if(s.model.begin(), s.model.end(), [k](const KV& e) { return e.first == k; });
    }

    // run f; must_throw says whether std::range_error is demanded
    template <class F>
    void call(State& s, bool must_throw, const char* what, F f) {
        bool threw = false, other = false, exact = true;
        try {
            f();
        } catch (const std::range_error& e) {
            threw = true;
            exact = typeid(e) == typeid(std::range_error);
        } catch (...) {
            other = true;
        }
        std::string w = what;
        if (other || !exact) fail(s, (w + "wrong-exception-type").c_str(), "an exception other than std::range_error was thrown");
        else if (threw && !must_throw) fail(s, (w + "unexpected-exception").c_str(), "std::range_error thrown although the key is present");
        else if (!threw && must_throw) fail(s, (w + "missing-exception").c_str(), "no std::range_error for an absent key");
        vh::outcome(name() + " " + (w.empty() ? vhist::sig_label(vh::cur_op()) : w) + (threw ? " throws range_error" : " returns"));
    }

    // internal structure vs model
    void check_internal(State& s) {
        auto& L = s.c->list_;
        auto& M = s.c->map_;
        std::vector<KV> got, want(s.model.begin(), s.model.end());
        for (auto& e : L) got.push_back(KV(ekey(e), eval(e)));
        if (got != want) {
            vh::advisory("recency-list", "internal list " + dump(got) + " but reference LRU list " + dump(want) + " (front = most recent)");
        }
        if (M.size() != s.model.size()) {
            vh::advisory("index", vh::fmt("map_ has %zu entries for %zu stored keys", M.size(), s.model.size()));
        }
        for (auto lit = L.begin(); lit != L.end(); ++lit) {
            auto mit = M.find(KO::make(ekey(*lit)));
            if (mit == M.end() || mit->second != lit) {
                vh::advisory("index", vh::fmt("map_ entry of key %d is missing or points to another list position", ekey(*lit)));
            }
        }
    }
    static std::string dump(const std::vector<KV>& v) {
        std::string r = "[";
        for (auto& e : v) r += IsMap ? vh::fmt(" %d=%d", e.first, e.second) : vh::fmt(" %d", e.first);
        return r + " ]";
    }

    void apply(State& s, uint32_t op) {
        c17::cur_ledger() = &s.led;
        s.hist.push_back(op);
        if (s.bad) return;
        int kind = op / 64, k = (op / 4) % 16, v = op % 4;
        Cache& c = *s.c;
        auto mi = mfind(s, k);
        bool present = mi != s.model.end();
        const KT kk = KO::make(k);
        switch (kind) {
        case PUT:
            if constexpr (IsMap) c.put(kk, v);
            else c.put(kk);
            if (present) s.model.erase(mi);
            s.model.push_front(KV(k, v));
            break;
        case TOUCH:
            call(s, !present, "", [&] { c.touch(kk); });
            if (present) s.model.splice(s.model.begin(), s.model, mi);
            break;
        case TOUCH_IF: {
            bool r = c.touch_if_exists(kk);
            if (r != present) fail(s, "return-value", vh::fmt("touch_if_exists(%d) = %d, key present: %d", k, (int)r, (int)present));
            if (present) s.model.splice(s.model.begin(), s.model, mi);
            break;
        }
        case ERASE:
            call(s, !present, "", [&] { c.erase(kk); });
            if (present) s.model.erase(mi);
            break;
        case ERASE_IF: {
            bool r = c.erase_if_exists(kk);
            if (r != present) fail(s, "return-value", vh::fmt("erase_if_exists(%d) = %d, key present: %d", k, (int)r, (int)present));
            if (present) s.model.erase(mi);
            break;
        }
        case GET_TOUCH:
            if constexpr (IsMap) {
                int got = -1;
                call(s, !present, "", [&] { got = c.get_touch(kk); });
                if (present) {
                    if (!s.bad && got != mi->second) fail(s, "return-value", vh::fmt("get_touch(%d) = %d, latest value put is %d", k, got, mi->second));
                    s.model.splice(s.model.begin(), s.model, mi);
                }
            }
            break;
        case POP: {
            KV want = s.model.back();
            KV got;
            if constexpr (IsMap) {
                std::pair<KT, int> g = c.pop();
                got = KV(KO::get(g.first), g.second);
            } else
                got = KV(KO::get(c.pop()), 0);
            if (got != want)
                fail(s, "not-least-recently-used",
                     IsMap ? vh::fmt("pop() = (%d,%d), least recently put/touched entry is (%d,%d)", got.first, got.second, want.first, want.second)
                           : vh::fmt("pop() = %d, least recently put/touched key is %d", got.first, want.first));
            s.model.pop_back();
            break;
        }
        case CLEAR:
            c.clear();
            s.model.clear();
            break;
        }
        if (!s.bad) check_internal(s);
        if (!s.bad && c.size() != s.model.size()) fail(s, "size", vh::fmt("size() = %zu, reference %zu", c.size(), s.model.size()));
    }

    void observe(State& s) {
        c17::cur_ledger() = &s.led;
        if (s.bad) return;
        Cache& c = *s.c;
        std::string before = canon(s);
        if (c.size() != s.model.size()) fail(s, "size", vh::fmt("size() = %zu, reference %zu", c.size(), s.model.size()));
        for (int k = 0; k < nkeys; ++k) {
            auto mi = mfind(s, k);
            bool present = mi != s.model.end();
            bool ex = c.exists(KO::make(k));
            if (ex != present) fail(s, "exists", vh::fmt("exists(%d) = %d, reference %d", k, (int)ex, (int)present));
            if constexpr (IsMap) {
                int got = -1;
                call(s, !present, "get-", [&] { got = c.get(KO::make(k)); });
                if (present && !s.bad && got != mi->second) fail(s, "get-value", vh::fmt("get(%d) = %d, latest value put is %d", k, got, mi->second));
            }
        }
        if (!s.bad) check_internal(s);
        if (!s.bad && canon(s) != before) fail(s, "query-changed-state", "exists()/size()/get() changed the recency list or the index");
    }

    // reference model: recency order with values (see vhist: checked against the implementation state on revisits)
    std::string model_canon(const State& s) {
        std::string r;
        for (auto& e : s.model) r += vh::fmt("%d=%d ", e.first, e.second);
        return r;
    }
    std::string canon(const State& s) {
        auto& L = s.c->list_;
        auto& M = s.c->map_;
        std::string r = "L:";
        for (auto& e : L) r += IsMap ? vh::fmt(" %d=%d", ekey(e), eval(e)) : vh::fmt(" %d", ekey(e));
        r += " |M:";
        for (int k = 0; k < nkeys; ++k) {
            auto mit = M.find(KO::make(k));
            if (mit == M.end()) {
                r += " -";
                continue;
            }
            int pos = 0, found = -1;
            for (auto lit = L.begin(); lit != L.end(); ++lit, ++pos)
                if (lit == mit->second) found = pos;
            r += found < 0 ? std::string(" ?") : vh::fmt(" %d", found);
        }
        // bucket_count is state of the std container (grows with the history, kept by clear()); part of "all implementation state"
        r += vh::fmt(" |b=%zu n=%zu", M.bucket_count(), M.size());
        return r;
    }
};

int main(int argc, char** argv) {
    vh::init(argc, argv);
    std::vector<c17::Cfg> quick, thorough, all;
    quick.push_back(c17::make_cfg(LruSys<false>(4),
                                  "LruCacheSet-k4: e.g. put(0) put(1) touch(0) touch(3)->range_error erase_if_exists(2)->false pop()->1 clear() put(0) — "
                                  "closure over all such histories; internal list_ == reference list after every op"));
    quick.push_back(c17::make_cfg(LruSys<true, std::string>(3),
                                  "LruCacheMap-strkeys-k3: the same closure with heap-owning std::string keys (a moved-from key is empty): keys read after a move, "
                                  "dangling index entries and use-after-free show here"));
    quick.push_back(c17::make_cfg(LruSys<false, std::string>(3), "LruCacheSet-strkeys-k3: as above for the set"));
    quick.push_back(c17::make_cfg(LruSys<true>(4),
                                  "LruCacheMap-k4: e.g. put(0,1) put(1,0) get_touch(0)->1 put(1,1) pop()->(0,1) get(0)->range_error — closure, values {0,1}"));
    int nk = (int)vh::args().opt_int("lrukeys", 6);
    thorough.push_back(c17::make_cfg(LruSys<true>(nk - 1), vh::fmt("LruCacheMap-k%d: as k4 with keys {0..%d}, values {0,1}", nk - 1, nk - 2)));
    thorough.push_back(c17::make_cfg(LruSys<false>(nk), vh::fmt("LruCacheSet-k%d: as k4 with keys {0..%d}", nk, nk - 1)));
    thorough.push_back(c17::make_cfg(LruSys<true, std::string>(4), "LruCacheMap-strkeys-k4"));
    thorough.push_back(c17::make_cfg(LruSys<false, std::string>(5), "LruCacheSet-strkeys-k5"));
    all = quick;
    all.insert(all.end(), thorough.begin(), thorough.end());
    return c17::main_configs(vh::args().thorough() ? thorough : quick, all);
}
