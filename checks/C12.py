from vlib import Harness, NCPU


def plan(tier):
    hs = Harness("c12_seq", ["harness/c12_counting_ptr_seq.cpp"], flavor="asan")
    ca = Harness("c12_conc_asan", ["harness/c12_counting_ptr_conc.cpp"], flavor="asan", shim=True, extra_flags=["-fno-access-control"])
    ct = Harness("c12_conc_tsan", ["harness/c12_counting_ptr_conc.cpp"], flavor="tsan", shim=True, extra_flags=["-fno-access-control"])
    dl = "120" if tier == "quick" else "1200"
    return {
        "harnesses": [hs, ca, ct],
        "runs": [(hs, ["--tier", tier], 2),
                 (ca, ["--tier", tier, "--deadline", dl], NCPU),
                 (ct, ["--tier", tier, "--deadline", dl, "nostateful=1"], NCPU)],
        "rule": "sequential: BFS closure over all histories of handle operations on 3 CountingPtr<Obj> + 1 CountingPtr<Derived> variables "
                "(<=2 objects alive, +clones by unify; second system: CountingPtrNoDelete), states de-duplicated on (variable -> object, real "
                "reference counts, dynamic type); concurrent: every multiset of 2-3 per-thread scripts from {copy-drop, copy-of-copy, move-drop, "
                "alias-assign, reset, copy-from-common-handle} x main drops its handle before/after the threads start, every interleaving with "
                "<= B preemptions (B iterated; 2 threads: 2 quick / 3 thorough, 3 threads: 1 / 2) in an ASan and a TSan build. states = BFS states + distinct schedules",
        "assumptions": ["sequentially consistent interleavings only", "no handle variable is shared between threads (documented usage, as for shared_ptr)",
                        "preemption-bounded"],
    }
