from vlib import Harness, NCPU

SRC = ["harness/c10_thread_pool.cpp"]


def plan(tier):
    common = dict(shim=True, shim_tlx_cpp=["tlx/thread_pool.cpp"], tlx_cpp=["tlx/die/core.cpp"],
                  extra_flags=["-fno-access-control"])
    ha = Harness("c10_pool_asan", SRC, flavor="asan", **common)
    ht = Harness("c10_pool_tsan", SRC, flavor="tsan", **common)
    dl = "200" if tier == "quick" else "1500"
    return {
        "harnesses": [ha, ht],
        "runs": [(ha, ["--tier", tier, "--deadline", dl], NCPU),
                 (ht, ["--tier", tier, "--deadline", dl, "nostateful=1", "bound_delta=-1" if tier == "thorough" else "bound_delta=0"], NCPU)],
        "states_key": "schedules_at_top_bound", "transitions_key": "transitions", "traces_key": "executions",
        "distinct_key": "schedules_at_top_bound",
        "rule": "job-graph scenarios a) independent jobs b) job->child->grandchild c) second enqueuing thread d) job calls terminate() "
                "e) terminate()/destruction with queued jobs f) two external waiters g) pool reuse, pool sizes 1..3; for each every "
                "interleaving of workers, enqueuers and waiters with at most B preemptions (iterated) and every notify_one target, run on "
                "the real ThreadPool under the serialising scheduler, once in an ASan build (functional + memory oracle) and once in a "
                "TSan build (visibility/race oracle). A schedule = one distinct choice list.",
        "assumptions": ["sequentially consistent interleavings only", "exceptions escaping jobs and thread-creation failure not modelled",
                        "preemption-bounded"],
    }
