// C03 — detail sorters over StringSuffixSet (suffix indices of a std::string text).
// String objects = suffix start indices; "same string objects" = index multiset.
// sort_strings_test only runs the non-LCP sorters on suffix sets; the property statement
// covers "the suffixes of a text" for the LCP variants too and StringLcpPtr<StringSuffixSet,
// uint32_t> is an ordinary instantiation of the documented StringSet concept, so both are run.
#include "c03_sort_strings_algos.hpp"

namespace c03 {

struct SuffixRunner : Runner {
    typedef ssd::StringSuffixSet Set;
    const Input* in = nullptr;
    size_t n = 0;
    std::string text;
    std::vector<size_t> sorted_sa, tmp;
    LcpArray lcp;
    std::vector<View> views;

    const char* key() const override { return "suffix"; }
    int n_entries() const override { return N_ALGO; }
    std::string label(int e, bool l) const override { return std::string(ALGO_NAME[e]) + "[StringSuffixSet," + (l ? "lcp]" : "nolcp]"); }
    bool quadratic(int e) const override { return e == A_INS; }

    void prepare(const Input& input) override {
        in = &input;
        n = in->sa.size();
        text = std::string(in->text.data(), in->text.size());  // capacity == size for heap strings
        sorted_sa = in->sa;
        std::sort(sorted_sa.begin(), sorted_sa.end());
        lcp.alloc(n);
        views.resize(n);
    }

    void run(int e, bool with_lcp, size_t memory) override {
        std::vector<size_t> sa(in->sa);  // fresh exact-size block per call
        lcp.fill();
        std::string lab = label(e, with_lcp);
        publish_call(lab, key(), e, with_lcp, memory);
        Set ss(text, sa.begin(), sa.end());
        if (with_lcp) {
            typedef ssd::StringLcpPtr<Set, uint32_t> SP;
            note_path<SP>("StringSuffixSet", true, e, n, memory, *in);
            call_algo(e, SP(ss, lcp.p), memory);
        } else {
            typedef ssd::StringPtr<Set> SP;
            note_path<SP>("StringSuffixSet", false, e, n, memory, *in);
            call_algo(e, SP(ss), memory);
        }
        counters().sorts++;
        counters().strings += n;
        if (sa.size() != n) {
            fail_permutation(lab, vh::fmt("suffix array resized from %zu to %zu", n, sa.size()));
            return;
        }
        tmp = sa;
        std::sort(tmp.begin(), tmp.end());
        if (tmp != sorted_sa) {
            size_t bad = 0;
            while (bad < n && tmp[bad] == sorted_sa[bad]) ++bad;
            fail_permutation(lab, vh::fmt("n=%zu: output index multiset differs from the input's (first difference at sorted rank %zu: %zu vs %zu)", n,
                                          bad, bad < n ? tmp[bad] : 0, bad < n ? sorted_sa[bad] : 0));
            return;
        }
        const unsigned char* t = reinterpret_cast<const unsigned char*>(in->text.data());
        for (size_t i = 0; i < n; ++i) views[i] = View{t + sa[i], in->text.size() - sa[i]};
        check_order_lcp(lab, views.data(), n, with_lcp ? lcp.p : nullptr);
    }

    void release() override { lcp.free_(); }
};

Runner* make_runner_suffix() { return new SuffixRunner; }

}  // namespace c03
