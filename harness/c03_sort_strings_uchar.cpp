// C03 — detail sorters over UCharStringSet (unsigned char* C strings).
// String objects: one exact-size heap buffer (length + NUL) per array position, so reading past
// a terminator is an ASan report and "the same string objects" is a pointer-multiset comparison.
#include "c03_sort_strings_algos.hpp"

namespace c03 {

struct UCharRunner : Runner {
    typedef ssd::UCharStringSet Set;
    const Input* in = nullptr;
    size_t n = 0;
    std::vector<unsigned char*> objs, sorted_objs, tmp;
    unsigned char** arr = nullptr;
    LcpArray lcp;
    std::vector<View> views;

    const char* key() const override { return "uchar"; }
    int n_entries() const override { return N_ALGO; }
    std::string label(int e, bool l) const override { return std::string(ALGO_NAME[e]) + "[UCharStringSet," + (l ? "lcp]" : "nolcp]"); }
    bool quadratic(int e) const override { return e == A_INS; }

    void prepare(const Input& input) override {
        in = &input;
        n = in->seq.size();
        objs.resize(n);
        for (size_t i = 0; i < n; ++i) {
            const std::string& s = in->shape[in->seq[i]];
            unsigned char* p = new unsigned char[s.size() + 1];
            memcpy(p, s.data(), s.size());
            p[s.size()] = 0;
            objs[i] = p;
        }
        sorted_objs = objs;
        std::sort(sorted_objs.begin(), sorted_objs.end());
        arr = new unsigned char*[n ? n : 1];
        lcp.alloc(n);
        views.resize(n);
    }

    void run(int e, bool with_lcp, size_t memory) override {
        if (n) memcpy(arr, objs.data(), n * sizeof(arr[0]));
        lcp.fill();
        std::string lab = label(e, with_lcp);
        publish_call(lab, key(), e, with_lcp, memory);
        Set ss(arr, arr + n);
        if (with_lcp) {
            typedef ssd::StringLcpPtr<Set, uint32_t> SP;
            note_path<SP>("UCharStringSet", true, e, n, memory, *in);
            call_algo(e, SP(ss, lcp.p), memory);
        } else {
            typedef ssd::StringPtr<Set> SP;
            note_path<SP>("UCharStringSet", false, e, n, memory, *in);
            call_algo(e, SP(ss), memory);
        }
        counters().sorts++;
        counters().strings += n;
        // permutation of the same string objects
        tmp.assign(arr, arr + n);
        std::sort(tmp.begin(), tmp.end());
        if (tmp != sorted_objs) {
            size_t bad = 0;
            while (bad < n && tmp[bad] == sorted_objs[bad]) ++bad;
            fail_permutation(lab, vh::fmt("n=%zu: output pointer multiset differs from the input's (first difference at sorted rank %zu)", n, bad));
            return;  // pointers may be garbage: no content checks
        }
        for (size_t i = 0; i < n; ++i) views[i] = View{arr[i], strlen(reinterpret_cast<const char*>(arr[i]))};
        check_order_lcp(lab, views.data(), n, with_lcp ? lcp.p : nullptr);
    }

    void release() override {
        for (unsigned char* p : objs) delete[] p;
        objs.clear();
        delete[] arr;
        arr = nullptr;
        lcp.free_();
    }
};

Runner* make_runner_uchar() { return new UCharRunner; }

}  // namespace c03
