// c01_btree_sys.hpp — C01/C02: the System (state, op menu, transitions, per-transition oracles, canonical form).
#pragma once
#include <cstring>

#include "c01_btree_base.hpp"

namespace c01 {

struct Params {
    char mode = 'A';     // 'A' closure over a finite universe, 'B' depth-bounded from bulk_load(n) seeds,
                         // 'S' closure over tree SHAPES: keys are abstracted to their rank, at most N elements
    int N = 24;          // S: size cap
    int K = 8;           // A: key universe 0..K-1
    int M = 1;           // multiplicity cap per key (multi containers)
    int L = -1;          // A: bulk_load of every sorted sequence of length <= L (-1: no bound)
    int two = 0;         // a second tree b is part of the state
    int cv = 1;          // canonical form contains the data values of multimaps
    int vb = 1;          // maps: number of distinct data values per key
    int n0 = 0, n1 = 0;  // B: seeds bulk_load(n) for n in [n0,n1]
    int R = 1;           // B: multi containers: every key of the seed is repeated R times
    int d = 2;           // B: BFS depth
    long cap = 5000000;  // state cap (safety)
    std::string str() const {
        if (mode == 'A') return vh::fmt("A.K%d.M%d.L%d.t%d.c%d.v%d", K, M, L, two, cv, vb);
        if (mode == 'S') return vh::fmt("S.N%d", N);
        return vh::fmt("B.a%d.z%d.R%d.d%d.M%d.t%d.c%d.v%d", n0, n1, R, d, M, two, cv, vb);
    }
    static Params parse(const std::string& s) {
        Params p;
        size_t i = 0;
        while (i < s.size()) {
            size_t e = s.find('.', i);
            if (e == std::string::npos) e = s.size();
            std::string t = s.substr(i, e - i);
            i = e + 1;
            if (t.empty()) continue;
            int v = t.size() > 1 ? atoi(t.c_str() + 1) : 0;
            switch (t[0]) {
            case 'A': p.mode = 'A'; break;
            case 'B': p.mode = 'B'; break;
            case 'S': p.mode = 'S'; break;
            case 'N': p.N = v; break;
            case 'K': p.K = v; break;
            case 'M': p.M = v; break;
            case 'L': p.L = v; break;
            case 't': p.two = v; break;
            case 'c': p.cv = v; break;
            case 'v': p.vb = v; break;
            case 'a': p.n0 = v; break;
            case 'z': p.n1 = v; break;
            case 'R': p.R = v; break;
            case 'd': p.d = v; break;
            }
        }
        return p;
    }
};

inline void canon_runs(KVs& v) {
    size_t i = 0;
    while (i < v.size()) {
        size_t j = i + 1;
        while (j < v.size() && v[j].first == v[i].first) ++j;
        if (j - i > 1) std::sort(v.begin() + i, v.begin() + j);
        i = j;
    }
}
inline std::string kvs_str(const KVs& v, bool with_values, size_t max = 40) {
    std::string s = "[";
    for (size_t i = 0; i < v.size() && i < max; ++i) {
        if (i) s += ' ';
        put_int(s, v[i].first);
        if (with_values) {
            s += ':';
            put_int(s, v[i].second);
        }
    }
    if (v.size() > max) s += " ...";
    return s + "]";
}

template <class TC>
struct Observer;

enum OpCode {
    OP_INS = 1, OP_INS1, OP_INS_HINT, OP_INS_RANGE, OP_ERASE_ONE, OP_ERASE_IT, OP_ERASE, OP_CLEAR, OP_BULK, OP_BULKN,
    OP_COPY_REPLACE, OP_SELF_ASSIGN, OP_ASSIGN_TEMP, OP_SWAP_TEMP, OP_STDSWAP_TEMP, OP_ASSIGN_AB, OP_ASSIGN_BA, OP_SWAP_AB, OP_STDSWAP_AB
};

template <class TC>
struct System {
    typedef typename TC::Tree Tree;
    typedef typename TC::Model Model;
    typedef typename TC::value_type value_type;
    typedef typename TC::elem_type E;
    typedef typename TC::Cmp Cmp;
    typedef typename TC::ICmp ICmp;
    typedef typename TC::Alloc Alloc;
    typedef typename Tree::iterator iterator;
    typedef typename Tree::const_iterator const_iterator;
    typedef typename Tree::btree_impl Impl;
    static const bool is_map = TC::is_map, is_multi = TC::is_multi;
    static const int kind = TC::kind;
    static const int leaf_slots = Tree::leaf_slotmax, inner_slots = Tree::inner_slotmax;

    Params P;
    std::vector<std::vector<int>> bulk;  // mode A: every sorted key sequence (in key order) within the bounds
    bool bulk_capped = false;

    explicit System(const Params& p) : P(p) {
        if (!is_multi) P.M = 1;
        if (P.mode == 'S' && is_multi) vh::out_line("ERROR mode S (shape closure) is defined for the unique-key containers only");
        if (P.mode == 'A') {
            std::vector<int> cur;
            enum_bulk(0, cur);
        }
    }
    void enum_bulk(int ki, std::vector<int>& cur) {
        if (bulk.size() >= 70000) {
            bulk_capped = true;
            return;
        }
        if (ki == P.K) {
            bulk.push_back(cur);
            return;
        }
        int key = TC::greater ? P.K - 1 - ki : ki;
        int maxm = is_multi ? P.M : 1;
        size_t base = cur.size();
        for (int c = 0; c <= maxm; ++c) {
            if (P.L >= 0 && (int)cur.size() > P.L) break;
            enum_bulk(ki + 1, cur);
            cur.push_back(key);
        }
        cur.resize(base);
    }

    // ---------------------------------------------------------------- element / model helpers
    struct X {
        bool unique, with_values;
        int kint(const E& e) const { return EOps<E>::get(e); }
        KV kv(const value_type& v) const { return System::kv(v); }
        bool less(int a, int b) const { return ICmp()(a, b); }
    };
    X xtr() const { return X{!is_multi, is_map && (kind == MAP || P.cv != 0)}; }

    static KV kv(const value_type& v) {
        if constexpr (is_map) return KV(EOps<E>::get(v.first), EOps<E>::get(v.second));
        else return KV(EOps<E>::get(v), 0);
    }
    static value_type mkv(int k, int v) {
        if constexpr (is_map) return value_type(EOps<E>::make(k), EOps<E>::make(v));
        else return EOps<E>::make(k);
    }
    static typename Model::value_type mval(int k, int v) {
        if constexpr (is_map) return typename Model::value_type(k, v);
        else return k;
    }
    static KV mkv_of(const typename Model::value_type& x) {
        if constexpr (is_map) return KV(x.first, x.second);
        else return KV(x, 0);
    }
    static KVs mcontents(const Model& m) {
        KVs r;
        r.reserve(m.size());
        for (auto& x : m) r.push_back(mkv_of(x));
        if (kind == MMAP) canon_runs(r);
        return r;
    }
    int new_value(const Model& m, int k, int bit) const {
        if constexpr (!is_map) return 0;
        else if constexpr (kind == MAP) {
            if (P.vb >= 2) return 2 * k + bit;
            return m.count(k) ? 2 * k + 1 : 2 * k;  // a second insert must not overwrite the stored 2k
        } else {
            // multimap: smallest serial number not used by an entry with this key -> entries stay distinguishable
            std::vector<int> used;
            auto r = m.equal_range(k);
            for (auto it = r.first; it != r.second; ++it) used.push_back(it->second);
            int v = 0;
            while (std::find(used.begin(), used.end(), v) != used.end()) ++v;
            return v;
        }
    }
    // erase exactly the entry (k,v) from the model; false if it is not there
    static bool model_erase_exact(Model& m, int k, int v) {
        if constexpr (kind == MMAP) {
            auto r = m.equal_range(k);
            for (auto it = r.first; it != r.second; ++it)
                if (it->second == v) {
                    m.erase(it);
                    return true;
                }
            return false;
        } else if constexpr (kind == MAP) {
            auto it = m.find(k);
            if (it == m.end() || it->second != v) return false;
            m.erase(it);
            return true;
        } else {
            auto it = m.find(k);
            if (it == m.end()) return false;
            m.erase(it);
            return true;
        }
    }
    static int lower_idx(const KVs& mv, int k) {
        return (int)(std::lower_bound(mv.begin(), mv.end(), k, [](const KV& e, int q) { return ICmp()(e.first, q); }) - mv.begin());
    }
    static int upper_idx(const KVs& mv, int k) {
        return (int)(std::upper_bound(mv.begin(), mv.end(), k, [](int q, const KV& e) { return ICmp()(q, e.first); }) - mv.begin());
    }
    int key_at(int i) const { return P.mode == 'A' ? i : 2 * i + 1; }

    // ---- mode S (shape closure): op arguments are RANKS in the container's order; the actual key of an insertion into
    // gap g is a fresh integer between the neighbours (any such key behaves the same: the tree only compares keys)
    static const int S_STEP = 1 << 23;
    static std::vector<int> keys_in_order(const Model& m) {
        std::vector<int> ks;
        ks.reserve(m.size());
        for (auto& x : m) ks.push_back(mkv_of(x).first);
        return ks;
    }
    static int s_gap_key(const Model& m, int g, bool* ok) {
        *ok = true;
        int n = (int)m.size();
        if (n == 0) return 0;
        std::vector<int> ks = keys_in_order(m);
        int dir = ICmp()(0, 1) ? 1 : -1;
        if (g <= 0) return ks[0] - dir * S_STEP;
        if (g >= n) return ks[n - 1] + dir * S_STEP;
        long a = ks[g - 1], b = ks[g];
        if (b - a < 2 && a - b < 2) {
            *ok = false;
            return 0;
        }
        return (int)(a + (b - a) / 2);
    }
    static int s_key_at_rank(const Model& m, int p) {
        auto it = m.begin();
        std::advance(it, p);
        return mkv_of(*it).first;
    }
    // keys worth querying in a state of mode S: every stored key and its two integer neighbours, plus far ends
    static std::vector<int> s_query_keys(const Model& m) {
        std::vector<int> q;
        for (auto& x : m) {
            int k = mkv_of(x).first;
            q.push_back(k - 1);
            q.push_back(k);
            q.push_back(k + 1);
        }
        q.push_back(-(1 << 29));
        q.push_back(1 << 29);
        std::sort(q.begin(), q.end());
        q.erase(std::unique(q.begin(), q.end()), q.end());
        return q;
    }
    // query keys of a state: A: -1..K, B: -1..max+2, S: see above
    std::vector<int> query_keys(const Model& m) const {
        if (P.mode == 'S') return s_query_keys(m);
        std::vector<int> q;
        for (int k = -1; k <= universe(m); ++k) q.push_back(k);
        return q;
    }
    int temp_nkeys() const { return P.mode == 'A' ? P.K : std::min(P.n1 > 0 ? P.n1 : 1, 2 * leaf_slots + 2); }

    // contents of the fixed temporary trees used by assign/swap ops, in key order
    KVs temp_content(int j) const {
        KVs r;
        if (j == 0) return r;
        int nk = j == 1 ? std::min(3, temp_nkeys()) : temp_nkeys();
        int rep = (j == 2 && is_multi) ? std::min(P.M, 2) : 1;
        for (int i = 0; i < nk; ++i)
            for (int c = 0; c < rep; ++c) r.push_back(KV(key_at(i), kind == MAP ? 2 * key_at(i) : (kind == MMAP ? c : 0)));
        if (TC::greater) std::reverse(r.begin(), r.end());
        if (kind == MMAP) canon_runs(r);
        return r;
    }
    void fill_temp(Tree& t, int j) const {
        KVs c = temp_content(j);
        if (j == 1) {
            std::vector<value_type> v;
            for (auto& e : c) v.push_back(mkv(e.first, e.second));
            t.bulk_load(v.begin(), v.end());
        } else {
            std::sort(c.begin(), c.end());  // inserted one by one in ascending numeric order
            for (auto& e : c) t.insert(mkv(e.first, e.second));
        }
    }
    static Model model_of(const KVs& c) {
        Model m;
        for (auto& e : c) m.insert(mval(e.first, e.second));
        return m;
    }

    // ---------------------------------------------------------------- state
    struct State {
        std::vector<std::unique_ptr<Ledger>> ledgers;  // outlive the trees
        TrackedLedger tl;
        std::unique_ptr<Tree> a, b;
        Model ma, mb;
        int applied = 0;
        bool engine_rebuild = false;  // created by the engine to re-create an already checked state
        int built_len = -1;           // length of the history published when the state was created
        bool cache_ok = false;
        bool struct_ok = true;
        std::string cache;
        Ledger* new_ledger() {
            ledgers.emplace_back(new Ledger());
            return ledgers.back().get();
        }
        explicit State(bool two) {
            g_tl() = &tl;
            a.reset(new Tree(Cmp(), Alloc(new_ledger())));
            if (two) b.reset(new Tree(Cmp(), Alloc(new_ledger())));
        }
        ~State() {
            g_tl() = &tl;
            b.reset();
            a.reset();
            long leaked = 0;
            for (auto& l : ledgers) leaked += l->live;
            if (leaked != 0) str_fail("alloc-ledger", vh::fmt("%ld node(s) still allocated after the trees were destroyed", leaked));
            if (!tl.live.empty()) str_fail("elem-lifetime", vh::fmt("%zu element(s) still alive after the trees were destroyed", tl.live.size()));
        }
    };

    std::string name_cache;
    const std::string& name() {
        if (name_cache.empty()) name_cache = TC::tname() + "/" + P.str();
        return name_cache;
    }
    static int count_ops(const char* r) {
        const char* bar = strchr(r, '|');
        if (!bar) return -1;
        int n = (bar[1] == '-' || bar[1] == 0) ? 0 : 1;
        for (const char* p = bar + 1; *p; ++p)
            if (*p == ',') n++;
        return n;
    }
    std::unique_ptr<State> fresh() {
        std::unique_ptr<State> st(new State(P.two != 0));
        // the engine publishes "replay" + the node's history before it re-creates a known state
        st->engine_rebuild = !vh::args().has_replay && strcmp(vh::shm()->op, "replay") == 0;
        st->built_len = count_ops(vh::shm()->replay);
        return st;
    }
    static void bind(const State& s) { g_tl() = const_cast<TrackedLedger*>(&s.tl); }

    // The engine re-creates states by replaying their histories.  Every transition of such a history (including its
    // last one) has already been executed once with all oracles when the state was discovered, so the expensive
    // per-transition oracles run only for (a) the new transition the engine is exploring, (b) the last op of a seed
    // history, (c) the last op of a --replay run.
    static bool is_real(const State& s) {
        const char* r = vh::shm()->replay;
        if (strlen(r) >= 3400) return true;
        int n = count_ops(r);
        if (n < 0) return true;
        if (n != s.applied + 1) return false;
        if (s.engine_rebuild && s.applied + 1 == s.built_len) return false;
        return true;
    }

    // ---------------------------------------------------------------- op menu
    static uint32_t enc(int code, int arg = 0) { return ((uint32_t)code << 20) | (uint32_t)arg; }
    std::string cname() const { return kind_name(kind); }
    static std::string nm(const std::string& c, const char* op, int a, int b = -999999) {
        std::string s = c;
        s += op;
        s += '(';
        if (a != -999999) put_int(s, a);
        if (b != -999999) {
            s += ',';
            put_int(s, b);
        }
        s += ')';
        return s;
    }
    std::string op_name(uint32_t op) {
        int code = op >> 20, arg = op & 0xfffff;
        static const std::string c = cname() + ".";
        const int none = -999999;
        switch (code) {
        case OP_INS: return nm(c, "insert", arg);
        case OP_INS1: return nm(c, "insert_bit1", arg);
        case OP_INS_HINT: return nm(c, "insert_hint", arg);
        case OP_INS_RANGE: return nm(c, "insert_range", range_second(arg), arg);
        case OP_ERASE_ONE: return nm(c, "erase_one", arg);
        case OP_ERASE_IT: return nm(c, "erase_iter", arg);
        case OP_ERASE: return nm(c, "erase_key", arg);
        case OP_CLEAR: return nm(c, "clear", none);
        case OP_BULK: {
            std::string s = c + "bulk_load(";
            if ((size_t)arg < bulk.size())
                for (size_t i = 0; i < bulk[arg].size(); ++i) {
                    if (i) s += ',';
                    put_int(s, bulk[arg][i]);
                }
            return s + ")";
        }
        case OP_BULKN: return nm(c, "bulk_load_n", arg);
        case OP_COPY_REPLACE: return nm(c, "copy_construct", none);
        case OP_SELF_ASSIGN: return nm(c, "self_assign", none);
        case OP_ASSIGN_TEMP: return nm(c, "assign_from_temp", arg);
        case OP_SWAP_TEMP: return nm(c, "swap_with_temp", arg);
        case OP_STDSWAP_TEMP: return nm(c, "std_swap_with_temp", arg);
        case OP_ASSIGN_AB: return nm(c, "assign_a_from_b", none);
        case OP_ASSIGN_BA: return nm(c, "assign_b_from_a", none);
        case OP_SWAP_AB: return nm(c, "swap_a_b", none);
        case OP_STDSWAP_AB: return nm(c, "std_swap_a_b", none);
        }
        return c + "?()";
    }
    int range_second(int k) const { return P.mode == 'A' ? (k + std::max(1, P.K / 2)) % P.K : k + 1; }
    static int max_key(const Model& m) {
        if (m.empty()) return -1;
        return std::max(mkv_of(*m.begin()).first, mkv_of(*m.rbegin()).first);
    }
    int universe(const Model& m) const { return P.mode == 'A' ? P.K : max_key(m) + 2; }

    std::vector<uint32_t> ops(const State& s) {
        std::vector<uint32_t> r;
        const Model& m = s.ma;
        int n = (int)m.size();
        int U = universe(m);
        bool A = P.mode == 'A';
        if (P.mode == 'S') {
            // ranks instead of keys; the shape abstraction is only sound for distinct keys, so no duplicate is ever inserted
            for (int g = 0; g <= n && n < P.N; ++g) {
                bool ok;
                s_gap_key(m, g, &ok);
                if (!ok) {
                    vh::stat_add("shape_gap_exhausted");
                    continue;
                }
                r.push_back(enc(OP_INS, g));
                if ((g + n) % 3 == 0) r.push_back(enc(OP_INS_HINT, g));
            }
            for (int p = 0; p < n; ++p) r.push_back(enc(OP_ERASE_IT, p));
            for (int p = 0; p < n; ++p) r.push_back(enc((p + n) % 2 ? OP_ERASE : OP_ERASE_ONE, p));
            if (n == 0)
                for (int b = 1; b <= P.N; ++b) r.push_back(enc(OP_BULKN, b));
            return r;
        }
        auto can_ins = [&](int k, int extra) {
            if (is_multi) return (int)m.count(k) + extra <= P.M;
            return A ? true : m.count(k) == 0;  // B: re-inserting a present key is exercised in observe() on a copy
        };
        for (int k = 0; k < U; ++k)
            if (can_ins(k, 1)) {
                r.push_back(enc(OP_INS, k));
                if (kind == MAP && P.vb >= 2) r.push_back(enc(OP_INS1, k));
            }
        for (int k = 0; k < U; ++k) {
            bool present = m.count(k) != 0;
            if (A || (present && (is_multi || (k / 2) % 4 == 0))) r.push_back(enc(OP_ERASE_ONE, k));
        }
        for (int p = 0; p < n; ++p) r.push_back(enc(OP_ERASE_IT, p));
        for (int k = 0; k < U; ++k) {
            bool present = m.count(k) != 0;
            if (A || present || k % 16 == 0) r.push_back(enc(OP_ERASE, k));
        }
        for (int k = 0; k < U; ++k) {
            if (!A && k % 8 != 0) continue;
            if (can_ins(k, 1)) r.push_back(enc(OP_INS_HINT, k));
            int k2 = range_second(k);
            if (k2 != k && can_ins(k, 1) && (is_multi ? can_ins(k2, 1) : true)) r.push_back(enc(OP_INS_RANGE, k));
        }
        r.push_back(enc(OP_CLEAR));
        r.push_back(enc(OP_COPY_REPLACE));
        r.push_back(enc(OP_SELF_ASSIGN));
        for (int j = 0; j < 3; ++j) {
            r.push_back(enc(OP_ASSIGN_TEMP, j));
            r.push_back(enc(OP_SWAP_TEMP, j));
            r.push_back(enc(OP_STDSWAP_TEMP, j));
        }
        if (P.two) {
            r.push_back(enc(OP_ASSIGN_AB));
            r.push_back(enc(OP_ASSIGN_BA));
            r.push_back(enc(OP_SWAP_AB));
            r.push_back(enc(OP_STDSWAP_AB));
        }
        if (A && n == 0)  // documented precondition of bulk_load: the tree is empty
            for (size_t i = 0; i < bulk.size(); ++i) r.push_back(enc(OP_BULK, (int)i));
        return r;
    }

    // ---------------------------------------------------------------- walks and per-transition oracles
    Walk walk(const Tree& t) const {
        Walk w;
        w.items.reserve(t.size() < 100000 ? t.size() + 1 : 16);
        w.dump.reserve(64 + 4 * (t.size() < 100000 ? t.size() : 0));
        tlx::btree_friend::walk(tlx::btree_friend::impl(t), w, xtr());
        return w;
    }
    template <class It>
    static int ipos(const Walk& w, const It& it) {
        return w.pos(tlx::btree_friend::leaf_of(it), tlx::btree_friend::slot_of(it));
    }
    // contents as a user sees them: begin()..end() with ++
    static KVs api_contents(const Tree& t, size_t expect) {
        KVs r;
        r.reserve(expect + 1);
        size_t guard = expect * 4 + 64;
        for (const_iterator it = t.begin(); it != t.end(); ++it) {
            r.push_back(kv(*it));
            if (r.size() > guard) break;
        }
        if (kind == MMAP) canon_runs(r);
        return r;
    }
    // structural oracle for one tree; true if everything holds
    bool check_struct(const Tree& t, const Walk& w, const char* which) const {
        bool ok = true;
        try {
            t.verify();
        } catch (const std::exception& e) {
            str_fail("verify", std::string(which) + ": verify() failed: " + e.what() + "  structure: " + w.dump.substr(0, 300));
            ok = false;
        }
        for (auto& e : w.errs) {
            // the independent walk reports only what verify() did not already reject (one defect, one signature)
            if (ok) str_fail(e.compare(0, 6, "stats.") == 0 ? "stats" : "structure", std::string(which) + ": " + e + "  structure: " + w.dump.substr(0, 300));
            ok = false;
            break;
        }
        if (t.size() != w.st_size || t.get_stats().size != w.st_size || t.get_stats().leaves != w.st_leaves ||
            t.get_stats().inner_nodes != w.st_inner || t.get_stats().nodes() != w.st_leaves + w.st_inner) {
            str_fail("stats", std::string(which) + ": get_stats() differs from the stored statistics");
            ok = false;
        }
        if (t.get_allocator().led != w.alloc_ledger) {
            str_fail("alloc-ledger", std::string(which) + ": get_allocator() is not the allocator the tree uses");
            ok = false;
        }
        return ok;
    }
    // ledgers: live nodes of every allocator == nodes of the live trees bound to it; tracked elements == slots of live nodes
    bool check_ledgers(const State& s, const std::vector<const Walk*>& ws) const {
        bool ok = true;
        std::map<const void*, long> expect;
        long slots = 0;
        for (const Walk* w : ws) {
            expect[w->alloc_ledger] += (long)w->leaves.size() + w->n_inner;
            slots += (long)w->leaves.size() * leaf_slots * (is_map ? 2 : 1) + w->n_inner * inner_slots;
        }
        for (auto& kv_ : expect) {
            bool found = false;
            for (auto& l : s.ledgers)
                if (l.get() == kv_.first) found = true;
            if (!found) {
                str_fail("alloc-ledger", "a tree uses an allocator that was never given to it");
                ok = false;
            }
        }
        for (auto& l : s.ledgers) {
            long e = expect.count(l.get()) ? expect[l.get()] : 0;
            if (l->live != e) {
                str_fail("alloc-ledger", vh::fmt("allocator has %ld live node(s) but the tree(s) using it consist of %ld node(s) (allocs=%ld frees=%ld)", l->live, e,
                                                 l->allocs, l->frees));
                ok = false;
            }
        }
        if (EOps<E>::tracked && (long)s.tl.live.size() != slots) {
            str_fail("elem-lifetime", vh::fmt("%zu live element objects but the live nodes have %ld slots", s.tl.live.size(), slots));
            ok = false;
        }
        return ok;
    }
    void check_contents(const Tree& t, const Model& m, const char* which) const {
        if (t.size() != m.size() || t.empty() != m.empty())
            sem_fail("contents", vh::fmt("%s: size()=%zu empty()=%d, std container has %zu", which, t.size(), (int)t.empty(), m.size()));
        KVs got = api_contents(t, m.size()), want = mcontents(m);
        if (got != want) sem_fail("contents", std::string(which) + ": iteration yields " + kvs_str(got, is_map) + " but the std container holds " + kvs_str(want, is_map));
    }
    // all per-transition oracles; returns the walk of a
    Walk post_checks(State& s) {
        Walk wa = walk(*s.a);
        bool ok = check_struct(*s.a, wa, "a");
        std::vector<const Walk*> ws{&wa};
        Walk wb;
        if (s.b) {
            wb = walk(*s.b);
            ok = check_struct(*s.b, wb, "b") && ok;
            ws.push_back(&wb);
        }
        ok = check_ledgers(s, ws) && ok;
        s.struct_ok = ok;
        if (ok || ((G().oracle & 1) && !wa.cyclic() && !wb.cyclic())) {
            // (with a broken structure the semantic consequences are still evaluated for the semantic check)
            check_contents(*s.a, s.ma, "a");
            if (s.b) check_contents(*s.b, s.mb, "b");
        }
        s.cache = P.mode == 'S' ? wa.shape : wa.dump;
        if (s.b) s.cache += " || " + wb.dump;
        s.cache_ok = true;
        return wa;
    }

    std::string canon(const State& s) {
        bind(s);
        if (s.cache_ok) return s.cache;
        Walk w0 = walk(*s.a);
        std::string c = P.mode == 'S' ? w0.shape : w0.dump;
        if (s.b) c += " || " + walk(*s.b).dump;
        return c;
    }

    // ---------------------------------------------------------------- transitions
    iterator iter_at(Tree& a, int p, int n) {
        iterator it;
        if (2 * p <= n) {
            it = a.begin();
            for (int i = 0; i < p; ++i) ++it;
        } else {
            it = a.end();
            for (int i = 0; i < n - p; ++i) --it;
        }
        return it;
    }

    void apply(State& s, uint32_t op) {
        bind(s);
        bool real = is_real(s);
        s.applied++;
        s.cache_ok = false;
        int code = op >> 20, arg = (int)(op & 0xfffff);
        Tree& a = *s.a;
        Model& m = s.ma;
        if (P.mode == 'S') {
            // rank -> key (see s_gap_key)
            bool ok = true;
            if (code == OP_INS || code == OP_INS_HINT) arg = s_gap_key(m, arg, &ok);
            else if (code == OP_ERASE || code == OP_ERASE_ONE) arg = s_key_at_rank(m, arg);
        }
        // returned iterator to be checked against the model after the structure walk
        bool have_it = false;
        const void* rleaf = nullptr;
        unsigned rslot = 0;
        KV rderef(0, 0);
        int rkey = 0, rval = 0;
        int gone_key = -1;  // multimap erase_one: key whose run lost an entry that must be identified
        switch (code) {
        case OP_INS:
        case OP_INS1:
        case OP_INS_HINT: {
            int k = arg, v = new_value(m, k, code == OP_INS1);
            value_type x = mkv(k, v);
            iterator r;
            if (code == OP_INS_HINT) {
                int hm = (k + (int)m.size()) % 3;
                E ke = EOps<E>::make(k);
                iterator h = hm == 0 ? a.begin() : hm == 1 ? a.end() : a.lower_bound(ke);
                auto mh = hm == 0 ? m.begin() : hm == 1 ? m.end() : m.lower_bound(k);
                r = a.insert(h, x);
                m.insert(mh, mval(k, v));
            } else {
                if constexpr (is_multi) {
                    r = a.insert(x);
                    m.insert(mval(k, v));
                } else {
                    std::pair<iterator, bool> pr = a.insert(x);
                    auto mr = m.insert(mval(k, v));
                    if (pr.second != mr.second) sem_fail("return", vh::fmt("insert(%d) returned second=%d, std: %d", k, (int)pr.second, (int)mr.second));
                    r = pr.first;
                }
            }
            have_it = true;
            rleaf = tlx::btree_friend::leaf_of(r);
            rslot = tlx::btree_friend::slot_of(r);
            rkey = k;
            if constexpr (kind == MAP) rval = m.find(k)->second;
            else rval = v;
            if (real) rderef = kv(*r);
            break;
        }
        case OP_INS_RANGE: {
            int k = arg, k2 = range_second(k);
            std::vector<value_type> vs;
            int v2 = new_value(m, k2, 0);
            m.insert(mval(k2, v2));
            int v1 = new_value(m, k, 0);
            m.insert(mval(k, v1));
            vs.push_back(mkv(k2, v2));
            vs.push_back(mkv(k, v1));
            a.insert(vs.begin(), vs.end());
            break;
        }
        case OP_ERASE_ONE: {
            int k = arg;
            bool want = m.count(k) != 0;
            bool got = a.erase_one(EOps<E>::make(k));
            if (got != want) sem_fail("return", vh::fmt("erase_one(%d) returned %d, the std container %s the key", k, (int)got, want ? "holds" : "does not hold"));
            if (want) {
                if constexpr (kind == MMAP) gone_key = k;
                else m.erase(m.find(k));
            }
            break;
        }
        case OP_ERASE_IT: {
            int n = (int)m.size(), p = arg;
            iterator it = iter_at(a, p, n);
            KV e = kv(*it);
            a.erase(it);
            if (!model_erase_exact(m, e.first, e.second))
                sem_fail("iteration", vh::fmt("the element at position %d is (%d,%d), which the std container does not hold", p, e.first, e.second));
            break;
        }
        case OP_ERASE: {
            int k = arg;
            size_t got = a.erase(EOps<E>::make(k));
            size_t want = m.erase(k);
            if (got != want) sem_fail("return", vh::fmt("erase(%d) returned %zu, std: %zu", k, got, want));
            break;
        }
        case OP_CLEAR:
            a.clear();
            m.clear();
            break;
        case OP_BULK:
        case OP_BULKN: {
            std::vector<int> keys;
            if (code == OP_BULK) keys = bulk[arg];
            else {
                int R = is_multi ? std::max(1, P.R) : 1;
                for (int i = 0; i < arg; ++i) keys.push_back(P.mode == 'S' ? i * S_STEP : 2 * (i / R) + 1);
                if (TC::greater) std::reverse(keys.begin(), keys.end());
            }
            std::vector<value_type> vs;
            std::vector<typename Model::value_type> ms;
            int run = 0;
            for (size_t i = 0; i < keys.size(); ++i) {
                run = (i > 0 && keys[i] == keys[i - 1]) ? run + 1 : 0;
                int v = kind == MAP ? 2 * keys[i] + (P.vb >= 2 ? (int)(i & 1) : 0) : (kind == MMAP ? run : 0);
                vs.push_back(mkv(keys[i], v));
                ms.push_back(mval(keys[i], v));
            }
            a.bulk_load(vs.begin(), vs.end());
            m.insert(ms.begin(), ms.end());
            break;
        }
        case OP_COPY_REPLACE: {
            std::unique_ptr<Tree> c(new Tree(*s.a));
            s.a.swap(c);  // the original is destroyed at the end of this block
            Model mc(m);
            m = mc;
            break;
        }
        case OP_SELF_ASSIGN: {
            Tree& r = a;
            a = r;
            Model& mr = m;
            m = mr;
            break;
        }
        case OP_ASSIGN_TEMP:
        case OP_SWAP_TEMP:
        case OP_STDSWAP_TEMP: {
            Model mt = model_of(temp_content(arg));
            {
                Tree t{Cmp(), Alloc(s.new_ledger())};
                fill_temp(t, arg);
                if (code == OP_ASSIGN_TEMP) {
                    a = t;
                    m = mt;
                } else if (code == OP_SWAP_TEMP) {
                    a.swap(t);
                    m.swap(mt);
                } else {
                    using std::swap;
                    swap(a, t);
                    swap(m, mt);
                }
                if (real && code != OP_ASSIGN_TEMP) {
                    // the temporary now holds the previous contents of a
                    Walk wt = walk(t);
                    if (check_struct(t, wt, "temp after swap")) check_contents(t, mt, "temp after swap");
                }
            }  // temporary destroyed here: a must not depend on it
            break;
        }
        case OP_ASSIGN_AB:
            *s.a = *s.b;
            s.ma = s.mb;
            break;
        case OP_ASSIGN_BA:
            *s.b = *s.a;
            s.mb = s.ma;
            break;
        case OP_SWAP_AB:
            s.a->swap(*s.b);
            s.ma.swap(s.mb);
            break;
        case OP_STDSWAP_AB: {
            using std::swap;
            swap(*s.a, *s.b);
            swap(s.ma, s.mb);
            break;
        }
        }
        if constexpr (kind == MMAP) if (gone_key >= 0) {
            // multimap erase_one: which of the equivalent entries goes is unspecified; exactly one must go
            Walk w = walk(*s.a);
            std::vector<int> have, want;
            for (auto& e : w.items)
                if (e.first == gone_key) have.push_back(e.second);
            auto r = m.equal_range(gone_key);
            for (auto it = r.first; it != r.second; ++it) want.push_back(it->second);
            std::sort(have.begin(), have.end());
            std::sort(want.begin(), want.end());
            std::vector<int> diff;
            std::set_difference(want.begin(), want.end(), have.begin(), have.end(), std::back_inserter(diff));
            if (diff.size() == 1 && have.size() + 1 == want.size()) model_erase_exact(m, gone_key, diff[0]);
            else {
                sem_fail("contents", vh::fmt("erase_one(%d): the entries with this key changed from %zu to %zu (exactly one must be removed)", gone_key, want.size(), have.size()));
                m.erase(m.find(gone_key));
            }
        }
        if (real) {
            Walk wa = post_checks(s);
            if (have_it && !wa.cyclic()) {
                KVs mv = mcontents(m);
                int lo = lower_idx(mv, rkey), hi = upper_idx(mv, rkey);
                int p = wa.pos(rleaf, rslot);
                if (p < lo || p >= hi)
                    sem_fail("return", vh::fmt("insert(%d) returned an iterator at position %d, the key is at [%d,%d) in the std container", rkey, p, lo, hi));
                if (rderef.first != rkey || (is_map && rderef.second != rval))
                    sem_fail("return", vh::fmt("insert(%d) returned an iterator to (%d,%d), expected (%d,%d)", rkey, rderef.first, rderef.second, rkey, rval));
            }
            // The engine does not observe a state whose transition failed.  For the semantic check a state that is
            // structurally broken (reported by C02 only) is still queried once, so that the observable consequences
            // of the same defect are reported under C01.
            if (!s.struct_ok && G().oracle == 1 && G().consequence_pass) {
                if (G().in_consequence_pass) *G().in_consequence_pass = 1;
                Observer<TC>::run(*this, s);
                if (G().in_consequence_pass) *G().in_consequence_pass = 0;
            }
        }
    }

    void observe(State& s) {
        bind(s);
        vh::at_op((cname() + ".observe").c_str());
        if (const char* df = getenv("C01_DUMP_STATES")) {  // debugging aid: append every new canonical state to a file
            if (FILE* f = fopen(df, "a")) {
                fprintf(f, "%s\n", canon(s).c_str());
                fclose(f);
            }
        }
        Observer<TC>::run(*this, s);
    }
};

}  // namespace c01
