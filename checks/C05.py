from vlib import Harness, NCPU


def plan(tier):
    h = Harness("c05_multiway_merge", ["harness/c05_multiway_merge.cpp"], flavor="asan")
    if tier == "thorough":
        space = ("k=0..3: every tuple of sorted sequences over keys {0,1,2} with lengths 0..5; k=4..9: the same with the "
                 "total length capped at 11,9,8,7,6,6; dense families without empty sequences so that the unguarded merge "
                 "phases run (k=4: lengths 1..3; k=5: 1..3, total<=10; k=6: 1..2; k=7: 1..2, total<=9, all over keys {0,1,2}; "
                 "k=7,8: lengths 1..2 over keys {0,1}; k=9: the same with total<=12); dominant families (one sequence of "
                 "length 12 over {0,1,2} at every position, the others every sorted sequence of length 0..2 (k=2,3,4) / "
                 "0..1 (k=5,6))")
    else:
        space = ("k=0..3: every tuple of sorted sequences over keys {0,1,2} with lengths 0..4; k=4,5,6: the same with the "
                 "total length capped at 8,7,6; dense families without empty sequences (lengths 1..2 over keys {0,1,2}: "
                 "k=4,5 all, k=6 total<=8); dominant families (one sequence of length 12 at every position, the others "
                 "of length 0..1, k=3,4)")
    return {
        "harnesses": [h],
        "runs": [(h, ["--tier", tier], NCPU)],
        "states_key": "inputs", "transitions_key": "merges", "traces_key": "merges",
        "distinct_key": "inputs_nontrivial",
        "rule": space + "; x every length 0..total x {multiway_merge, stable_multiway_merge, multiway_merge_sentinels, "
                "stable_multiway_merge_sentinels} x {LOSER_TREE, LOSER_TREE_COMBINED, LOSER_TREE_SENTINEL, BUBBLE} + "
                "multiway_merge_base<Stable,Sentinels> (4 settings, default algorithm) x {8-byte element (copy trees), 40-byte "
                "element (pointer trees)}. An input = one (tuple, length); non-trivial = length >= 1 and at least two "
                "non-empty sequences. Every merge is compared element by element (key + (sequence,position) tag + payload) "
                "with a std::stable_sort reference; return value, advanced begin iterators, canaries and input blocks checked; "
                "exact-size heap blocks under ASan.",
        "assumptions": [
            "size argument restricted to 0..total (k=1 copies `size` elements unconditionally)",
            "sentinel contract: one readable slot after each sequence with a key greater than all real keys (as in tests/algorithm/multiway_merge_test.cpp)",
            "MWMA_LOSER_TREE_SENTINEL without sentinels is treated as defined (multiway_merge_base rewrites it to COMBINED)",
            "multiway_merge_base called directly only with its default algorithm argument (the four frontends forward to it 1:1)",
            "unstable variants: key sequence equal to the reference and the elements taken from each input form a prefix of it",
            "raw-pointer iterators, std::vector of iterator pairs, key-only comparator, keys {0,1,2}, stated length bounds and caps",
        ],
    }
