// C01 / C02 — tlx B+ tree containers vs std ordered containers: configuration tables, sharding, replay.
//
// Options:  oracle=semantic|structural|both   which oracle family is reported (C01 / C02)
//           set=qp|qa|tp|ta                   configuration table: quick/thorough x plain(-O2)/asan build
//           cfg=<type>/<params>               run one configuration (experiments), list=1 prints the table
// The generic System lives in c01_btree.hpp; the type configurations are instantiated in c01_btree_tNN.cpp.
#include <sys/resource.h>

#include <algorithm>

#include "c01_btree.hpp"

using c01::Params;

struct Cfg {
    std::string tn;
    Params p;
    double cost;  // rough relative cost, only used to balance the shards
};

static std::string tname(int kind, bool greater, int l, int i, int search, bool tracked = false) {
    static const char* const kn[] = {"set", "multiset", "map", "multimap"};
    std::string s = kn[kind];
    s += greater ? ".greater" : ".less";
    if (search == 2) s += ".dflt";
    else s += vh::fmt(".l%di%d.%s", l, i, search == 1 ? "bin" : "lin");
    s += tracked ? ".tracked" : ".int";
    return s;
}
static Params A(int K, int M = 1, int two = 0, int cv = 1, int vb = 1, int L = -1) {
    Params p;
    p.mode = 'A';
    p.K = K;
    p.M = M;
    p.two = two;
    p.cv = cv;
    p.vb = vb;
    p.L = L;
    return p;
}
static Params S(int N) {
    Params p;
    p.mode = 'S';
    p.N = N;
    return p;
}
static Params B(int n0, int n1, int d, int R, int M) {
    Params p;
    p.mode = 'B';
    p.n0 = n0;
    p.n1 = n1;
    p.d = d;
    p.R = R;
    p.M = M;
    return p;
}

static std::vector<Cfg> g_tab;
static void add(const std::string& tn, const Params& p, double cost) {
    if (!c01::registry().count(tn)) {
        vh::out_line("ERROR configuration type " + tn + " is not linked into this binary");
        return;
    }
    g_tab.push_back(Cfg{tn, p, cost});
}

// mode B: seeds bulk_load(n) for every n in [lo,hi], depth d; split into units of roughly equal cost.
// Cost model fitted to measurements: distinct states per seed ~ 2n (d=1), 2.1 n^2 (d=2), 1.7 n^3 (d=3);
// ~(0.06 + 0.0012 n) ms per observed state + 4 transitions per state at (6 + 0.1 n) us; ASan x7.
static bool g_asan = false;
static void addB(const std::string& tn, int lo, int hi, int d, int R, int M, double unit_budget) {
    auto w = [&](int n) {
        double st = d == 1 ? 2.0 * n + 10 : d == 2 ? 2.1 * n * n + 50 : 1.7 * n * n * n + 500;
        if (R > 1) st *= 0.25;
        else if (tn.find("multi") != std::string::npos) st *= d == 1 ? 1.3 : d == 2 ? 1.9 : 4.0;  // duplicates of present keys are inserted, too
        double sec = st * ((0.06 + 0.0012 * n) * 1e-3 + 4 * (6 + 0.1 * n) * 1e-6);
        if (d >= 2) sec *= 1.3;
        if (tn.find("tracked") != std::string::npos) sec *= 3;
        return g_asan ? 7 * sec : sec;
    };
    if (hi < lo) return;
    int a = lo;
    double acc = 0;
    for (int n = lo; n <= hi; ++n) {
        acc += w(n);
        if (acc >= unit_budget || n == hi) {
            add(tn, B(a, n, d, R, M), acc);
            a = n + 1;
            acc = 0;
        }
    }
}

static const int kCaps6[6][2] = {{4, 4}, {4, 5}, {5, 4}, {5, 5}, {6, 4}, {4, 6}};

// the two type configurations instantiated for capacity (l,i) in mode B (see gen notes in the check's rule)
static void b_types(int l, int i, std::string out[2], int kinds[2]) {
    kinds[0] = (l + i) % 2 == 0 ? c01::SET : c01::MAP;
    kinds[1] = (l + i) % 2 == 0 ? c01::MMAP : c01::MSET;
    int fb = (l * 3 + i) % 2;
    out[0] = tname(kinds[0], fb, l, i, fb);
    out[1] = tname(kinds[1], 1 - fb, l, i, 1 - fb);
}

// mode B seeds for one type: every n in [0,nfull] at depth d, plus (if not covered) the window around the first
// three-level tree and (depth 1 only) the largest sizes
static void addB_plan(const std::string& tn, int l, int i, int d, int nfull, int R, int M, double unit) {
    int N = 3 * l * (i + 1);
    nfull = std::min(nfull, N);
    addB(tn, 0, nfull, d, R, M, unit);
    int w0 = l * (i + 1) - 1, w1 = l * (i + 1) + 3;
    if (w1 > nfull) addB(tn, std::max(w0, nfull + 1), w1, d, R, M, unit);
    if (d == 1 && N > std::max(nfull, w1)) addB(tn, std::max(N - 1, std::max(nfull, w1) + 1), N, d, R, M, unit);
    // the first sizes at which bulk_load builds more than one inner level above the leaves' parents (a root over several
    // level-2 nodes): l*(i+1)^2 elements fill (i+1)^2 leaves
    int f0 = l * (i + 1) * (i + 1) - 1, f1 = l * (i + 1) * (i + 1) + 2;
    if (d == 1 && R == 1 && f0 > std::max(N, std::max(nfull, w1))) addB(tn, f0, f1, d, R, M, unit);
}

static void build_table(const std::string& set) {
    g_asan = set == "qa" || set == "ta";
    const int qcaps[3][2] = {{4, 4}, {5, 6}, {8, 8}};
    if (set == "qp") {
        add(tname(c01::SET, 0, 4, 4, 0), A(12), 8);
        add(tname(c01::MMAP, 1, 4, 5, 1), A(3, 3, 0, 1), 4);
        add(tname(c01::MMAP, 1, 4, 5, 1), A(4, 4, 0, 0), 6);
        add(tname(c01::SET, 0, 4, 4, 0), A(6, 1, 1), 3);
        add(tname(c01::SET, 0, 4, 4, 0), S(25), 40);  // every tree shape with <= 25 keys (three levels, all rebalancing cases between siblings)
        // leaf capacity above the inner capacity ((6,4), set): bulk_load sizes up to the first four-level tree
        addB_plan(tname(c01::SET, 0, 6, 4, 0), 6, 4, 1, 3 * 6 * 5, 1, 4, 4);
        for (auto& c : qcaps) {
            std::string t[2];
            int k[2];
            b_types(c[0], c[1], t, k);
            int N = 3 * c[0] * (c[1] + 1);
            for (int j = 0; j < 2; ++j) {
                bool multi = (k[j] & 1) != 0;
                addB_plan(t[j], c[0], c[1], 1, N, 1, 4, 4);  // every n <= N and the window around the first four-level bulk_load size
                addB_plan(t[j], c[0], c[1], 2, std::min(N, 45), 1, 4, 4);
                if (multi) addB_plan(t[j], c[0], c[1], 2, std::min(N, 45), 2 * c[0] + 1, 2 * c[0] + 4, 4);
            }
        }
    } else if (set == "qa") {
        add(tname(c01::SET, 0, 4, 4, 0), A(10), 6);
        add(tname(c01::MMAP, 1, 4, 5, 1), A(2, 4, 0, 1), 4);
        add(tname(c01::MMAP, 1, 4, 5, 1), A(3, 4, 0, 0), 4);
        add(tname(c01::SET, 0, 4, 4, 0, true), A(9), 6);
        add(tname(c01::MMAP, 0, 4, 4, 0, true), A(3, 4, 0, 0), 4);
        add(tname(c01::SET, 0, 4, 4, 0, true), A(4, 1, 1), 3);
        add(tname(c01::SET, 0, 4, 4, 0, true), S(21), 40);
        for (auto& c : qcaps) {
            std::string t[2];
            int k[2];
            b_types(c[0], c[1], t, k);
            for (int j = 0; j < 2; ++j) {
                bool multi = (k[j] & 1) != 0;
                addB_plan(t[j], c[0], c[1], 1, 60, 1, 4, 4);
                if (multi) addB_plan(t[j], c[0], c[1], 1, 60, 2 * c[0] + 1, 2 * c[0] + 4, 4);
                addB(t[j], 0, c[0] * 3, 2, 1, 4, 4);
            }
        }
        addB(tname(c01::SET, 0, 4, 4, 0, true), 0, 40, 1, 1, 4, 4);
        addB(tname(c01::MMAP, 0, 4, 4, 0, true), 0, 40, 1, 9, 12, 4);
    } else {
        bool P = set == "tp";
        // ---- mode A closures: 6 capacities x 4 kinds x {linear+less, binary+greater}, (4,4) also the other two combinations
        for (auto& c : kCaps6) {
            int l = c[0], i = c[1];
            for (int kind = 0; kind < 4; ++kind)
                for (int combo = 0; combo < 4; ++combo) {
                    int gr = combo & 1, se = (combo >> 1) & 1;
                    if (gr != se && !(l == 4 && i == 4)) continue;
                    std::string t = tname(kind, gr, l, i, se);
                    bool main_combo = gr == se;
                    if (kind == c01::SET || kind == c01::MAP) {
                        // (4,4): three-level trees appear at K=14; the other capacities stay two-level in mode A
                        // (their three-level trees are covered by the multi kinds below and by mode B)
                        int K = P ? ((l == 4 && i == 4 && main_combo) ? 14 : 13) : ((l == 4 && i == 4 && main_combo) ? 12 : 11);
                        add(t, A(K), K == 14 ? 70 : K == 13 ? 22 : K == 12 ? 50 : 20);
                    } else if (kind == c01::MSET) {
                        add(t, A(4, P ? 5 : 4), P ? 30 : 40);
                    } else {
                        add(t, A(4, P ? 5 : 4, 0, 0), P ? 30 : 40);  // data values abstracted in the canonical form
                        add(t, A(3, 3, 0, 1), P ? 4 : 20);           // data values part of the canonical form
                    }
                }
        }
        // ---- mode S: closure over tree shapes (keys abstracted to ranks) up to N elements
        if (P) {
            const int sn[6] = {28, 26, 25, 25, 34, 27};
            for (int c = 0; c < 6; ++c) {
                int l = kCaps6[c][0], i = kCaps6[c][1];
                add(tname(c01::SET, 0, l, i, 0), S(sn[c]), 300);
                add(tname(c01::MAP, 1, l, i, 1), S(sn[c] - 1), 200);
            }
            add(tname(c01::SET, 0, 6, 6, 0), S(36), 200);
        } else {
            add(tname(c01::SET, 0, 4, 4, 0, true), S(25), 300);
            add(tname(c01::MAP, 1, 5, 4, 1, true), S(22), 300);
        }
        // second tree b in the state (assignment between two arbitrary trees, swap), maps with two data values per key
        for (int kind = 0; kind < 4; ++kind) {
            std::string t = tname(kind, 0, 4, 4, 0), t2 = tname(kind, 1, 4, 5, 1);
            bool multi = kind & 1;
            add(t, multi ? A(3, 3, 1, 0) : A(P ? 7 : 6, 1, 1), P ? 14 : 20);
            add(t2, multi ? A(3, 3, 1, 0) : A(P ? 7 : 6, 1, 1), P ? 14 : 20);
            if (kind == c01::MAP) {
                add(t, A(P ? 9 : 7, 1, 0, 1, 2), P ? 25 : 20);
                add(t2, A(P ? 9 : 7, 1, 0, 1, 2), P ? 25 : 20);
            }
        }
        // ---- lifetime-tracked elements
        for (int kind = 0; kind < 4; ++kind) {
            bool multi = kind & 1;
            std::string t = tname(kind, 0, 4, 4, 0, true), t2 = tname(kind, 1, 5, 4, 1, true);
            add(t, multi ? A(4, 4, 0, 0) : A(P ? 12 : 10), P ? 15 : 25);
            add(t2, multi ? A(4, 4, 0, 0) : A(P ? 12 : 10), P ? 15 : 25);
            add(t, multi ? A(2, 3, 1, 0) : A(5, 1, 1), 5);
            addB_plan(t, 4, 4, P ? 2 : 1, P ? 40 : 60, multi ? 9 : 1, 12, 60);
            addB_plan(t2, 5, 4, P ? 2 : 1, P ? 40 : 75, multi ? 11 : 1, 14, 60);
            if (!P) addB(t, 0, 16, 2, multi ? 9 : 1, 12, 60);
        }
        // ---- mode B: every (leaf, inner) in [4..9]^2, two type configurations each
        for (int l = 4; l <= 9; ++l)
            for (int i = 4; i <= 9; ++i) {
                std::string t[2];
                int k[2];
                b_types(l, i, t, k);
                int N = 3 * l * (i + 1);
                for (int j = 0; j < 2; ++j) {
                    bool multi = (k[j] & 1) != 0;
                    int R = 2 * l + 1;
                    if (P) {
                        addB(t[j], 0, N, 1, 1, 4, 60);  // depth 1 from every seed
                        if (multi) addB(t[j], 0, N, 1, R, R + 3, 60);
                        addB_plan(t[j], l, i, 2, multi ? 54 : 64, 1, 4, 60);  // depth 2: n <= 64 (multi: 54) and the first three-level sizes
                        if (multi) addB_plan(t[j], l, i, 2, 64, R, R + 3, 60);
                        if (l * (i + 1) <= 25) addB(t[j], 0, multi ? 28 : 36, 3, 1, 4, 60);  // depth 3 for (4,4), (4,5), (5,4)
                    } else {
                        addB_plan(t[j], l, i, 1, 90, 1, 4, 60);
                        if (multi) addB_plan(t[j], l, i, 1, 90, R, R + 3, 60);
                        addB(t[j], 0, 2 * l + 8, 2, 1, 4, 60);
                    }
                }
            }
        // ---- default traits (leaf_slots/inner_slots from btree_default_traits<int,...>): boundary sizes only, depth 1
        {
            const char* dt[4] = {"set.less.dflt.int", "multimap.greater.dflt.int", "map.less.dflt.int", "multiset.greater.dflt.int"};
            for (auto t : dt) {
                if (!c01::registry().count(t)) continue;
                int L = c01::registry()[t].leaf, I = c01::registry()[t].inner;
                bool multi = std::string(t).find("multi") != std::string::npos;
                std::vector<int> ns = {0, 1, 2, L - 1, L, L + 1, 2 * L, 2 * L + 1, 3 * L + 1, L * (I + 1), L * (I + 1) + 1};
                if (P) ns.push_back(2 * L * (I + 1) + 7);
                for (int n : ns) add(t, B(n, n, 1, multi ? L + 3 : 1, L + 6), (g_asan ? 7 : 1) * 2.0 * n * ((0.06 + 0.0012 * n) * 1e-3 + 4 * (6 + 0.1 * n) * 1e-6));
            }
        }
    }
}

static void split_replay(const std::string& r, std::string& tn, Params& p, std::string& h) {
    size_t bar = r.find('|');
    std::string cfg = r.substr(0, bar);
    h = bar == std::string::npos ? "-" : r.substr(bar + 1);
    size_t sl = cfg.find('/');
    tn = cfg.substr(0, sl);
    p = Params::parse(sl == std::string::npos ? "" : cfg.substr(sl + 1));
}

int main(int argc, char** argv) {
    vh::init(argc, argv);
    tlx::set_die_with_exception(true);  // verify() failures become exceptions
    std::string o = vh::args().opt("oracle", "both");
    c01::G().oracle = o == "semantic" ? 1 : o == "structural" ? 2 : 3;
    if (vh::args().has_replay) {
        return vh::replay_one([&](const std::string& r) {
            std::string tn, h;
            Params p;
            split_replay(r, tn, p, h);
            auto it = c01::registry().find(tn);
            if (it == c01::registry().end()) {
                vh::out_line("ERROR unknown type configuration in replay string: " + tn);
                return;
            }
            it->second.replay(p, h);
        });
    }
    std::string one = vh::args().opt("cfg");
    if (!one.empty()) {
        std::string tn, h;
        Params p;
        split_replay(one, tn, p, h);
        p.cap = vh::args().opt_int("cap", 5000000);
        c01::registry().at(tn).run(p);
        return vh::finish();
    }
    std::string set = vh::args().opt("set", vh::args().thorough() ? "tp" : "qp");
    build_table(set);
    std::stable_sort(g_tab.begin(), g_tab.end(), [](const Cfg& a, const Cfg& b) { return a.cost > b.cost; });
    int sh = vh::args().shard, n = vh::args().nshards;
    // most expensive first, each to the least loaded shard so far (round-robin when the costs are equal); deterministic
    std::vector<int> shard_of(g_tab.size());
    {
        std::vector<double> load(n, 0.0);
        for (size_t i = 0; i < g_tab.size(); ++i) {
            int best = 0;
            for (int j = 1; j < n; ++j)
                if (load[j] < load[best] - 1e-9) best = j;
            shard_of[i] = best;
            load[best] += g_tab[i].cost + 0.05;
        }
    }
    if (vh::args().opt_int("list", 0)) {
        double tot = 0;
        for (size_t i = 0; i < g_tab.size(); ++i) {
            vh::note(vh::fmt("shard %d cost %.1f %s/%s", shard_of[i], g_tab[i].cost, g_tab[i].tn.c_str(), g_tab[i].p.str().c_str()));
            tot += g_tab[i].cost;
        }
        vh::note(vh::fmt("%zu configurations, total cost %.0f", g_tab.size(), tot));
        return vh::finish();
    }
    if (sh == 0) {
        vh::sample("state = real tlx::btree_set<int, std::less<int>, traits{leaf_slots=4, inner_slots=4, linear search}, counting allocator> next to std::set<int>; "
                   "history e.g. bulk_load(0,1,2,3,4,5,6,7,8) erase_iter(@4) insert(4) erase_key(0) assign_from_temp(2) swap_with_temp(1) copy_construct() — closure over all "
                   "histories on the universe 0..K-1; after every transition verify(), structure walk, node ledger, contents vs std::set; in every new state all queries for keys -1..K");
        vh::sample("canonical state of the (4,4) set after insert(0)..insert(8), erase_iter(4): I1(L0,1;k1 L2,3;k3 L5,6;k6 L7,8;)|s8,4,1  (level, keys per leaf, separators, stats; "
                   "the leaf chain is checked against this order and dumped explicitly only when it differs)");
        vh::sample("mode B: seed bulk_load(n) of the odd keys 1,3,..,2n-1 for every n <= 3*leaf*(inner+1), then every insert of a gap key, erase by key / one / iterator position, clear, copy, assign, swap to depth d");
    }
    double t0 = vh::now();
    auto child_cpu = [] {
        struct rusage ru;
        getrusage(RUSAGE_CHILDREN, &ru);
        return ru.ru_utime.tv_sec + ru.ru_utime.tv_usec * 1e-6 + ru.ru_stime.tv_sec + ru.ru_stime.tv_usec * 1e-6;
    };
    for (size_t i = 0; i < g_tab.size(); ++i) {
        if (shard_of[i] != sh) continue;
        double c1 = child_cpu();
        c01::registry().at(g_tab[i].tn).run(g_tab[i].p);
        if (vh::args().opt_int("timing", 0)) vh::out_line(vh::fmt("TIMING cpu %.2fs (estimate %.1f) %s/%s", child_cpu() - c1, g_tab[i].cost, g_tab[i].tn.c_str(), g_tab[i].p.str().c_str()));
    }
    vh::stat_max("shard_wall_s", (long long)(vh::now() - t0));
    vh::stat_max("shard_cpu_s", (long long)child_cpu());
    vh::stat_add("cpu_s_total", (long long)child_cpu());
    return vh::finish();
}
