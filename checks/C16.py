from vlib import Harness, NCPU


def plan(tier):
    fl = ["-fno-access-control"]  # canonical state = private members of RingBuffer / SimpleVector
    rb = Harness("c16_ring_buffer", ["harness/c16_ring_buffer.cpp"], flavor="asan", extra_flags=fl)
    sv = Harness("c16_simple_vector", ["harness/c16_simple_vector.cpp"], flavor="asan", extra_flags=fl)
    top = 5 if tier == "quick" else 9
    return {
        "harnesses": [rb, sv],
        "runs": [(rb, ["--tier", tier], NCPU), (sv, ["--tier", tier], 4)],
        "rule": "BFS closure (frontier empty) over operation histories of the real containers, one closure per configuration. "
                "RingBuffer: configuration = (element type Tracked+counting allocator | int, M0 = max_size of buffer a in 0..%d, Mb = max_size of "
                "buffer b in {M0, neighbour with equal rounded capacity, nearest smaller/larger with different rounded capacity}); ops = "
                "ctor/default ctor/copy ctor/move ctor/destructor, push_back/push_front (copy, move), emplace_back/front with values 0|1, pop_front, "
                "pop_back, clear, move_to, copy-/move-assignment a<-b, b<-a and self, deallocate, allocate(m) (a: m in 0..9, b: Mb); states "
                "de-duplicated on (allocation kind, max_size_, capacity_, mask_, begin_, end_, size, data_!=null, contents) of both buffers; "
                "size/empty/max_size/front/back/operator[] for every index/copy_to are compared with a std::deque in every new state. "
                "SimpleVector: configuration = (Tracked|int, Normal) and (int, NoInitButDestroy|NoInitNoDestroy); ops = ctor(n<=4), default ctor, "
                "element write, fill, resize(m<=5), destroy(), move ctor, move assign (also self), swap (also self), destructor on two vectors; "
                "states = (size_, array_!=null, contents) of both. After every transition: contents == model, live Tracked objects == exactly the "
                "stored elements (and stay the same objects while stored), allocator blocks balanced, ASan." % top,
        "assumptions": [
            "two containers share no state except the stateless allocator, so the menu of one is pruned while the other is in a rich state "
            "(rules R1-R5 in harness/c16_ring_buffer.cpp; at most one SimpleVector holds more than 2 elements)",
            "element values 0/1 (plus the default value 7 of a default-constructed Tracked); identity comes from the Tracked serial",
            "a copy of a RingBuffer without storage is treated as being in an unspecified allocation state: it is only destroyed, deallocate()d, "
            "assigned to or copied/moved from",
            "allocator deallocate(nullptr, n) is tolerated (tlx does this for never-allocated buffers; std::allocator accepts it in practice)",
            "after the first crash of a class of transitions (label, allocation kinds, source empty?, equal capacity?) the remaining members of "
            "that class are not driven (counted in stats.crash_class_transitions_not_driven)",
        ],
    }
