// C03 — shared declarations of the sequential string sorter check (see c03_sort_strings_main.cpp).
//
// The check is split into several translation units because every (algorithm, string set,
// lcp/nolcp) combination is a separate heavy template instantiation:
//   c03_sort_strings_main.cpp    enumeration of inputs, replay, main()      (no tlx headers)
//   c03_sort_strings_uchar.cpp   detail sorters over UCharStringSet
//   c03_sort_strings_std.cpp     detail sorters over StdStringSet
//   c03_sort_strings_uptr.cpp    detail sorters over UPtrStdStringSet
//   c03_sort_strings_suffix.cpp  detail sorters over StringSuffixSet
//   c03_sort_strings_front.cpp   tlx::sort_strings / sort_strings_lcp overloads
// c03_sort_strings_algos.hpp (tlx headers + dispatch by algorithm number) is included by the
// per-set TUs only.
#pragma once
#include <cstdint>
#include <cstring>
#include <string>
#include <vector>

#include "common/vharness.hpp"

namespace c03 {

enum Algo { A_INS = 0, A_MKQS, A_CE0, A_CE2, A_CE3, A_CI2, A_CI3, N_ALGO };
static const char* const ALGO_NAME[N_ALGO] = {"insertion_sort", "multikey_quicksort", "radixsort_CE0", "radixsort_CE2",
                                              "radixsort_CE3",  "radixsort_CI2",      "radixsort_CI3"};

// One input.  Shape families: `shape` = distinct NUL-free strings, `seq` = for every position
// of the array to be sorted the index of the shape element placed there.  Text family (suffix
// sets): `text` and `sa` = the initial suffix index array.
struct Input {
    std::vector<std::string> shape;
    std::vector<uint32_t> seq;
    std::string text;
    std::vector<size_t> sa;
    bool is_text = false;
    // only used to report which fall-back path a call takes (vh::outcome), not by any oracle:
    // largest s such that >= 32 (>= 65536) strings share a prefix of s (2s) characters
    size_t maxdepth32 = 0, maxdepth64k = 0;
    size_t n() const { return is_text ? sa.size() : seq.size(); }
};

// A runner owns the tlx instantiations of one string set representation.
struct Runner {
    virtual ~Runner() {}
    virtual const char* key() const = 0;                        // used in replay strings
    virtual int n_entries() const = 0;                          // algorithms / front-end overloads
    virtual std::string label(int entry, bool lcp) const = 0;   // "<entry>[<stringset>,<lcp|nolcp>]"
    virtual bool quadratic(int entry) const = 0;                // plain insertion sort (skipped for huge inputs)
    virtual void prepare(const Input& in) = 0;                  // build the string objects once per input
    virtual void run(int entry, bool lcp, size_t memory) = 0;   // one tlx call + all oracles
    virtual void release() = 0;
};
Runner* make_runner_uchar();
Runner* make_runner_std();
Runner* make_runner_uptr();
Runner* make_runner_suffix();
Runner* make_runner_front();

// ---------------------------------------------------------------------------------------
// independent reference: naive unsigned-byte comparison / common prefix

struct View {
    const unsigned char* p;
    size_t n;
};
static inline View view_of(const std::string& s) { return View{reinterpret_cast<const unsigned char*>(s.data()), s.size()}; }

static inline size_t common_prefix(View a, View b) {
    size_t i = 0;
    while (i < a.n && i < b.n && a.p[i] == b.p[i]) ++i;
    return i;
}
// true iff a <= b in unsigned-byte lexicographic order (a proper prefix is smaller)
static inline bool leq(View a, View b) {
    size_t i = common_prefix(a, b);
    if (i == a.n) return true;
    if (i == b.n) return false;
    return a.p[i] < b.p[i];
}

static inline std::string hex(View v) {
    std::string o;
    for (size_t i = 0; i < v.n; ++i) o += vh::fmt("%02x", v.p[i]);
    return o.empty() ? "-" : o;
}
static inline std::string hex(const std::string& s) { return hex(view_of(s)); }

static const uint32_t LCP_CANARY = 0xEEEEEEEEu;

// exact-size heap array of lcp values (n == 0: still a valid pointer); any write outside
// [0,n) is an ASan report.
struct LcpArray {
    uint32_t* p = nullptr;
    size_t n = 0;
    void alloc(size_t n_) {
        n = n_;
        p = new uint32_t[n ? n : 1];
    }
    void fill() {
        for (size_t i = 0; i < n; ++i) p[i] = LCP_CANARY;
    }
    void free_() {
        delete[] p;
        p = nullptr;
    }
};

struct Counters {
    unsigned long long sorts = 0, strings = 0;
};
Counters& counters();

// order + lcp oracles on the output seen as byte views (out[i] = i-th string after sorting).
// Returns false if something was reported.
static inline bool check_order_lcp(const std::string& label, const View* out, size_t n, const uint32_t* lcp) {
    bool ok = true;
    for (size_t i = 1; i < n; ++i) {
        if (!leq(out[i - 1], out[i])) {
            vh::fail(label + "/order", vh::cur_replay(),
                     vh::fmt("%s: n=%zu out[%zu]=%s > out[%zu]=%s", vh::cur_replay().c_str(), n, i - 1, hex(out[i - 1]).c_str(), i,
                             hex(out[i]).c_str()));
            ok = false;
            break;
        }
    }
    if (lcp) {
        // lcp[0] is not specified by the property: not compared.
        for (size_t i = 1; i < n; ++i) {
            size_t want = common_prefix(out[i - 1], out[i]);
            if (lcp[i] != want) {
                vh::fail(label + "/lcp", vh::cur_replay(),
                         vh::fmt("%s: n=%zu lcp[%zu]=%s but common prefix of out[%zu]=%s and out[%zu]=%s is %zu", vh::cur_replay().c_str(),
                                 n, i, lcp[i] == LCP_CANARY ? "<never written>" : vh::fmt("%u", lcp[i]).c_str(), i - 1,
                                 hex(out[i - 1]).c_str(), i, hex(out[i]).c_str(), want));
                ok = false;
                break;
            }
        }
    }
    return ok;
}

// The replay string of the current input ("S=..;M=..;A=.." etc.) is published once per input by
// main; every tlx call appends ";mem=<m>;r=<runner>;e=<entry>;lcp=<0|1>" behind it.
size_t& replay_base_len();
static inline void publish_call(const std::string& label, const char* runner, int entry, bool lcp, size_t memory) {
    vh::at_op(label.c_str());
    char* r = vh::shm()->replay;
    size_t off = replay_base_len();
    snprintf(r + off, sizeof(vh::shm()->replay) - off, ";mem=%zu;r=%s;e=%d;lcp=%d", memory, runner, entry, (int)lcp);
}

static inline void fail_permutation(const std::string& label, const std::string& what) {
    vh::fail(label + "/permutation", vh::cur_replay(), vh::cur_replay() + ": " + what);
}

}  // namespace c03
