import hashlib
import os

from vlib import Harness, NCPU, VERIF


def _common_hash():
    # the build cache keys on the .cpp content only; make edits of the shared header invalidate it too
    with open(os.path.join(VERIF, "harness/c20_common.hpp"), "rb") as fh:
        return hashlib.sha1(fh.read()).hexdigest()[:12]


def plan(tier):
    d = ["C20_COMMON_HASH=0x" + _common_hash()]
    # 32-bit overloads/templates: 2^32 sweep (thorough) -> -O2, no sanitizer (pure arithmetic)
    h32 = Harness("c20_math32", ["harness/c20_math32.cpp"], flavor="plain", defines=d)
    # 8/16-bit templates, 64-bit overloads, popcount buffer form, two-argument grids, Aggregate -> ASan
    h = Harness("c20_math", ["harness/c20_math.cpp"], flavor="asan", defines=d)
    sweep = ("all 2^32 values x" if tier == "thorough" else
             "v, v<<8, v<<16 for every 16-bit v (196096 distinct values)")
    v64 = "~1.3e5 (one/two/three-bit patterns" if tier == "thorough" else "~1.2e4 (one/two-bit patterns"
    return {
        "harnesses": [h32, h],
        "runs": [(h32, ["--tier", tier], NCPU, 3000), (h, ["--tier", tier], NCPU, 1800)],
        "states_key": "inputs", "transitions_key": "comparisons", "traces_key": "comparisons",
        "distinct_key": "inputs",
        "rule": "an input is one argument value / argument pair / (size,alignment,pattern) buffer / Aggregate operand pair; "
                "32-bit int+unsigned overloads and templates: %s plus 2751 structured values, per x ~200 calls "
                "(clz ctz ffs popcount log2_floor/ceil is_pow2 round_up/down_pow2, *_template, sgn, popcount_generic32, bswap32, "
                "rol32/ror32(+generic) shifts 0..31, div_ceil/round_up/abs_diff vs constants); every value of the uint8/int8/"
                "uint16/int16 template instantiations, popcount_generic8/16, bswap16; every 8-bit x 8-bit pair for "
                "abs_diff/div_ceil/round_up; %s, 2^k+-1, 2^k-2^j, extremes, byte patterns, negations, complements) "
                "64-bit patterns through the long/unsigned long/long long/unsigned long long overloads, templates, "
                "popcount_generic64, bswap64, rol64/ror64 shifts 0..63; popcount(data,size) for size 0..24 x alignment 0..7 x "
                "(ones, zeros, every one-hot byte, ramp); div_ceil/round_up/abs_diff on G(T)xG(T) structured grids (44-62 values) "
                "for 8 same-type and 2 mixed-type combinations; Aggregate<double>/<int>: all 398x398 operand pairs (lists of "
                "length 0..3 over 4 values, fed by add() or built by operator+ from prefix/suffix) x {A+B,B+A,A+=B,B+=A,one fed "
                "all}. Every result is compared with an exact reference (128-bit arithmetic / bit loops / two-pass long double); "
                "calls outside the documented domain or with unrepresentable result are skipped and counted in "
                "stats.skipped_not_applicable; trivial = none" % (sweep, v64),
        "assumptions": [
            "x86-64 clang build: the intrinsic / inline-asm branches of the headers are the ones compiled; the generic "
            "fall-backs are exercised through the *_template / *_generic entry points",
            "documented domains as listed at the top of harness/c20_common.hpp (log2 and round_up_to_power_of_two only for "
            "x >= 1, div_ceil only for n,k >= 1, rotation counts 0..width-1, round_down_to_power_of_two(0) == 0 and "
            "round_up(0,k) == 0 as pinned by tests/math_test.cpp)",
            "64-bit arguments: structured values only (not exhaustive); 16/32/64-bit two-argument helpers: structured grid only",
            "Aggregate: value alphabet {-2,0,0.5,1e6} / {-2,0,1,1000000}, list length <= 3, tolerance 1e-9 relative or 1e-12 absolute",
            "fast table-driven references are cross-checked against naive bit-loop definitions at start-up of every shard",
        ],
    }
