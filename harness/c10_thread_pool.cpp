// C10 — tlx::ThreadPool under every schedule (engine E1).  thread_pool.cpp and this TU are compiled
// with the shadow-std shim; tlx sources unchanged.  Private members (jobs_, busy_, done_) are read
// through -fno-access-control at the instant loop_until_empty() returns (there is no scheduling point
// between the predicate evaluation inside the wait and the first statement after the call).
#include <tlx/thread_pool.hpp>

#include <memory>

#include "sched/vexplore.hpp"

using vshim::thread;

#define REQUIRE(cond, sig, ...)                                \
    do {                                                       \
        if (!(cond)) vs_fail(sig, vh::fmt(__VA_ARGS__).c_str()); \
    } while (0)

struct Jobs {
    // plain (non-atomic) on purpose: written by jobs, read by the waiter after loop_until_empty():
    // in the TSan build any missing happens-before edge is a report (visibility oracle), and two
    // concurrent runs of one job race on its counter.
    int ran[8] = {0, 0, 0, 0, 0, 0, 0, 0};
    int result[8] = {0, 0, 0, 0, 0, 0, 0, 0};
    void run(int i) {
        ran[i]++;
        result[i] = 100 + i;
    }
    int total() const {
        int t = 0;
        for (int i = 0; i < 8; ++i) t += ran[i];
        return t;
    }
};

// ---- explicit-state mode: abstract shared state = the pool's fields and the job ledger; thread-local state =
// call-site chain + pending operation (scheduler) + the loop-counter tags set below.  Everything else a thread
// holds is either constant (worker index) or determined by its location (lock ownership).
static tlx::ThreadPool* g_pool;
static Jobs* g_J;
static long g_aux[2];  // harness data that later checks read (must be part of the abstract state)
__attribute__((no_sanitize("thread"))) static uint64_t pool_state() {
    uint64_t h = 99;
    auto mix = [&h](uint64_t v) { h = (h ^ (v + 0x9E3779B97F4A7C15ull + (h << 6) + (h >> 2))) * 0xff51afd7ed558ccdull; };
    if (g_J)
        for (int i = 0; i < 8; ++i) mix((uint64_t)g_J->ran[i] * 16 + (uint64_t)(g_J->result[i] != 0));
    if (g_pool) {
        mix(g_pool->jobs_.size());
        mix(g_pool->busy_.vs_peek());
        mix(g_pool->idle_.vs_peek());
        mix(g_pool->done_.vs_peek());
        mix(g_pool->terminate_.vs_peek());
    } else {
        mix(0xdead);
    }
    mix((uint64_t)g_aux[0] + 7);
    mix((uint64_t)g_aux[1] + 7);
    return h;
}
struct Track {
    Track(tlx::ThreadPool* p, Jobs* j) {
        g_pool = p;
        g_J = j;
    }
};
// declared first in every scenario body, hence destroyed last: the pointers stay valid while the pool's destructor
// runs (its scheduling points must still see terminate_ etc.) and never dangle into the next execution
struct Reset {
    Reset() { g_pool = nullptr, g_J = nullptr, g_aux[0] = g_aux[1] = 0; }
    ~Reset() { g_pool = nullptr, g_J = nullptr; }
};

static void check_quiescent(tlx::ThreadPool& pool, const char* where) {
    REQUIRE(pool.jobs_.empty(), "loop_until_empty-returned-with-queued-job", "%s: %zu job(s) still queued", where, pool.jobs_.size());
    REQUIRE(pool.busy_.vs_peek() == 0, "loop_until_empty-returned-with-running-job", "%s: busy=%zu", where, pool.busy_.vs_peek());
}

static void check_all_once(const Jobs& J, int n, const char* where) {
    for (int i = 0; i < n; ++i) {
        REQUIRE(J.ran[i] == 1, J.ran[i] > 1 ? "job-ran-twice" : "job-not-run", "%s: job %d ran %d times", where, i, J.ran[i]);
        REQUIRE(J.result[i] == 100 + i, "job-effect-not-visible", "%s: result[%d]=%d", where, i, J.result[i]);
    }
}

static void check_at_most_once(const Jobs& J, const char* where) {
    for (int i = 0; i < 8; ++i) REQUIRE(J.ran[i] <= 1, "job-ran-twice", "%s: job %d ran %d times", where, i, J.ran[i]);
}

// a) independent jobs from main
static void sc_a(int W, int NJ) {
    Reset rst;
    Jobs J;
    {
        tlx::ThreadPool pool(W);
        Track trk(&pool, &J);
        for (int i = 0; i < NJ; ++i) {
            vs_set_tag(1 + i);
            pool.enqueue([&J, i]() { J.run(i); });
        }
        vs_set_tag(50);
        pool.loop_until_empty();
        check_quiescent(pool, "a");
        check_all_once(J, NJ, "a");
        REQUIRE(pool.done_.vs_peek() == (size_t)NJ, "done-count", "done()=%zu after %d jobs", pool.done_.vs_peek(), NJ);
    }
    g_pool = nullptr;
    check_all_once(J, NJ, "a/after-destruction");
    vs_observe(vh::fmt("a ran=%d", J.total()).c_str());
}

// b) job -> child -> grandchild
static void sc_b(int W, int extra) {
    Reset rst;
    Jobs J;
    {
        tlx::ThreadPool pool(W);
        Track trk(&pool, &J);
        tlx::ThreadPool* p = &pool;
        pool.enqueue([&J, p]() {
            J.run(0);
            p->enqueue([&J, p]() {
                J.run(1);
                p->enqueue([&J]() { J.run(2); });
            });
        });
        for (int i = 0; i < extra; ++i) {
            vs_set_tag(1 + i);
            pool.enqueue([&J, i]() { J.run(3 + i); });
        }
        vs_set_tag(50);
        pool.loop_until_empty();
        check_quiescent(pool, "b");
        check_all_once(J, 3 + extra, "b");
        REQUIRE(pool.done_.vs_peek() == (size_t)(3 + extra), "done-count", "done()=%zu", pool.done_.vs_peek());
    }
    g_pool = nullptr;
    vs_observe(vh::fmt("b ran=%d", J.total()).c_str());
}

// c) a second external thread enqueues while main waits
static void sc_c(int W, int NJ2) {
    Reset rst;
    Jobs J;
    {
        tlx::ThreadPool pool(W);
        tlx::ThreadPool* p = &pool;
        thread other([&J, p, NJ2]() {
            for (int i = 0; i < NJ2; ++i) p->enqueue([&J, i]() { J.run(1 + i); });
        });
        pool.enqueue([&J]() { J.run(0); });
        pool.loop_until_empty();
        // (no peek at jobs_ here: the other thread may be enqueuing right now)
        REQUIRE(J.ran[0] == 1, J.ran[0] > 1 ? "job-ran-twice" : "job-not-run", "c: job 0 ran %d times at first return", J.ran[0]);
        other.join();
        pool.loop_until_empty();
        check_quiescent(pool, "c/second");
        check_all_once(J, 1 + NJ2, "c");
        REQUIRE(pool.done_.vs_peek() == (size_t)(1 + NJ2), "done-count", "done()=%zu", pool.done_.vs_peek());
    }
    vs_observe(vh::fmt("c ran=%d", J.total()).c_str());
}

// d) a job terminates the pool while main is in loop_until_terminate
static void sc_d(int W, int NJ) {
    Reset rst;
    Jobs J;
    {
        tlx::ThreadPool pool(W);
        Track trk(&pool, &J);
        tlx::ThreadPool* p = &pool;
        for (int i = 0; i < NJ; ++i) {
            vs_set_tag(1 + i);
            if (i == NJ / 2)
                pool.enqueue([&J, p, i]() {
                    J.run(i);
                    p->terminate();
                });
            else
                pool.enqueue([&J, i]() { J.run(i); });
        }
        vs_set_tag(50);
        pool.loop_until_terminate();
        REQUIRE(pool.busy_.vs_peek() == 0, "loop_until_terminate-returned-with-running-job", "busy=%zu", pool.busy_.vs_peek());
        REQUIRE(J.ran[NJ / 2] == 1, "job-not-run", "terminating job ran %d times", J.ran[NJ / 2]);
        check_at_most_once(J, "d");
        REQUIRE(pool.done_.vs_peek() == (size_t)J.total(), "done-count", "done()=%zu but %d jobs ran", pool.done_.vs_peek(), J.total());
    }
    g_pool = nullptr;
    check_at_most_once(J, "d/after-destruction");
    vs_observe(vh::fmt("d ran=%d", J.total()).c_str());
}

// e) destruction / terminate() from main with jobs still queued
static void sc_e(int W, int NJ, bool call_terminate) {
    Reset rst;
    Jobs J;
    {
        tlx::ThreadPool pool(W);
        Track trk(&pool, &J);
        for (int i = 0; i < NJ; ++i) {
            vs_set_tag(1 + i);
            pool.enqueue([&J, i]() { J.run(i); });
        }
        vs_set_tag(50);
        if (call_terminate) {
            pool.terminate();
            pool.loop_until_terminate();
            REQUIRE(pool.busy_.vs_peek() == 0, "loop_until_terminate-returned-with-running-job", "busy=%zu", pool.busy_.vs_peek());
            REQUIRE(pool.done_.vs_peek() == (size_t)J.total(), "done-count", "done()=%zu but %d jobs ran", pool.done_.vs_peek(), J.total());
        }
    }
    g_pool = nullptr;
    check_at_most_once(J, "e");
    vs_observe(vh::fmt("e ran=%d", J.total()).c_str());
}

// f) two external waiters
static void sc_f(int W, int NJ, bool second_is_terminate_waiter) {
    Reset rst;
    Jobs J;
    {
        tlx::ThreadPool pool(W);
        Track trk(&pool, &J);
        tlx::ThreadPool* p = &pool;
        for (int i = 0; i < NJ; ++i) {
            vs_set_tag(1 + i);
            pool.enqueue([&J, i]() { J.run(i); });
        }
        vs_set_tag(50);
        g_aux[0] = -1;
        thread other([&J, p, NJ]() {
            p->loop_until_empty();
            g_aux[0] = J.total();
        });
        pool.loop_until_empty();
        check_quiescent(pool, "f/main");
        check_all_once(J, NJ, "f/main");
        other.join();
        REQUIRE(g_aux[0] == NJ, "job-not-run", "second waiter returned after %ld of %d jobs", g_aux[0], NJ);
        (void)second_is_terminate_waiter;
    }
    g_pool = nullptr;
    vs_observe(vh::fmt("f ran=%d", J.total()).c_str());
}

// f2) one waiter for emptiness, one for termination; a job terminates the pool
static void sc_f2(int W) {
    Reset rst;
    Jobs J;
    {
        tlx::ThreadPool pool(W);
        Track trk(&pool, &J);
        tlx::ThreadPool* p = &pool;
        pool.enqueue([&J, p]() {
            J.run(0);
            p->terminate();
        });
        thread other([p]() { p->loop_until_terminate(); });
        pool.loop_until_empty();
        other.join();
        check_at_most_once(J, "f2");
        REQUIRE(J.ran[0] == 1, "job-not-run", "job 0 ran %d times", J.ran[0]);
    }
    vs_observe(vh::fmt("f2 ran=%d", J.total()).c_str());
}

// h) an external thread terminates the pool while main waits for termination (idle pool or with jobs)
static void sc_h(int W, int NJ) {
    Reset rst;
    Jobs J;
    {
        tlx::ThreadPool pool(W);
        Track trk(&pool, &J);
        tlx::ThreadPool* p = &pool;
        for (int i = 0; i < NJ; ++i) {
            vs_set_tag(1 + i);
            pool.enqueue([&J, i]() { J.run(i); });
        }
        vs_set_tag(50);
        thread other([p]() { p->terminate(); });
        pool.loop_until_terminate();
        REQUIRE(pool.busy_.vs_peek() == 0, "loop_until_terminate-returned-with-running-job", "busy=%zu", pool.busy_.vs_peek());
        REQUIRE(pool.terminate_.vs_peek(), "loop_until_terminate-returned-before-terminate", "terminate flag not set");
        other.join();
        check_at_most_once(J, "h");
        REQUIRE(pool.done_.vs_peek() == (size_t)J.total(), "done-count", "done()=%zu but %d jobs ran", pool.done_.vs_peek(), J.total());
    }
    check_at_most_once(J, "h/after-destruction");
    vs_observe(vh::fmt("h ran=%d", J.total()).c_str());
}

// i) jobs whose closures OWN something: every job captures a shared token, and the token's destructor - which runs when the
// last closure (or main's copy) is destroyed - enqueues a continuation (fork-join style).  The worker destroys a job's closure
// right after running it, outside the mutex and before it counts the job as done, so the continuation is enqueued while the
// pool still counts the finishing job as busy: loop_until_empty() must not return before the continuation ran.
struct Token {
    tlx::ThreadPool* pool;
    Jobs* J;
    int id;
    ~Token() {
        Jobs* j = J;
        int i = id;
        pool->enqueue([j, i]() { j->run(i); });
    }
};
static void sc_i(int W, int NJ) {
    Reset rst;
    Jobs J;
    {
        tlx::ThreadPool pool(W);
        Track trk(&pool, &J);
        {
            ::std::shared_ptr<Token> tok(new Token{&pool, &J, NJ});
            for (int i = 0; i < NJ; ++i) {
                vs_set_tag(1 + i);
                pool.enqueue([&J, i, tok]() { J.run(i); });
            }
            vs_set_tag(40);
        }  // main's copy goes away; the last owner (a finished job's closure or main) runs ~Token
        vs_set_tag(50);
        pool.loop_until_empty();
        check_quiescent(pool, "i");
        check_all_once(J, NJ + 1, "i");  // NJ jobs and the continuation
        REQUIRE(pool.done_.vs_peek() == (size_t)(NJ + 1), "done-count", "done()=%zu after %d jobs and one continuation", pool.done_.vs_peek(), NJ);
    }
    g_pool = nullptr;
    check_all_once(J, NJ + 1, "i/after-destruction");
    vs_observe(vh::fmt("i ran=%d", J.total()).c_str());
}

// j) a job terminates the pool and then keeps working; main waits with loop_until_empty(): waiting for emptiness on a
// terminated pool must still return only once the running job has finished (the queue is empty here, so it does return)
static void sc_j(int W, int NJ) {
    Reset rst;
    Jobs J;
    {
        tlx::ThreadPool pool(W);
        Track trk(&pool, &J);
        tlx::ThreadPool* p = &pool;
        for (int i = 0; i + 1 < NJ; ++i) {
            vs_set_tag(1 + i);
            pool.enqueue([&J, i]() { J.run(i); });
        }
        vs_set_tag(40);
        pool.loop_until_empty();  // the independent jobs are done; only the terminating job follows
        check_all_once(J, NJ - 1, "j/first");
        int last = NJ - 1;
        pool.enqueue([&J, p, last]() {
            p->terminate();
            J.run(last);  // work after terminate(): still part of the running job
        });
        vs_set_tag(50);
        pool.loop_until_empty();
        REQUIRE(pool.busy_.vs_peek() == 0, "loop_until_empty-returned-with-running-job", "j: busy=%zu after terminate() from a job", pool.busy_.vs_peek());
        check_all_once(J, NJ, "j");
        REQUIRE(pool.done_.vs_peek() == (size_t)NJ, "done-count", "done()=%zu after %d jobs", pool.done_.vs_peek(), NJ);
    }
    g_pool = nullptr;
    vs_observe(vh::fmt("j ran=%d", J.total()).c_str());
}

// g) reuse: two rounds
static void sc_g(int W, int NJ) {
    Reset rst;
    Jobs J;
    {
        tlx::ThreadPool pool(W);
        Track trk(&pool, &J);
        for (int i = 0; i < NJ; ++i) {
            vs_set_tag(1 + i);
            pool.enqueue([&J, i]() { J.run(i); });
        }
        vs_set_tag(50);
        pool.loop_until_empty();
        check_quiescent(pool, "g/1");
        check_all_once(J, NJ, "g/1");
        for (int i = 0; i < NJ; ++i) {
            vs_set_tag(60 + i);
            pool.enqueue([&J, i, NJ]() { J.run(NJ + i); });
        }
        vs_set_tag(90);
        pool.loop_until_empty();
        check_quiescent(pool, "g/2");
        check_all_once(J, 2 * NJ, "g/2");
        REQUIRE(pool.done_.vs_peek() == (size_t)(2 * NJ), "done-count", "done()=%zu", pool.done_.vs_peek());
        REQUIRE(pool.idle_.vs_peek() <= (size_t)W, "idle-count", "idle()=%zu > %d", pool.idle_.vs_peek(), W);
    }
    g_pool = nullptr;
    vs_observe(vh::fmt("g ran=%d", J.total()).c_str());
}

int main(int argc, char** argv) {
    std::vector<vx::Scenario> scs;
    // mode P = preemption-bounded (non-preemptive switches free), D = delay-bounded (every deviation from the
    // round-robin default costs); D is used where the number of free switches makes P infeasible (3 workers, 4+ threads)
    auto add = [&](const std::string& name, const std::string& fam, std::function<void()> body, char mode, int bq, int bt) {
        vx::Scenario s;
        s.name = name;
        s.family = "pool." + fam;
        s.body = body;
        s.delay = mode == 'D';
        s.bound_quick = bq;
        // the 1- and 2-worker scenarios are also explored without a bound in explicit-state mode (X: scenarios below),
        // so the bounded thorough tier goes one step beyond quick at most
        s.bound_thorough = std::min(bt, bq + 1);
        s.horizon = 20000;
        scs.push_back(s);
    };
    for (int W = 1; W <= 3; ++W) {
        char big = W == 3 ? 'D' : 'P';
        for (int NJ = 1; NJ <= 3; ++NJ) {
            if (W == 1) add(vh::fmt("a:w%d:j%d", W, NJ), "independent", [W, NJ] { sc_a(W, NJ); }, 'P', 3, 4);
            if (W == 2) add(vh::fmt("a:w%d:j%d", W, NJ), "independent", [W, NJ] { sc_a(W, NJ); }, 'P', NJ == 1 ? 2 : 1, NJ == 3 ? 2 : 3);
            if (W == 3 && NJ <= 2) add(vh::fmt("a:w%d:j%d", W, NJ), "independent", [W, NJ] { sc_a(W, NJ); }, 'D', 2, 3);
        }
        add(vh::fmt("b:w%d:x0", W), "nested", [W] { sc_b(W, 0); }, big, W == 1 ? 3 : (W == 2 ? 1 : 2), W == 1 ? 4 : (W == 2 ? 2 : 3));
        if (W <= 2) add(vh::fmt("b:w%d:x1", W), "nested", [W] { sc_b(W, 1); }, 'P', W == 1 ? 3 : 1, W == 1 ? 4 : 2);
        add(vh::fmt("c:w%d:j1", W), "second-enqueuer", [W] { sc_c(W, 1); }, W == 1 ? 'P' : 'D', 2, 3);
        if (W <= 2) add(vh::fmt("c:w%d:j2", W), "second-enqueuer", [W] { sc_c(W, 2); }, W == 1 ? 'P' : 'D', 2, 3);
        add(vh::fmt("d:w%d:j1", W), "terminate-from-job", [W] { sc_d(W, 1); }, big, W == 1 ? 3 : (W == 2 ? 2 : 2), W == 1 ? 4 : 3);
        add(vh::fmt("d:w%d:j3", W), "terminate-from-job", [W] { sc_d(W, 3); }, big, W == 1 ? 3 : (W == 2 ? 1 : 2), W == 1 ? 4 : (W == 2 ? 2 : 3));
        add(vh::fmt("e:w%d:j2:destroy", W), "destroy-with-queued", [W] { sc_e(W, 2, false); }, big, W == 1 ? 3 : 2, W == 1 ? 4 : 3);
        add(vh::fmt("e:w%d:j2:terminate", W), "terminate-with-queued", [W] { sc_e(W, 2, true); }, big, W == 1 ? 3 : 2, W == 1 ? 4 : 3);
        if (W <= 2) {
            add(vh::fmt("f:w%d:j1", W), "two-waiters", [W] { sc_f(W, 1, false); }, W == 1 ? 'P' : 'D', 2, 3);
            add(vh::fmt("f:w%d:j2", W), "two-waiters", [W] { sc_f(W, 2, false); }, W == 1 ? 'P' : 'D', 2, 3);
            add(vh::fmt("f2:w%d", W), "two-waiters-mixed", [W] { sc_f2(W); }, W == 1 ? 'P' : 'D', 2, 3);
        }
        if (W <= 2) add(vh::fmt("g:w%d:j1", W), "reuse", [W] { sc_g(W, 1); }, 'P', W == 1 ? 3 : 1, W == 1 ? 4 : 2);
        add(vh::fmt("h:w%d:j0", W), "external-terminate", [W] { sc_h(W, 0); }, W == 1 ? 'P' : 'D', 2, 3);
        if (W <= 2) add(vh::fmt("h:w%d:j1", W), "external-terminate", [W] { sc_h(W, 1); }, W == 1 ? 'P' : 'D', 2, 3);
        if (W == 1) add(vh::fmt("g:w%d:j2", W), "reuse", [W] { sc_g(W, 2); }, 'P', 2, 3);
        if (W <= 2) {
            add(vh::fmt("j:w%d:j1", W), "terminate-then-wait-empty", [W] { sc_j(W, 1); }, 'P', W == 1 ? 3 : 2, W == 1 ? 4 : 3);
            add(vh::fmt("j:w%d:j2", W), "terminate-then-wait-empty", [W] { sc_j(W, 2); }, W == 1 ? 'P' : 'D', 2, 3);
            add(vh::fmt("i:w%d:j1", W), "owning-closures", [W] { sc_i(W, 1); }, 'P', W == 1 ? 3 : 1, W == 1 ? 4 : 2);
            add(vh::fmt("i:w%d:j2", W), "owning-closures", [W] { sc_i(W, 2); }, W == 1 ? 'P' : 'D', W == 1 ? 2 : 2, 3);
        }
    }
    // explicit-state (unbounded) exploration of the smaller scenarios: every interleaving at the granularity of
    // the scheduling points, pruned at abstract states seen before
    {
        auto adds = [&](const std::string& name, const std::string& fam, std::function<void()> body, bool quick_too = false) {
            vx::Scenario s;
            s.thorough_only = !quick_too;
            s.name = "X:" + name;
            s.family = "pool." + fam;
            s.body = body;
            s.stateful = true;
            s.state_cb = &pool_state;
            s.whole = true;
            s.horizon = 20000;
            scs.push_back(s);
        };
        for (int W = 1; W <= 2; ++W) {
            bool q = W == 1;
            for (int NJ = 1; NJ <= 3; ++NJ) adds(vh::fmt("a:w%d:j%d", W, NJ), "independent", [W, NJ] { sc_a(W, NJ); }, q || NJ == 1);
            adds(vh::fmt("b:w%d:x0", W), "nested", [W] { sc_b(W, 0); }, q);
            adds(vh::fmt("d:w%d:j1", W), "terminate-from-job", [W] { sc_d(W, 1); }, q);
            adds(vh::fmt("d:w%d:j3", W), "terminate-from-job", [W] { sc_d(W, 3); }, q);
            adds(vh::fmt("e:w%d:j2:destroy", W), "destroy-with-queued", [W] { sc_e(W, 2, false); }, q);
            adds(vh::fmt("e:w%d:j2:terminate", W), "terminate-with-queued", [W] { sc_e(W, 2, true); }, q);
            adds(vh::fmt("g:w%d:j1", W), "reuse", [W] { sc_g(W, 1); }, q);
            adds(vh::fmt("f:w%d:j1", W), "two-waiters", [W] { sc_f(W, 1, false); }, q);
            adds(vh::fmt("h:w%d:j0", W), "external-terminate", [W] { sc_h(W, 0); }, q);
            adds(vh::fmt("h:w%d:j1", W), "external-terminate", [W] { sc_h(W, 1); }, q);
        }
        adds("a:w3:j1", "independent", [] { sc_a(3, 1); });
    }
    return vx::run(argc, argv, scs);
}
