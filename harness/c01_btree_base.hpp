// c01_btree_base.hpp — C01/C02 common parts (allocator, tracked element, traits, structure walk); see c01_btree.hpp for the System.
//
// One generic System<TypeCfg> (explicit-state BFS over operation histories, see engine/hist/vhist.hpp):
// the REAL tlx::btree_{set,multiset,map,multimap} with custom traits (leaf_slots, inner_slots,
// binsearch_threshold), a counting allocator and either int or lifetime-tracked elements, side by
// side with std::{set,multiset,map,multimap}.  Two disjoint oracle families:
//   semantic   (C01): every returned value / iterator position / contents vs the std container
//   structural (C02): BTree::verify() (die -> exception), an independent structure walk, tree_stats,
//                     allocator ledger, element lifetime ledger (+ ASan / crashes)
// `oracle=semantic|structural` selects which family is REPORTED; both are always evaluated and a
// failure of the other family silently makes the state terminal, so both checks explore the same graph.
//
// Contract notes (taken from the doc comments in btree.hpp and from tests/container/btree_test.cpp):
//  * bulk_load: "The tree must be empty", input sorted by the key order; for set/map we only pass
//    strictly increasing sequences.
//  * iterators: never ++ past end(), never -- before begin(), never dereference end(), erase(iterator)
//    only with a dereferenceable iterator of this tree.
//  * order among equivalent keys is unspecified ("Beware of the random ordering of duplicate keys"):
//    equal-key runs are compared as multisets, positions inside a run as "anywhere in the run".
//  * whole-container relational operators of multimaps depend on that order; their expected value is
//    recomputed from the sequences the two trees actually iterate (std::equal/lexicographical_compare
//    on vectors), for the other kinds it is additionally cross-checked against the std containers.
#pragma once
#include <tlx/container/btree_map.hpp>
#include <tlx/container/btree_multimap.hpp>
#include <tlx/container/btree_multiset.hpp>
#include <tlx/container/btree_set.hpp>
#include <tlx/die/core.hpp>

#include <algorithm>
#include <functional>
#include <map>
#include <memory>
#include <set>
#include <stdexcept>
#include <string>
#include <unordered_map>
#include <unordered_set>
#include <vector>

#include "hist/vhist.hpp"

namespace c01 {

enum { SET = 0, MSET = 1, MAP = 2, MMAP = 3 };
inline const char* kind_name(int k) {
    static const char* const n[] = {"btree_set", "btree_multiset", "btree_map", "btree_multimap"};
    return n[k];
}

typedef std::pair<int, int> KV;
typedef std::vector<KV> KVs;

// ---------------------------------------------------------------------------------------------
// oracle families

struct Glob {
    int oracle = 3;  // bit 0: semantic (C01), bit 1: structural (C02)
    // semantic run only: a structurally broken state (left to C02) is still queried once for its observable
    // consequences; if that pass itself crashes the exploration is restarted with the pass disabled.
    bool consequence_pass = true;
    volatile int* in_consequence_pass = nullptr;  // shared with the forked explorer
};
inline Glob& G() {
    static Glob g;
    return g;
}
inline void left_to_other_check() {
    vh::stat_add("failing_cases");  // makes the state terminal for the engine, nothing is printed
    vh::stat_add("failures_left_to_other_check");
}
inline void sem_fail(const char* kind, const std::string& msg) {
    if (G().oracle & 1) vh::fail_here(kind, msg);
    else left_to_other_check();
}
// A semantic failure that does not put the state in doubt (the tree itself is intact, e.g. a wrong iterator
// conversion): reported under C01, but the state is NOT made terminal, so that neither check loses the states behind it.
inline void sem_fail_nonterminal(const char* kind, const std::string& msg) {
    if (!(G().oracle & 1)) return;
    vh::fail_here(kind, msg);
    vh::stat_add("failing_cases", -1);
    vh::stat_add("nonterminal_failures");
}
inline void str_fail(const char* kind, const std::string& msg) {
    if (G().oracle & 2) vh::fail_here(kind, msg);
    else left_to_other_check();
}

// ---------------------------------------------------------------------------------------------
// counting allocator: full C++11 allocator, ledger shared by all rebound copies

struct Ledger {
    long live = 0, allocs = 0, frees = 0;
    std::unordered_map<const void*, size_t> blocks;
};

template <class T>
class CountingAlloc {
public:
    typedef T value_type;
    typedef T* pointer;
    typedef const T* const_pointer;
    typedef T& reference;
    typedef const T& const_reference;
    typedef size_t size_type;
    typedef ptrdiff_t difference_type;
    template <class U>
    struct rebind {
        typedef CountingAlloc<U> other;
    };
    Ledger* led;
    explicit CountingAlloc(Ledger* l) : led(l) {}
    CountingAlloc(const CountingAlloc& o) = default;
    CountingAlloc& operator=(const CountingAlloc& o) = default;
    template <class U>
    CountingAlloc(const CountingAlloc<U>& o) : led(o.led) {}
    T* allocate(size_t n) {
        void* p = ::operator new(n * sizeof(T));
        led->blocks[p] = n * sizeof(T);
        led->live++;
        led->allocs++;
        return static_cast<T*>(p);
    }
    void deallocate(T* p, size_t n) {
        auto it = led->blocks.find(p);
        if (it == led->blocks.end()) {
            str_fail("alloc-ledger", "deallocate() of a block that is not live in this tree's allocator (double free or foreign allocator)");
            return;  // do not free: keep going without a crash
        }
        if (it->second != n * sizeof(T)) str_fail("alloc-ledger", vh::fmt("deallocate() with size %zu of a block allocated with %zu bytes", n * sizeof(T), it->second));
        led->blocks.erase(it);
        led->live--;
        led->frees++;
        ::operator delete(p);
    }
    template <class U>
    bool operator==(const CountingAlloc<U>& o) const { return led == o.led; }
    template <class U>
    bool operator!=(const CountingAlloc<U>& o) const { return led != o.led; }
};

// ---------------------------------------------------------------------------------------------
// lifetime-tracked element: owns a heap block, registered in a live-set

struct TrackedLedger {
    std::unordered_set<const void*> live;
    long ctors = 0, dtors = 0;
};
inline TrackedLedger*& g_tl() {
    static TrackedLedger* p = nullptr;
    return p;
}

struct Tracked {
    int* p;
    void reg() {
        g_tl()->ctors++;
        if (!g_tl()->live.insert(this).second) str_fail("elem-lifetime", "element constructed on top of a live element");
    }
    bool alive(const char* what) const {
        if (g_tl()->live.count(this)) return true;
        str_fail("elem-lifetime", std::string(what) + " a dead (destroyed or never constructed) element");
        return false;
    }
    Tracked() : p(new int(-1000)) { reg(); }
    explicit Tracked(int v) : p(new int(v)) { reg(); }
    Tracked(const Tracked& o) : p(nullptr) {
        int v = o.alive("copy-construct from") ? *o.p : -2000;
        p = new int(v);
        reg();
    }
    Tracked& operator=(const Tracked& o) {
        bool a = alive("assign to"), b = o.alive("assign from");
        if (a && b) *p = *o.p;
        return *this;
    }
    // moves leave a recognisable value behind (like a moved-from std::string): code that reads an element after
    // moving from it shows up as a content mismatch
    Tracked(Tracked&& o) : p(nullptr) {
        int v = o.alive("move-construct from") ? *o.p : -2000;
        p = new int(v);
        if (v != -2000) *o.p = -4000;
        reg();
    }
    Tracked& operator=(Tracked&& o) {
        bool a = alive("assign to"), b = o.alive("move-assign from");
        if (a && b && this != &o) {
            *p = *o.p;
            *o.p = -4000;
        }
        return *this;
    }
    ~Tracked() {
        g_tl()->dtors++;
        if (!g_tl()->live.erase(this)) {
            str_fail("elem-lifetime", "element destroyed twice (or destroyed without construction)");
            return;
        }
        delete p;
        p = nullptr;
    }
    int v() const { return alive("read of") ? *p : -3000; }
    bool operator==(const Tracked& o) const { return v() == o.v(); }
    bool operator<(const Tracked& o) const { return v() < o.v(); }
};
template <bool GREATER>
struct TrackedCmp {
    bool operator()(const Tracked& a, const Tracked& b) const { return GREATER ? b.v() < a.v() : a.v() < b.v(); }
};

template <class E>
struct EOps;
template <>
struct EOps<int> {
    static int make(int v) { return v; }
    static int get(int v) { return v; }
    static const char* nm() { return "int"; }
    static const bool tracked = false;
};
template <>
struct EOps<Tracked> {
    static Tracked make(int v) { return Tracked(v); }
    static int get(const Tracked& t) { return t.v(); }
    static const char* nm() { return "tracked"; }
    static const bool tracked = true;
};
template <class E, bool GREATER>
struct CmpOf {
    typedef typename std::conditional<GREATER, std::greater<int>, std::less<int>>::type type;
};
template <bool GREATER>
struct CmpOf<Tracked, GREATER> {
    typedef TrackedCmp<GREATER> type;
};

// ---------------------------------------------------------------------------------------------
// traits

template <int L, int I, bool BIN>
struct SlotTraits {
    static const bool self_verify = false;
    static const bool debug = false;
    static const int leaf_slots = L;
    static const int inner_slots = I;
    // find_lower/find_upper use binary search iff sizeof(node) > binsearch_threshold
    static const size_t binsearch_threshold = BIN ? 0 : static_cast<size_t>(-1);
};

// SEARCH: 0 linear, 1 binary, 2 = tlx::btree_default_traits (LEAF/INNER ignored)
template <int KIND, bool GREATER, int LEAF, int INNER, int SEARCH, class E>
struct TypeCfg {
    static const int kind = KIND;
    static const bool greater = GREATER;
    static const bool is_map = KIND >= 2;
    static const bool is_multi = (KIND & 1) != 0;
    typedef E elem_type;
    typedef typename CmpOf<E, GREATER>::type Cmp;
    typedef typename std::conditional<GREATER, std::greater<int>, std::less<int>>::type ICmp;
    typedef typename std::conditional<is_map, std::pair<E, E>, E>::type value_type;
    typedef typename std::conditional<SEARCH == 2, tlx::btree_default_traits<E, value_type>, SlotTraits<LEAF, INNER, SEARCH == 1>>::type traits;
    typedef CountingAlloc<value_type> Alloc;
    typedef typename std::conditional<
        KIND == SET, tlx::btree_set<E, Cmp, traits, Alloc>,
        typename std::conditional<KIND == MSET, tlx::btree_multiset<E, Cmp, traits, Alloc>,
                                  typename std::conditional<KIND == MAP, tlx::btree_map<E, E, Cmp, traits, Alloc>,
                                                            tlx::btree_multimap<E, E, Cmp, traits, Alloc>>::type>::type>::type Tree;
    typedef typename std::conditional<
        KIND == SET, std::set<int, ICmp>,
        typename std::conditional<KIND == MSET, std::multiset<int, ICmp>,
                                  typename std::conditional<KIND == MAP, std::map<int, int, ICmp>, std::multimap<int, int, ICmp>>::type>::type>::type Model;
    static std::string tname() {
        static const char* const kn[] = {"set", "multiset", "map", "multimap"};
        std::string s = kn[KIND];
        s += GREATER ? ".greater" : ".less";
        if (SEARCH == 2) s += ".dflt";
        else s += vh::fmt(".l%di%d.%s", LEAF, INNER, SEARCH == 1 ? "bin" : "lin");
        s += ".";
        s += EOps<E>::nm();
        return s;
    }
};

// ---------------------------------------------------------------------------------------------
// result of the independent structure walk (filled by tlx::btree_friend below)

struct Walk {
    std::string dump;                 // canonical, address-free
    std::string shape;                // the same without key values: slot counts per node, separators only as "== largest key below" or not
    KVs items;                        // contents in depth-first order
    std::vector<const void*> leaves;  // depth-first order
    std::vector<int> leaf_start, leaf_use;
    long n_inner = 0;
    long visited = 0;
    int levels = 0;
    std::vector<std::string> errs;  // violated invariants (own check)
    const void* alloc_ledger = nullptr;
    size_t st_size = 0, st_leaves = 0, st_inner = 0;
    void err(const std::string& e) {
        if (errs.size() < 4) errs.push_back(e);
    }
    bool cyclic() const { return visited > 200000; }
    // position of an iterator (leaf, slot): number of elements before it; -1 = not in this tree
    mutable std::vector<std::pair<const void*, int>> index;  // leaves sorted by address (built on demand)
    int pos(const void* leaf, unsigned slot) const {
        if (leaf == nullptr) return leaves.empty() && slot == 0 ? 0 : -1;
        size_t i = leaves.size();
        if (leaves.size() <= 6) {
            for (size_t j = 0; j < leaves.size(); ++j)
                if (leaves[j] == leaf) {
                    i = j;
                    break;
                }
        } else {
            if (index.size() != leaves.size()) {
                index.clear();
                for (size_t j = 0; j < leaves.size(); ++j) index.push_back(std::make_pair(leaves[j], (int)j));
                std::sort(index.begin(), index.end());
            }
            auto it = std::lower_bound(index.begin(), index.end(), std::make_pair(leaf, -1));
            if (it != index.end() && it->first == leaf) i = (size_t)it->second;
        }
        if (i == leaves.size()) return -1;
        return slot <= (unsigned)leaf_use[i] ? leaf_start[i] + (int)slot : -1;
    }
};

inline void put_int(std::string& s, int v) {
    char buf[16];
    int n = 0;
    if (v < 0) {
        s += '-';
        v = -v;
    }
    do {
        buf[n++] = (char)('0' + v % 10);
        v /= 10;
    } while (v);
    while (n) s += buf[--n];
}

}  // namespace c01

// ---------------------------------------------------------------------------------------------
// the friend hook tlx provides for reading the tree internals (TLX_BTREE_FRIENDS)

namespace tlx {
class btree_friend {
public:
    template <class F>
    static typename F::btree_impl& impl(F& f) { return f.tree_; }
    template <class F>
    static const typename F::btree_impl& impl(const F& f) { return f.tree_; }
    template <class It>
    static const void* leaf_of(const It& it) { return it.curr_leaf; }
    template <class It>
    static unsigned slot_of(const It& it) { return it.curr_slot; }

    // X: int kint(key_type), KV kv(value_type), bool less(int,int), bool unique, bool with_values
    template <class BT, class X>
    static void walk(const BT& t, c01::Walk& w, const X& x) {
        w.alloc_ledger = t.allocator_.led;
        w.st_size = t.stats_.size;
        w.st_leaves = t.stats_.leaves;
        w.st_inner = t.stats_.inner_nodes;
        if (t.root_ == nullptr) {
            w.dump += "E";
            w.shape += "E";
            if (t.head_leaf_ || t.tail_leaf_) w.err("root is null but head/tail leaf is not");
        } else {
            int mn = 0, mx = 0;
            w.levels = t.root_->level + 1;
            walk_node(t, t.root_, true, -1, w, x, &mn, &mx);
            // leaf chain against the depth-first leaf order
            bool chain_ok = true;
            const typename BT::LeafNode* l = t.head_leaf_;
            size_t i = 0;
            const typename BT::LeafNode* prev = nullptr;
            for (; l && i < w.leaves.size(); ++i) {
                if (l != w.leaves[i] || l->prev_leaf != prev) chain_ok = false;
                prev = l;
                l = l->next_leaf;
            }
            if (l != nullptr || i != w.leaves.size()) chain_ok = false;
            if (t.tail_leaf_ != (w.leaves.empty() ? nullptr : w.leaves.back())) chain_ok = false;
            if (!chain_ok) {
                w.err("leaf chain (head/next/prev/tail) differs from the leaves below the root in order");
                // explicit chain dump so that different broken states stay different
                size_t chain_from = w.dump.size();
                w.dump += "|C";
                auto idx = [&](const void* p) {
                    for (size_t j = 0; j < w.leaves.size(); ++j)
                        if (w.leaves[j] == p) return (int)j;
                    return p ? -2 : -1;
                };
                for (size_t j = 0; j < w.leaves.size(); ++j) {
                    const typename BT::LeafNode* lf = static_cast<const typename BT::LeafNode*>(w.leaves[j]);
                    c01::put_int(w.dump, idx(lf->prev_leaf));
                    w.dump += '<';
                    c01::put_int(w.dump, idx(lf->next_leaf));
                    w.dump += ',';
                }
                w.dump += 'h';
                c01::put_int(w.dump, idx(t.head_leaf_));
                w.dump += 't';
                c01::put_int(w.dump, idx(t.tail_leaf_));
                w.shape += w.dump.substr(chain_from);
            }
            for (size_t j = 0; j + 1 < w.items.size(); ++j) {
                if (x.less(w.items[j + 1].first, w.items[j].first)) w.err("keys out of order across the tree");
                else if (x.unique && !x.less(w.items[j].first, w.items[j + 1].first)) w.err("duplicate key in a unique-key tree");
            }
        }
        size_t stats_from = w.dump.size();
        w.dump += "|s";
        c01::put_int(w.dump, (int)w.st_size);
        w.dump += ',';
        c01::put_int(w.dump, (int)w.st_leaves);
        w.dump += ',';
        c01::put_int(w.dump, (int)w.st_inner);
        w.shape += w.dump.substr(stats_from);
        if (w.st_size != w.items.size()) w.err(vh::fmt("stats.size=%zu but %zu elements are stored", w.st_size, w.items.size()));
        if (w.st_leaves != w.leaves.size()) w.err(vh::fmt("stats.leaves=%zu but the tree has %zu leaves", w.st_leaves, w.leaves.size()));
        if (w.st_inner != (size_t)w.n_inner) w.err(vh::fmt("stats.inner_nodes=%zu but the tree has %ld inner nodes", w.st_inner, w.n_inner));
    }

    template <class BT, class X>
    static void walk_node(const BT& t, const typename BT::node* n, bool is_root, int want_level, c01::Walk& w, const X& x, int* mn, int* mx) {
        if (++w.visited > 200000) {
            w.err("more than 200000 nodes reachable (cycle?)");
            return;
        }
        if (want_level >= 0 && n->level != want_level) w.err(vh::fmt("child level %d below a node of level %d", (int)n->level, want_level + 1));
        if (n->level == 0) {
            const typename BT::LeafNode* lf = static_cast<const typename BT::LeafNode*>(n);
            unsigned use = lf->slotuse;
            if (use > BT::leaf_slotmax) {
                w.err("leaf slotuse above leaf_slots");
                use = BT::leaf_slotmax;
            }
            if (use == 0) w.err("empty leaf");
            if (!is_root && use < BT::leaf_slotmin) w.err(vh::fmt("leaf underflow: %u of %d slots used", use, (int)BT::leaf_slotmax));
            w.leaves.push_back(lf);
            w.leaf_start.push_back((int)w.items.size());
            w.leaf_use.push_back((int)use);
            w.dump += 'L';
            w.shape += 'L';
            c01::put_int(w.shape, (int)lf->slotuse);
            for (unsigned s = 0; s < use; ++s) {
                c01::KV e = x.kv(lf->slotdata[s]);
                w.items.push_back(e);
                c01::put_int(w.dump, e.first);
                if (x.with_values) {
                    w.dump += ':';
                    c01::put_int(w.dump, e.second);
                }
                w.dump += s + 1 < use ? ',' : ';';
            }
            if (use) {
                *mn = w.items[w.items.size() - use].first;
                *mx = w.items.back().first;
            }
            return;
        }
        const typename BT::InnerNode* in = static_cast<const typename BT::InnerNode*>(n);
        unsigned use = in->slotuse;
        w.n_inner++;
        if (use > BT::inner_slotmax) {
            w.err("inner slotuse above inner_slots");
            use = BT::inner_slotmax;
        }
        if (use == 0) w.err("inner node without a separator key");
        if (!is_root && use < BT::inner_slotmin) w.err(vh::fmt("inner node underflow: %u of %d slots used", use, (int)BT::inner_slotmax));
        if (n->level > 40) {
            w.err("level above 40");
            return;
        }
        w.dump += 'I';
        c01::put_int(w.dump, n->level);
        w.dump += '(';
        w.shape += 'I';
        c01::put_int(w.shape, n->level);
        w.shape += '(';
        for (unsigned s = 0; s <= use; ++s) {
            int cmn = 0, cmx = 0;
            if (in->childid[s] == nullptr) {
                w.err("null child pointer");
                continue;
            }
            walk_node(t, in->childid[s], false, n->level - 1, w, x, &cmn, &cmx);
            if (s == 0) *mn = cmn;
            if (s == use) *mx = cmx;
            else {
                int sk = x.kint(in->slotkey[s]);
                w.dump += 'k';
                c01::put_int(w.dump, sk);
                w.dump += ' ';
                if (x.less(sk, cmx) || x.less(cmx, sk)) {
                    w.err(vh::fmt("separator %d differs from the largest key %d below it", sk, cmx));
                    w.shape += '!';
                    c01::put_int(w.shape, sk);
                }
                w.shape += ' ';
            }
        }
        w.dump += ')';
        w.shape += ')';
    }
};
}  // namespace tlx
