// C01/C02 type configurations, group 0 [quick tier] (see c01_btree.hpp; C01_TYPE(kind, greater, leaf, inner, search 0=linear 1=binary 2=default traits, element))
#include "c01_btree.hpp"
C01_TYPE(SET, false, 4, 4, 0, int)
C01_TYPE(MMAP, true, 4, 5, 1, int)
