// C09 — tlx loser trees: min_source() reports a minimum-holding live player; stable variants
// break ties by the smallest index.  Bounded exhaustive enumeration of replace histories (E2/E3).
//
// Classes: {LoserTreeCopy, LoserTreePointer, LoserTreeCopyUnguarded, LoserTreePointerUnguarded}
//          x {<true> stable, <false> unstable}, each with the default comparator std::less<Key>
//          and with a greater-style functor.  Key is a struct {key, tag}; comparators look at .key
//          only, tags are unique per (player, position), so "equivalent" != "identical".
//
// Families (a *case* = (family, class, comparator, k, vector of sequence lengths); inside a case
// every assignment of keys {0,1,2} to all sequence positions is one *history*; sequences are NOT
// restricted to sorted ones):
//   G  guarded classes. Player p owns a sequence of 0..3 keys (0 = starts exhausted: insert_start
//      (nullptr, p, true)).  insert_start for every player, init(), then until every player is
//      exhausted: w = min_source(); feed w's next key with delete_min_insert(&key, false) or, if it
//      has none, delete_min_insert(nullptr, true).  This is exactly the driving loop of
//      /repo/tests/container/loser_tree_test.cpp and multiway_merge_loser_tree().
//   B  unguarded classes, sentinel-terminated sequences, as multiway_merge_loser_tree_sentinel()
//      uses them: player p owns 0..3 enumerated keys followed by one sentinel key that is strictly
//      greater (by the comparator) than every enumerated key; the same sentinel value is passed to
//      the constructor (multiway_merge passes *(seqs_begin->second - 1), i.e. the sentinel of
//      sequence 0).  Driving stops as soon as the reported winner has no further key, i.e. no
//      player ever runs out ("not a single input sequence must run empty").  Only
//      delete_min_insert(&key, false) is ever called, never the sup form.
//   A  unguarded classes, plain sequences of 1..3 keys, constructor sentinel EQUIVALENT to the
//      largest key of the alphabet (">= every key"; prepare_unguarded_sentinel() also uses the
//      maximum real key as sentinel value).  Same stopping rule as B.
//   In B and A every player holds a key at all times, so every player is live for the oracle.
//
// Bounds: k in 1..9; G/B: total number of enumerated keys of a history <= caps[k] (option
// caps=<list for k=1..9>); A: keys beyond each player's mandatory first one <= capsa.  checks/C09.py
// runs an -O2 build (asserts on) with quick caps=7 / thorough caps=9 (k=9: 8) and an ASan build with
// quick caps=6 / thorough caps=7.
//
// Oracle after init() and after every delete_min_insert(), written with plain loops over the
// harness' own bookkeeping (cur key of every player, live flags):
//   dead-winner   min_source() is not the index of a live player although a live player exists
//   not-minimal   some live player's current key is smaller (comparator) than the winner's
//   unstable-tie  (stable classes only) a live player with smaller index holds an equivalent key
// Nothing is demanded once no live player remains (the classes disagree there: Copy returns a
// source, Pointer returns invalid_).
//
// Copy classes are fed through a temporary that is overwritten with the comparator-smallest value
// right after the call (they must have copied); Pointer classes get pointers into exact-size heap
// arrays (ASan sees over-reads).  Key() (what the Copy classes store for exhausted players) is the
// comparator-smallest value as well, so a forgotten sup check shows up as dead-winner.
#include <tlx/container/loser_tree.hpp>

#include <algorithm>
#include <functional>
#include <map>

#include "common/vharness.hpp"

static const int MAXK = 9;
static const int MAXLEN = 3;

static int g_default_key = -100;

struct Key {
    int key;
    int tag;
    Key() : key(g_default_key), tag(-1) {}
    Key(int k, int t) : key(k), tag(t) {}
};
static inline bool operator<(const Key& a, const Key& b) { return a.key < b.key; }
struct KeyGreater {
    bool operator()(const Key& a, const Key& b) const { return a.key > b.key; }
};

template <class Cmp>
struct CmpInfo;
template <>
struct CmpInfo<std::less<Key> > {
    static int lowest() { return -100; }     // smaller than every key
    static int strict_sent() { return 3; }   // greater than every key of {0,1,2}
    static int equal_sent() { return 2; }    // equivalent to the largest key of {0,1,2}
};
template <>
struct CmpInfo<KeyGreater> {
    static int lowest() { return 100; }
    static int strict_sent() { return -1; }
    static int equal_sent() { return 0; }
};

enum Family { FG = 0, FB = 1, FA = 2 };
static const char FAMCH[3] = {'G', 'B', 'A'};

// one history: per player the enumerated digits and the heap array of keys handed to tlx
struct Hist {
    int k;
    int len[MAXK];                         // number of enumerated keys
    int n[MAXK];                           // number of keys the player can hand out (B: len+1)
    unsigned char digit[MAXK][MAXLEN];
    Key* keys[MAXK];                       // exact-size heap arrays (nullptr if n == 0)
    int sentinel;                          // constructor sentinel (unguarded)
};

struct Counters {
    unsigned long long histories = 0, steps = 0, checks = 0, tie_checks = 0, sup_feeds = 0, cases = 0,
                       init_sup = 0, pad_trees = 0;
};
static Counters C;
static std::string* g_trace = nullptr;  // when set, the driver appends a written-out trace

// ---------------------------------------------------------------------------------------------
// read-only view of the tree arrays for failure messages / samples (adds no behaviour)
template <class L>
static auto d_sup(const L& l, int) -> decltype((void)l.sup, std::string()) { return l.sup ? "S" : ""; }
template <class L>
static std::string d_sup(const L&, long) { return ""; }
template <class L>
static auto d_key(const L& l, int) -> decltype((void)l.key, std::string()) { return vh::fmt("%d", l.key.key); }
template <class L>
static auto d_key(const L& l, long) -> decltype((void)l.keyp, std::string()) {
    return l.keyp ? vh::fmt("%d", l.keyp->key) : std::string("null");
}

template <class TreeT>
struct Peek : public TreeT {
    using TreeT::TreeT;
    typedef typename TreeT::Super Base;
    std::string dump() {
        std::string o = "[";
        for (size_t i = 0; i < this->Base::losers_.size(); ++i) {
            const auto& l = this->Base::losers_[i];
            if (i) o += " ";
            o += vh::fmt("%zu:", i);
            o += (l.source == Base::invalid_) ? std::string("-") : vh::fmt("p%u", (unsigned)l.source);
            o += "/" + d_sup(l, 0) + d_key(l, 0);
        }
        return o + "]";
    }
};

static bool g_seen_outcomes[1 << 16];
static std::map<std::string, int> g_reported;
static int pow2_ge(int k) {
    int r = 1;
    while (r < k) r *= 2;
    return r;
}

// ---------------------------------------------------------------------------------------------
template <class TreeT, class Cmp, bool Guarded, bool Stable, bool Copy>
static void run_hist(const char* cls, Family fam, const Hist& h) {
    typedef Peek<TreeT> Tree;
    typedef typename TreeT::Source Source;
    Cmp cmp;
    const int k = h.k;
    int pos[MAXK];
    bool live[MAXK];
    int nlive = 0;
    for (int p = 0; p < k; ++p) {
        pos[p] = 0;
        live[p] = h.n[p] > 0;
        nlive += live[p];
    }
    Key tmp(0, 0);
    auto feed = [&](int p, int i) -> const Key* {
        if (Copy) {
            tmp = h.keys[p][i];
            return &tmp;
        }
        return &h.keys[p][i];
    };
    auto unfeed = [&]() {
        if (Copy) {
            tmp.key = CmpInfo<Cmp>::lowest();
            tmp.tag = -2;
        }
    };
    int steps = 0;
    bool any_tie = false;

    auto curs = [&]() {
        std::string o = "[";
        for (int p = 0; p < k; ++p) o += (p ? " " : "") + (live[p] ? vh::fmt("%d", h.keys[p][pos[p]].key) : std::string("x"));
        return o + "]";
    };
    auto seqs = [&]() {
        std::string o;
        for (int p = 0; p < k; ++p) {
            o += (p ? " " : "");
            o += vh::fmt("p%d:", p);
            for (int i = 0; i < h.n[p]; ++i) o += vh::fmt("%s%d", i ? "," : "", h.keys[p][i].key);
            if (h.n[p] == 0) o += "exhausted";
        }
        return o;
    };

    // oracle; returns false if the history cannot be continued
    auto check = [&](Tree& lt) -> bool {
        if (nlive == 0) return false;
        Source w = lt.min_source();
        ++C.checks;
        if (g_trace) *g_trace += vh::fmt(" tree=%s cur=%s winner=%s;", lt.dump().c_str(), curs().c_str(),
                                         w == TreeT::invalid_ ? "invalid" : vh::fmt("p%u", (unsigned)w).c_str());
        auto report = [&](const char* kind, const std::string& why) {
            std::string sig = std::string(cls) + "/" + kind;
            // vh::fail prints only the first 2 per signature; do not format messages nobody will see
            if (g_reported[sig]++ >= 2) return vh::fail(sig, "", "");
            vh::fail(sig, vh::cur_replay(),
                     vh::fmt("%s cmp=%s k=%d step=%d (0=after init): %s; sequences {%s} current keys %s (x=exhausted) "
                             "min_source()=%lld tree(node:player/key,S=sup)=%s",
                             cls, std::is_same<Cmp, KeyGreater>::value ? "greater" : "less", k, steps, why.c_str(),
                             seqs().c_str(), curs().c_str(), w == TreeT::invalid_ ? -1ll : (long long)w,
                             lt.dump().c_str()));
        };
        if (w >= (Source)k || !live[w]) {
            report("dead-winner", w >= (Source)k ? "winner is not a player index although a live player exists"
                                                 : "winner is an exhausted player although a live player exists");
            return false;
        }
        const Key& wk = h.keys[w][pos[w]];
        bool minimal = true, tie = false;
        for (int q = 0; q < k; ++q) {
            if (!live[q] || q == (int)w) continue;
            const Key& qk = h.keys[q][pos[q]];
            if (cmp(qk, wk)) {
                if (minimal) report("not-minimal", vh::fmt("player %d holds a smaller key than winner %u", q, (unsigned)w));
                minimal = false;
            } else if (!cmp(wk, qk)) {
                tie = true;
            }
        }
        if (tie) {
            ++C.tie_checks;
            any_tie = true;
        }
        if (Stable && minimal && tie) {
            for (int q = 0; q < (int)w; ++q) {
                if (!live[q]) continue;
                const Key& qk = h.keys[q][pos[q]];
                if (!cmp(wk, qk) && !cmp(qk, wk)) {
                    report("unstable-tie", vh::fmt("player %d < winner %u holds an equivalent key", q, (unsigned)w));
                    break;
                }
            }
        }
        return true;
    };

    long long final_src = -2;
    auto drive = [&](Tree& lt) {
        for (int p = 0; p < k; ++p) {
            if (h.n[p] == 0) {
                lt.insert_start(nullptr, (Source)p, true);
                ++C.init_sup;
            } else {
                lt.insert_start(feed(p, 0), (Source)p, false);
                unfeed();
            }
        }
        lt.init();
        if (g_trace) *g_trace += " init():";
        bool ok = check(lt);
        while (ok) {
            Source w = lt.min_source();  // validated by check()
            if (pos[w] + 1 < h.n[w]) {
                ++pos[w];
                lt.delete_min_insert(feed(w, pos[w]), false);
                unfeed();
                if (g_trace) *g_trace += vh::fmt(" delete_min_insert(p%u<-%d):", (unsigned)w, h.keys[w][pos[w]].key);
            } else if (Guarded) {
                lt.delete_min_insert(nullptr, true);
                live[w] = false;
                --nlive;
                ++C.sup_feeds;
                if (g_trace) *g_trace += vh::fmt(" delete_min_insert(p%u<-sup):", (unsigned)w);
            } else {
                break;  // unguarded: the winner must not run out -> stop here
            }
            ++steps;
            ++C.steps;
            ok = check(lt);
        }
        if (Guarded && nlive == 0) {
            Source f = lt.min_source();
            final_src = (f == TreeT::invalid_) ? -1 : 0;
            if (g_trace) *g_trace += vh::fmt(" all exhausted: min_source()=%s", f == TreeT::invalid_ ? "invalid" : "a source");
        }
    };

    if constexpr (Guarded) {
        Tree lt((Source)k, cmp);
        drive(lt);
    } else {
        const Key sentinel(h.sentinel, 999);  // outlives the tree (the Pointer class keeps its address)
        Tree lt((Source)k, sentinel, cmp);
        drive(lt);
    }
    ++C.histories;
    unsigned oc = ((unsigned)fam << 14) | ((unsigned)k << 10) | ((unsigned)(steps & 63) << 4) | (any_tie ? 4u : 0u) |
                  (unsigned)(final_src + 2);
    if (!g_seen_outcomes[oc] && (g_seen_outcomes[oc] = true))
        vh::outcome(vh::fmt("family=%c k=%d(tree of %d leaves) rounds=%d ties_seen=%d after_all_exhausted=%s", FAMCH[fam], k,
                            pow2_ge(k), steps, (int)any_tie,
                            final_src == -2 ? "n/a" : final_src == -1 ? "invalid" : "source"));
}

// ---------------------------------------------------------------------------------------------
typedef void (*RunFn)(const char*, Family, const Hist&);
struct Variant {
    Family fam;
    const char* cls;
    const char* cmpname;
    bool greater;
    bool guarded;
    RunFn fn;
};
static std::vector<Variant> VARIANTS;

template <class Cmp>
static void add_variants(const char* cmpname, bool greater) {
    using namespace tlx;
    // guarded
    VARIANTS.push_back({FG, "LoserTreeCopy<false>", cmpname, greater, true,
                        &run_hist<LoserTreeCopy<false, Key, Cmp>, Cmp, true, false, true>});
    VARIANTS.push_back({FG, "LoserTreeCopy<true>", cmpname, greater, true,
                        &run_hist<LoserTreeCopy<true, Key, Cmp>, Cmp, true, true, true>});
    VARIANTS.push_back({FG, "LoserTreePointer<false>", cmpname, greater, true,
                        &run_hist<LoserTreePointer<false, Key, Cmp>, Cmp, true, false, false>});
    VARIANTS.push_back({FG, "LoserTreePointer<true>", cmpname, greater, true,
                        &run_hist<LoserTreePointer<true, Key, Cmp>, Cmp, true, true, false>});
    for (Family f : {FB, FA}) {
        VARIANTS.push_back({f, "LoserTreeCopyUnguarded<false>", cmpname, greater, false,
                            &run_hist<LoserTreeCopyUnguarded<false, Key, Cmp>, Cmp, false, false, true>});
        VARIANTS.push_back({f, "LoserTreeCopyUnguarded<true>", cmpname, greater, false,
                            &run_hist<LoserTreeCopyUnguarded<true, Key, Cmp>, Cmp, false, true, true>});
        VARIANTS.push_back({f, "LoserTreePointerUnguarded<false>", cmpname, greater, false,
                            &run_hist<LoserTreePointerUnguarded<false, Key, Cmp>, Cmp, false, false, false>});
        VARIANTS.push_back({f, "LoserTreePointerUnguarded<true>", cmpname, greater, false,
                            &run_hist<LoserTreePointerUnguarded<true, Key, Cmp>, Cmp, false, true, false>});
    }
}

// the default template argument is used for "less" on purpose: std::less<Key> via operator<
static_assert(std::is_same<tlx::LoserTreeCopy<true, Key>, tlx::LoserTreeCopy<true, Key, std::less<Key> > >::value, "");

struct CaseDesc {
    unsigned char variant, k, len[MAXK];
};

static void alloc_hist(Hist& h, const Variant& V, int k, const unsigned char* len) {
    g_default_key = V.greater ? CmpInfo<KeyGreater>::lowest() : CmpInfo<std::less<Key> >::lowest();
    h.k = k;
    int strict = V.greater ? CmpInfo<KeyGreater>::strict_sent() : CmpInfo<std::less<Key> >::strict_sent();
    int equal = V.greater ? CmpInfo<KeyGreater>::equal_sent() : CmpInfo<std::less<Key> >::equal_sent();
    h.sentinel = V.fam == FA ? equal : strict;
    for (int p = 0; p < k; ++p) {
        h.len[p] = len[p];
        h.n[p] = len[p] + (V.fam == FB ? 1 : 0);
        h.keys[p] = h.n[p] ? new Key[h.n[p]] : nullptr;
        if (V.fam == FB) h.keys[p][len[p]] = Key(strict, 100 + p);
    }
}
static void free_hist(Hist& h) {
    for (int p = 0; p < h.k; ++p) delete[] h.keys[p];
}
static void fill_keys(Hist& h) {
    for (int p = 0; p < h.k; ++p)
        for (int i = 0; i < h.len[p]; ++i) h.keys[p][i] = Key(h.digit[p][i], p * 4 + i);
}
static std::string replay_prefix(const Variant& V, int k) {
    return vh::fmt("%c|%s|%s|%d|", FAMCH[V.fam], V.cls, V.cmpname, k);
}
static void publish_replay(const std::string& prefix, const Hist& h) {
    char* d = vh::shm()->replay;
    memcpy(d, prefix.data(), prefix.size());
    char* q = d + prefix.size();
    for (int p = 0; p < h.k; ++p) {
        if (p) *q++ = ',';
        for (int i = 0; i < h.len[p]; ++i) *q++ = (char)('0' + h.digit[p][i]);
    }
    *q = 0;
}

static void run_case(const CaseDesc& cd) {
    const Variant& V = VARIANTS[cd.variant];
    Hist h;
    alloc_hist(h, V, cd.k, cd.len);
    int total = 0;
    for (int p = 0; p < h.k; ++p) total += h.len[p];
    unsigned long long nh = 1;
    for (int i = 0; i < total; ++i) nh *= 3;
    std::string prefix = replay_prefix(V, cd.k);
    vh::at_op(V.cls);
    for (int p = 0; p < h.k; ++p)
        for (int i = 0; i < h.len[p]; ++i) h.digit[p][i] = 0;
    for (unsigned long long it = 0; it < nh; ++it) {
        fill_keys(h);
        publish_replay(prefix, h);
        V.fn(V.cls, V.fam, h);
        // next key assignment (odometer over all positions)
        bool carry = true;
        for (int p = 0; p < h.k && carry; ++p)
            for (int i = 0; i < h.len[p] && carry; ++i) {
                if (++h.digit[p][i] == 3) h.digit[p][i] = 0;
                else carry = false;
            }
    }
    free_hist(h);
    ++C.cases;
    if (pow2_ge(cd.k) != cd.k) C.pad_trees += nh;
}

static void flush_counters() {
    vh::stat_add("histories", C.histories);
    vh::stat_add("delete_min_insert_calls", C.steps);
    vh::stat_add("oracle_checks", C.checks);
    vh::stat_add("oracle_checks_with_tie", C.tie_checks);
    vh::stat_add("sup_feeds", C.sup_feeds);
    vh::stat_add("initially_exhausted_players", C.init_sup);
    vh::stat_add("histories_non_power_of_two_k", C.pad_trees);
    vh::stat_add("cases", C.cases);
    C = Counters();
}

// replay string: <family>|<class>|<cmp>|<k>|<digits of p0>,<digits of p1>,...
static bool run_replay(const std::string& r, std::string* trace) {
    std::vector<std::string> f;
    size_t s = 0;
    for (int i = 0; i < 4; ++i) {
        size_t b = r.find('|', s);
        if (b == std::string::npos) return false;
        f.push_back(r.substr(s, b - s));
        s = b + 1;
    }
    std::string sq = r.substr(s);
    int k = atoi(f[3].c_str());
    if (k < 1 || k > MAXK || f[0].size() != 1) return false;
    const Variant* V = nullptr;
    for (auto& v : VARIANTS)
        if (FAMCH[v.fam] == f[0][0] && f[1] == v.cls && f[2] == v.cmpname) V = &v;
    if (!V) return false;
    unsigned char len[MAXK] = {0};
    unsigned char dig[MAXK][MAXLEN] = {{0}};
    int p = 0;
    for (char c : sq) {
        if (c == ',') {
            if (++p >= k) return false;
        } else if (c >= '0' && c <= '2') {
            if (len[p] >= MAXLEN) return false;
            dig[p][len[p]++] = (unsigned char)(c - '0');
        } else return false;
    }
    if (p != k - 1) return false;
    if (V->fam == FA)
        for (int q = 0; q < k; ++q)
            if (len[q] == 0) return false;
    Hist h;
    alloc_hist(h, *V, k, len);
    memcpy(h.digit, dig, sizeof dig);
    fill_keys(h);
    vh::at(V->cls, r);
    g_trace = trace;
    V->fn(V->cls, V->fam, h);
    g_trace = nullptr;
    free_hist(h);
    return true;
}

// all length vectors for (family, k) with the tier's bound
static void gen_lens(std::vector<CaseDesc>& out, int variant, Family fam, int k, int cap) {
    int lo = fam == FA ? 1 : 0;
    unsigned char len[MAXK] = {0};
    std::function<void(int, int)> rec = [&](int p, int sum) {
        if (p == k) {
            CaseDesc cd;
            cd.variant = (unsigned char)variant;
            cd.k = (unsigned char)k;
            memcpy(cd.len, len, sizeof len);
            out.push_back(cd);
            return;
        }
        for (int l = lo; l <= MAXLEN; ++l) {
            int s2 = sum + (fam == FA ? l - 1 : l);  // family A: bound on the keys beyond the mandatory first one
            if (s2 > cap) break;
            len[p] = (unsigned char)l;
            rec(p + 1, s2);
        }
        len[p] = 0;
    };
    rec(0, 0);
}

static std::vector<int> parse_caps(const std::string& s, int def) {
    std::vector<int> c(MAXK + 1, def);
    if (s.empty()) return c;
    int k = 1;
    size_t pos = 0;
    while (pos <= s.size() && k <= MAXK) {
        size_t e = s.find(',', pos);
        if (e == std::string::npos) e = s.size();
        c[k++] = atoi(s.substr(pos, e - pos).c_str());
        pos = e + 1;
    }
    for (; k <= MAXK; ++k) c[k] = c[k - 1];
    return c;
}

int main(int argc, char** argv) {
    vh::init(argc, argv);
    add_variants<std::less<Key> >("less", false);
    add_variants<KeyGreater>("greater", true);

    if (vh::args().has_replay) {
        return vh::replay_one([&](const std::string& r) {
            std::string tr;
            if (!run_replay(r, &tr)) vh::out_line("ERROR cannot parse replay string " + r);
            else vh::note("trace: " + tr);
            flush_counters();
        });
    }

    bool T = vh::args().thorough();
    // bound on the total number of enumerated keys per history, per k = 1..9 (families G and B) and
    // on the number of keys beyond the first of each player (family A)
    std::vector<int> capG = parse_caps(vh::args().opt("caps", T ? "9,9,9,9,9,9,9,9,8" : "7"), 7);
    std::vector<int> capA = parse_caps(vh::args().opt("capsa", T ? "2" : "1"), 1);
    int kmax = (int)vh::args().opt_int("kmax", MAXK);

    std::vector<CaseDesc> cases;
    for (int k = 1; k <= kmax; ++k)
        for (size_t v = 0; v < VARIANTS.size(); ++v)
            gen_lens(cases, (int)v, VARIANTS[v].fam, k, VARIANTS[v].fam == FA ? capA[k] : capG[k]);

    // Load balancing only: cases are dealt round-robin to the shards (id % nshards), so order them by
    // cost (number of key assignments = 3^total) to give every shard the same mix.  The set of cases
    // is unchanged and the order is deterministic.
    {
        auto total = [](const CaseDesc& c) {
            int t = 0;
            for (int p = 0; p < c.k; ++p) t += c.len[p];
            return t;
        };
        std::stable_sort(cases.begin(), cases.end(),
                         [&](const CaseDesc& a, const CaseDesc& b) { return total(a) > total(b); });
    }

    if (vh::args().shard == 0) {
        const char* S[] = {"G|LoserTreeCopy<true>|less|3|10,,1", "G|LoserTreePointer<false>|greater|5|2,,02,1,",
                           "B|LoserTreePointerUnguarded<true>|less|3|1,,01", "A|LoserTreeCopyUnguarded<false>|greater|2|20,0"};
        for (const char* s : S) {
            std::string tr;
            // samples run in a child so that counters/outcomes of the enumeration are not affected
            vh::run_child([&] {
                run_replay(s, &tr);
                vh::sample(std::string(s) + " =>" + tr);
            });
        }
        C = Counters();
        vh::note(vh::fmt("caps (total enumerated keys) G/B k=1..%d: %s ; A (keys beyond the first per player): %s ; %zu cases",
                         kmax, vh::args().opt("caps", T ? "9,9,9,9,9,9,9,9,8" : "7").c_str(),
                         vh::args().opt("capsa", T ? "2" : "1").c_str(), cases.size()));
    }

    vh::run_cases(cases.size(), [&](uint64_t id) {
        run_case(cases[id]);
        flush_counters();
    });
    return vh::finish();
}
