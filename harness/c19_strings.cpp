// C19 — string codecs round-trip and string helpers match their documented semantics (E3).
//
// Bounded exhaustive enumeration of the real tlx/string/* functions against independent references
// written in this harness.  The enumeration is a list of "families"; every family enumerates ALL
// strings / string vectors over a small alphabet up to a length bound (no sampling).  One case id =
// one input (string, pair, triple or vector); inside a case every overload / argument value listed
// for the family is called and compared.
//
//   this file (codecs, round trips)
//     codec      base64_encode (RFC 4648 reference, line structure), base64_decode(encode) round trip
//                (line_break 0,4,8,12,76; strict + non-strict; pointer and string_view overloads),
//                hexdump / hexdump_lc (4 overloads each) vs reference and parse_hexdump round trip
//     b64dec     base64_decode of arbitrary text: whitespace skipped, strict throws on invalid letters
//     hexparse   parse_hexdump of arbitrary text: throws on odd length / non-hex letter
//     splitjoin  join (3 overloads) vs reference, split(sep, join(sep, parts)) == parts
//     quoted*    split_quoted(join_quoted(v)) == v
//   c19_helpers.cpp (definitions)
//     split, replace, trim, pairs (starts/ends_with, contains, *_icase, levenshtein), case
//     (to_lower/to_upper), erase, pad
//
// Decisions where a doc comment is ambiguous (behaviour taken from /repo/tests/string_test.cpp or
// left unconstrained so that the check never demands more than is documented):
//  * base64_encode line breaks: "broken into lines after n characters".  Whether a '\n' follows a
//    complete LAST line is not stated and not pinned by the test (its last line is short), so the
//    reference only demands: all '\n' removed == RFC 4648 text; every line but the last has exactly
//    n letters; the last line has 0..n letters (0 = trailing newline, allowed).
//  * base64_decode: '=' handling and a dangling single sextet are not documented -> the b64dec
//    family does not use '=' and skips inputs with exactly one leftover sextet.
//  * parse_hexdump: odd length throws std::runtime_error (pinned by string_test: "8DE285D4BF98E60").
//  * join_quoted/split_quoted: only the round trip is demanded (join_quoted: "This is the opposite
//    of split_quoted()"), not which fields get quoted.  Custom (sep, quote, escape) triples avoid the
//    letters n, r, t which the escape syntax reserves.
//  * split/join round trip: the side condition of the property (separator neither occurs in nor
//    straddles the parts) is evaluated on the reference-joined string: the separator must occur
//    exactly at the glue positions and nowhere else (overlapping occurrences counted).
#include <tlx/string/base64.hpp>
#include <tlx/string/hexdump.hpp>
#include <tlx/string/join.hpp>
#include <tlx/string/join_quoted.hpp>
#include <tlx/string/split.hpp>
#include <tlx/string/split_quoted.hpp>

#include <cstdint>

#include "c19_common.hpp"

namespace c19 {

enum { OC_CODEC = 0, OC_B64DEC, OC_HEXPARSE, OC_SPLITJOIN, OC_QUOTED };

// ---------------------------------------------------------------------------------------------
// references

// RFC 4648 section 4 (table built from the ranges, not copied from tlx)
static Str rfc_b64(const Str& s) {
    char T[64];
    int k = 0;
    for (char c = 'A'; c <= 'Z'; ++c) T[k++] = c;
    for (char c = 'a'; c <= 'z'; ++c) T[k++] = c;
    for (char c = '0'; c <= '9'; ++c) T[k++] = c;
    T[k++] = '+';
    T[k++] = '/';
    Str o;
    size_t i = 0, n = s.size();
    for (; i + 3 <= n; i += 3) {
        uint32_t v = ((uint32_t)(unsigned char)s[i] << 16) | ((uint32_t)(unsigned char)s[i + 1] << 8) |
                     (unsigned char)s[i + 2];
        o += T[(v >> 18) & 63];
        o += T[(v >> 12) & 63];
        o += T[(v >> 6) & 63];
        o += T[v & 63];
    }
    if (n - i == 1) {
        uint32_t v = (uint32_t)(unsigned char)s[i] << 16;
        o += T[(v >> 18) & 63];
        o += T[(v >> 12) & 63];
        o += "==";
    } else if (n - i == 2) {
        uint32_t v = ((uint32_t)(unsigned char)s[i] << 16) | ((uint32_t)(unsigned char)s[i + 1] << 8);
        o += T[(v >> 18) & 63];
        o += T[(v >> 12) & 63];
        o += T[(v >> 6) & 63];
        o += "=";
    }
    return o;
}
static int b64_value(unsigned char c) {
    if (c >= 'A' && c <= 'Z') return c - 'A';
    if (c >= 'a' && c <= 'z') return c - 'a' + 26;
    if (c >= '0' && c <= '9') return c - '0' + 52;
    if (c == '+') return 62;
    if (c == '/') return 63;
    return -1;
}
static Str strip_nl(const Str& e) {
    Str o;
    for (char c : e)
        if (c != '\n') o += c;
    return o;
}
static Str line_structure(const Str& e, size_t lb) {
    if (lb == 0) return e.find('\n') == npos ? "ok" : "newline although line_break=0";
    size_t start = 0;
    for (;;) {
        size_t p = e.find('\n', start);
        if (p == npos) return e.size() - start > lb ? vh::fmt("last line has %zu letters", e.size() - start) : Str("ok");
        if (p - start != lb) return vh::fmt("line of %zu letters", p - start);
        start = p + 1;
    }
}
static Str ref_hex(const Str& s, bool upper) {
    const char* D = upper ? "0123456789ABCDEF" : "0123456789abcdef";
    Str o;
    for (unsigned char c : s) {
        o += D[c / 16];
        o += D[c % 16];
    }
    return o;
}
static Str ref_join(const Str& glue, const SVec& parts) {
    Str o;
    for (size_t i = 0; i < parts.size(); ++i) {
        if (i) o += glue;
        o += parts[i];
    }
    return o;
}

// ---------------------------------------------------------------------------------------------
// family codec

static void run_codec(const Case& c) {
    const Str& s = c.s[0];
    Buf b(s);
    tlx::string_view sv(b.p, b.n);
    const Str ref = rfc_b64(s);
    C19_OUTCOME(OC_CODEC, s.size() % 3 + 3 * (s.size() > 3 ? 1 : 0), vh::fmt("codec: |s| mod 3 = %zu, %s", s.size() % 3, s.size() > 3 ? ">1 block" : "<=1 block"));
    static const size_t LB[5] = {0, 4, 8, 12, 76};
    for (size_t lb : LB) {
        Str w = "line_break=" + N(lb);
        C19_CHECK("base64_encode", "rfc", w + " (ptr,size)", Q(strip_nl(tlx::base64_encode(b.p, b.n, lb))), Q(ref));
        C19_CHECK("base64_encode", "rfc", w + " (string_view)", Q(strip_nl(tlx::base64_encode(sv, lb))), Q(ref));
        C19_CHECK("base64_encode", "linebreak", w + " (ptr,size)", line_structure(tlx::base64_encode(b.p, b.n, lb), lb), Str("ok"));
        C19_CHECK("base64_encode", "linebreak", w + " (string_view)", line_structure(tlx::base64_encode(sv, lb), lb), Str("ok"));
        for (int strict = 0; strict < 2; ++strict) {
            Str w2 = w + (strict ? " strict" : " non-strict");
            C19_CHECK("base64", "roundtrip", w2 + " (string_view)", Q(tlx::base64_decode(tlx::base64_encode(sv, lb), strict != 0)), Q(s));
            C19_CHECK("base64", "roundtrip", w2 + " (ptr,size)", [&] {
                Str e = tlx::base64_encode(b.p, b.n, lb);
                Buf eb(e);
                return Q(tlx::base64_decode(eb.p, eb.n, strict != 0));
            }(), Q(s));
        }
        if (lb != 0 && tlx::base64_encode(sv, lb).find('\n') != npos) C19_OUTCOME(OC_CODEC, 8, "codec: output with line breaks");
    }
    // default arguments: no line breaks, strict decode
    C19_CHECK("base64_encode", "rfc", "default line_break", Q(tlx::base64_encode(sv)), Q(ref));
    C19_CHECK("base64", "roundtrip", "default arguments", Q(tlx::base64_decode(tlx::base64_encode(sv))), Q(s));
    // decoding the REFERENCE encoding (decoder checked independently of the tlx encoder)
    {
        Buf rb(ref);
        C19_CHECK("base64_decode", "rfc", "strict", Q(tlx::base64_decode(tlx::string_view(rb.p, rb.n), true)), Q(s));
        C19_CHECK("base64_decode", "rfc", "non-strict", Q(tlx::base64_decode(rb.p, rb.n, false)), Q(s));
    }

    // hexdump
    const Str hu = ref_hex(s, true), hl = ref_hex(s, false);
    std::vector<char> vc(s.begin(), s.end());
    std::vector<std::uint8_t> vu(s.begin(), s.end());
    C19_CHECK("hexdump", "ref", "(ptr,size)", Q(tlx::hexdump(b.p, b.n)), Q(hu));
    C19_CHECK("hexdump", "ref", "(string_view)", Q(tlx::hexdump(sv)), Q(hu));
    C19_CHECK("hexdump", "ref", "(vector<char>)", Q(tlx::hexdump(vc)), Q(hu));
    C19_CHECK("hexdump", "ref", "(vector<uint8_t>)", Q(tlx::hexdump(vu)), Q(hu));
    C19_CHECK("hexdump_lc", "ref", "(ptr,size)", Q(tlx::hexdump_lc(b.p, b.n)), Q(hl));
    C19_CHECK("hexdump_lc", "ref", "(string_view)", Q(tlx::hexdump_lc(sv)), Q(hl));
    C19_CHECK("hexdump_lc", "ref", "(vector<char>)", Q(tlx::hexdump_lc(vc)), Q(hl));
    C19_CHECK("hexdump_lc", "ref", "(vector<uint8_t>)", Q(tlx::hexdump_lc(vu)), Q(hl));
    C19_CHECK("hexdump", "roundtrip", "parse_hexdump(hexdump(s))", Q(tlx::parse_hexdump(tlx::hexdump(sv))), Q(s));
    C19_CHECK("hexdump_lc", "roundtrip", "parse_hexdump(hexdump_lc(s))", Q(tlx::parse_hexdump(tlx::hexdump_lc(sv))), Q(s));
    {
        Buf ub(hu), lb2(hl);
        C19_CHECK("parse_hexdump", "ref", "upper-case reference text", Q(tlx::parse_hexdump(tlx::string_view(ub.p, ub.n))), Q(s));
        C19_CHECK("parse_hexdump", "ref", "lower-case reference text", Q(tlx::parse_hexdump(tlx::string_view(lb2.p, lb2.n))), Q(s));
    }
}

// ---------------------------------------------------------------------------------------------
// family b64dec: base64_decode on arbitrary text over {'Q','z','/',' ','\n','!'}

static void run_b64dec(const Case& c) {
    const Str& t = c.s[0];
    Buf b(t);
    tlx::string_view sv(b.p, b.n);
    bool invalid = false;
    std::vector<int> sx;
    for (unsigned char ch : t) {
        int v = b64_value(ch);
        if (v >= 0) sx.push_back(v);
        else if (ch == ' ' || ch == '\n' || ch == '\t' || ch == '\r') continue;
        else invalid = true;
    }
    Str dec;
    size_t i = 0;
    for (; i + 4 <= sx.size(); i += 4) {
        uint32_t v = (sx[i] << 18) | (sx[i + 1] << 12) | (sx[i + 2] << 6) | sx[i + 3];
        dec += (char)(v >> 16);
        dec += (char)(v >> 8);
        dec += (char)v;
    }
    size_t rest = sx.size() - i;
    if (rest == 2) dec += (char)((sx[i] << 2) | (sx[i + 1] >> 4));
    if (rest == 3) {
        dec += (char)((sx[i] << 2) | (sx[i + 1] >> 4));
        dec += (char)(((sx[i + 1] & 15) << 4) | (sx[i + 2] >> 2));
    }
    C19_OUTCOME(OC_B64DEC, (int)rest + 4 * invalid, vh::fmt("b64dec: leftover sextets=%zu invalid=%d", rest, (int)invalid));
    if (invalid) {
        // documented: strict + invalid non-whitespace letter -> std::runtime_error
        C19_CHECK("base64_decode", "strict-throw", "strict (string_view)", Q(tlx::base64_decode(sv, true)), Str("throw:runtime_error"));
        C19_CHECK("base64_decode", "strict-throw", "strict (ptr,size)", Q(tlx::base64_decode(b.p, b.n, true)), Str("throw:runtime_error"));
        C19_CHECK("base64_decode", "strict-throw", "default = strict", Q(tlx::base64_decode(sv)), Str("throw:runtime_error"));
    }
    if (rest == 1) return;  // dangling sextet: result not documented
    if (!invalid) {
        C19_CHECK("base64_decode", "text", "strict (string_view)", Q(tlx::base64_decode(sv, true)), Q(dec));
        C19_CHECK("base64_decode", "text", "strict (ptr,size)", Q(tlx::base64_decode(b.p, b.n, true)), Q(dec));
    }
    // non-strict: invalid letters are silently ignored
    C19_CHECK("base64_decode", "text", "non-strict (string_view)", Q(tlx::base64_decode(sv, false)), Q(dec));
    C19_CHECK("base64_decode", "text", "non-strict (ptr,size)", Q(tlx::base64_decode(b.p, b.n, false)), Q(dec));
}

// ---------------------------------------------------------------------------------------------
// family hexparse: parse_hexdump on arbitrary text over {'0','9','a','F','g'}

static void run_hexparse(const Case& c) {
    const Str& t = c.s[0];
    Buf b(t);
    auto val = [](unsigned char ch) -> int {
        if (ch >= '0' && ch <= '9') return ch - '0';
        if (ch >= 'a' && ch <= 'f') return ch - 'a' + 10;
        if (ch >= 'A' && ch <= 'F') return ch - 'A' + 10;
        return -1;
    };
    bool bad = t.size() % 2 != 0;
    for (unsigned char ch : t)
        if (val(ch) < 0) bad = true;
    Str ref = "throw:runtime_error";
    if (!bad) {
        Str o;
        for (size_t i = 0; i < t.size(); i += 2) o += (char)(val(t[i]) * 16 + val(t[i + 1]));
        ref = Q(o);
    }
    C19_OUTCOME(OC_HEXPARSE, bad, bad ? "hexparse: rejected" : "hexparse: accepted");
    C19_CHECK("parse_hexdump", "text", "", Q(tlx::parse_hexdump(tlx::string_view(b.p, b.n))), ref);
}

// ---------------------------------------------------------------------------------------------
// family splitjoin: c.s = {sep, part0, part1, ...}

static void run_splitjoin(const Case& c) {
    const Str& sep = c.s[0];
    SVec parts(c.s.begin() + 1, c.s.end());
    const Str J = ref_join(sep, parts);
    Buf sb(sep);
    tlx::string_view sepv(sb.p, sb.n);
    C19_CHECK("join(string_view)", "mismatch", "", Q(tlx::join(sepv, parts)), Q(J));
    if (nul_free(sep)) {
        CBuf cb(sep);
        C19_CHECK("join(cstr)", "mismatch", "", Q(tlx::join(static_cast<const char*>(cb.p), parts)), Q(J));
    }
    if (sep.size() == 1) C19_CHECK("join(char)", "mismatch", "", Q(tlx::join(sep[0], parts)), Q(J));

    // side condition: the separator occurs in the joined string exactly at the glue positions
    std::vector<size_t> glue, occ;
    size_t pos = 0;
    for (size_t i = 0; i < parts.size(); ++i) {
        pos += parts[i].size();
        if (i + 1 < parts.size()) {
            glue.push_back(pos);
            pos += sep.size();
        }
    }
    for (size_t i = 0; i + sep.size() <= J.size(); ++i)
        if (J.compare(i, sep.size(), sep) == 0) occ.push_back(i);
    if (occ != glue) {
        C19_OUTCOME(OC_SPLITJOIN, 0, "splitjoin: separator occurs in / straddles the parts (round trip not demanded)");
        vh::stat_add("splitjoin_side_condition_false");
        return;
    }
    C19_OUTCOME(OC_SPLITJOIN, (int)parts.size() + 4 * (int)sep.size(), vh::fmt("splitjoin: round trip demanded, %zu parts, |sep|=%zu", parts.size(), sep.size()));
    vh::stat_add("splitjoin_roundtrips");
    C19_CHECK("split(str)", "roundtrip", "split(sep, join(sep, parts))", V(tlx::split(sepv, tlx::join(sepv, parts))), V(parts));
    {
        // split of the REFERENCE-joined text
        Buf jb(J);
        C19_CHECK("split(str)", "roundtrip", "split(sep, reference join)", V(tlx::split(sepv, tlx::string_view(jb.p, jb.n))), V(parts));
        if (sep.size() == 1)
            C19_CHECK("split(char)", "roundtrip", "split(sep, reference join)", V(tlx::split(sep[0], tlx::string_view(jb.p, jb.n))), V(parts));
    }
    if (sep.size() == 1)
        C19_CHECK("split(char)", "roundtrip", "split(sep, join(sep, parts))", V(tlx::split(sep[0], tlx::join(sep[0], parts))), V(parts));
}

// ---------------------------------------------------------------------------------------------
// family quoted: c.s = v, c.n = {triple}; triple 0 = default one-argument forms,
// 1 = (';', '\'', '^') through the four-argument forms

static void run_quoted(const Case& c) {
    const SVec& v = c.s;
    int triple = c.n.empty() ? 0 : (int)c.n[0];
    // Two oracle kinds so that "different result" and "split_quoted rejects join_quoted's own output" stay apart.
    Str r = guard([&]() -> Str {
        vh::at_op("join_quoted");
        if (triple == 0) return V(tlx::split_quoted(tlx::join_quoted(v)));
        return V(tlx::split_quoted(tlx::join_quoted(v, ';', '\'', '^'), ';', '\'', '^'));
    });
    ++n_cmp;
    ++n_cmp;  // two real calls: join_quoted, split_quoted
    Str want = V(v);
    bool threw = r.compare(0, 6, "throw:") == 0;
    C19_OUTCOME(OC_QUOTED, threw ? 2 : (r == want ? 0 : 1), threw ? "quoted: split_quoted threw on join_quoted output" : (r == want ? "quoted: round trip ok" : "quoted: round trip differs"));
    if (r != want) {
        Str text = guard([&]() -> Str { return Q(triple == 0 ? tlx::join_quoted(v) : tlx::join_quoted(v, ';', '\'', '^')); });
        report("join_quoted", threw ? "roundtrip-throw" : "roundtrip", "split_quoted(join_quoted(v)); joined text=" + text, r, want);
    }
}

// ---------------------------------------------------------------------------------------------

static Family strings_family(const char* name, const std::vector<Str>* L, void (*run)(const Case&), const char* what) {
    return Family{name, L->size(), [L](uint64_t id) { Case c; c.s.push_back((*L)[id]); return c; }, run, what};
}

// vectors of 0..maxn (or 1..maxn) strings out of L; id order: by vector length
static uint64_t n_vectors(size_t K, int minn, int maxn) {
    uint64_t t = 0, p = 1;
    for (int n = 0; n <= maxn; ++n) {
        if (n >= minn) t += p;
        p *= K;
    }
    return t;
}
static SVec decode_vector(const std::vector<Str>& L, int minn, int maxn, uint64_t id) {
    uint64_t p = 1;
    size_t K = L.size();
    for (int n = 0; n <= maxn; ++n) {
        if (n >= minn) {
            if (id < p) {
                SVec v(n);
                for (int i = n - 1; i >= 0; --i) {
                    v[i] = L[id % K];
                    id /= K;
                }
                return v;
            }
            id -= p;
        }
        p *= K;
    }
    return SVec();
}

void register_codec_families(std::vector<Family>& F, bool T) {
    // codec: alphabet strings up to 7 (T) / 6 (Q) + every 1- and 2-byte string + 3-byte strings
    // {0x00,0xA5} x 256 x 256 (every sextet value in every position of a block)
    static std::vector<Str> L_codec = all_strings(Str("\0a=\xff\n", 5), T ? 7 : 6);
    static size_t n_alpha = L_codec.size();
    {
        uint64_t nbytes = 256 + 65536 + (T ? 2 * 65536 : 2 * 256 * 16);
        F.push_back(Family{"codec", n_alpha + nbytes,
                           [T](uint64_t id) {
                               Case c;
                               if (id < n_alpha) {
                                   c.s.push_back(L_codec[id]);
                                   return c;
                               }
                               id -= n_alpha;
                               Str s;
                               if (id < 256) s += (char)id;
                               else if (id < 256 + 65536) {
                                   id -= 256;
                                   s += (char)(id >> 8);
                                   s += (char)(id & 255);
                               } else {
                                   id -= 256 + 65536;
                                   if (T) {
                                       s += (id >> 16) ? (char)0xA5 : (char)0x00;
                                       s += (char)((id >> 8) & 255);
                                       s += (char)(id & 255);
                                   } else {  // quick: middle byte in steps of 16 (+ low nibble pattern)
                                       s += (id >> 12) ? (char)0xA5 : (char)0x00;
                                       unsigned m = (id >> 8) & 15;
                                       s += (char)(m * 16 + (15 - m));
                                       s += (char)(id & 255);
                                   }
                               }
                               c.s.push_back(s);
                               return c;
                           },
                           run_codec,
                           T ? "all strings over {00,'a','=',FF,'\\n'} |s|<=7, all 1- and 2-byte strings, 3-byte strings {00,A5}x256x256"
                             : "all strings over {00,'a','=',FF,'\\n'} |s|<=6, all 1- and 2-byte strings, 3-byte strings {00,A5}x16x256"});
    }
    static std::vector<Str> L_b64dec = all_strings("Qz/ \n!", T ? 6 : 5);
    F.push_back(strings_family("b64dec", &L_b64dec, run_b64dec, T ? "all texts over {'Q','z','/',' ','\\n','!'} |t|<=6" : "all texts over {'Q','z','/',' ','\\n','!'} |t|<=5"));
    static std::vector<Str> L_hexparse = all_strings("09aFg", T ? 6 : 5);
    F.push_back(strings_family("hexparse", &L_hexparse, run_hexparse, T ? "all texts over {'0','9','a','F','g'} |t|<=6" : "all texts over {'0','9','a','F','g'} |t|<=5"));

    // splitjoin: separators = all strings of length 1-2 over {',',';','a'}; parts = 1..3 strings of
    // length <=2 over {'a','b',',',';'}
    static std::vector<Str> L_sep;
    static std::vector<Str> L_part = all_strings("ab,;", 2);
    if (L_sep.empty())
        for (const Str& s : all_strings(",;a", 2))
            if (!s.empty()) L_sep.push_back(s);
    L_sep.push_back(Str("\0", 1));  // + NUL as separator character (string_view and char overloads)
    static uint64_t nvec = n_vectors(L_part.size(), 1, 3);
    F.push_back(Family{"splitjoin", nvec * L_sep.size(),
                       [](uint64_t id) {
                           Case c;
                           c.s.push_back(L_sep[id % L_sep.size()]);
                           SVec v = decode_vector(L_part, 1, 3, id / L_sep.size());
                           c.s.insert(c.s.end(), v.begin(), v.end());
                           return c;
                       },
                       run_splitjoin, "every vector of 1..3 parts of length <=2 over {'a','b',',',';'} x every separator of length 1-2 over {',',';','a'} and NUL"});

    // quoted: every vector of <=3 strings of length <=3 over {'a',sep,quote,escape,'\n'}; the custom
    // triple in the quick tier: <=2 strings of length <=3 and 3 strings of length <=2
    static std::vector<Str> L_q3[2] = {all_strings("a \"\\\n", 3), all_strings("a;'^\n", 3)};
    static std::vector<Str> L_q2[2] = {all_strings("a \"\\\n", 2), all_strings("a;'^\n", 2)};
    static const char* names3[2] = {"quoted", "quoted_custom"};
    static const char* names2[2] = {"quoted_short", "quoted_custom_short"};
    for (int t = 0; t < 2; ++t) {
        if (T || t == 0) {
            F.push_back(Family{names3[t], n_vectors(L_q3[t].size(), 0, 3),
                               [t](uint64_t id) { Case c; c.s = decode_vector(L_q3[t], 0, 3, id); c.n.push_back(t); return c; },
                               run_quoted,
                               t == 0 ? "every vector of <=3 strings of length <=3 over {'a',' ','\"','\\\\','\\n'}, default (sep,quote,escape)"
                                      : "every vector of <=3 strings of length <=3 over {'a',';','\\'','^','\\n'}, triple (';','\\'','^')"});
        } else {
            F.push_back(Family{names3[t], n_vectors(L_q3[t].size(), 0, 2),
                               [t](uint64_t id) { Case c; c.s = decode_vector(L_q3[t], 0, 2, id); c.n.push_back(t); return c; },
                               run_quoted, "every vector of <=2 strings of length <=3 over {'a',';','\\'','^','\\n'}, triple (';','\\'','^')"});
            F.push_back(Family{names2[t], n_vectors(L_q2[t].size(), 3, 3),
                               [t](uint64_t id) { Case c; c.s = decode_vector(L_q2[t], 3, 3, id); c.n.push_back(t); return c; },
                               run_quoted, "every vector of 3 strings of length <=2 over {'a',';','\\'','^','\\n'}, triple (';','\\'','^')"});
        }
    }
}

}  // namespace c19

using namespace c19;

static int g_slot_wd = 0;
static void on_alarm(int) {
    vh::shm()->stat_val[g_slot_wd]++;
    static const char msg[] = "C19 watchdog: case exceeded the time limit (tlx call does not terminate?)\n";
    ssize_t w = ::write(2, msg, sizeof msg - 1);
    (void)w;
    _exit(97);
}

int main(int argc, char** argv) {
    vh::init(argc, argv);
    bool T = vh::args().thorough();
    std::vector<Family> F;
    register_codec_families(F, T);
    register_helper_families(F, T);
    // only=<family> restricts the run (debugging aid; bin/check never passes it)
    Str only = vh::args().opt("only");
    if (!only.empty()) {
        std::vector<Family> G;
        for (auto& f : F)
            if (only == f.name) G.push_back(f);
        F.swap(G);
    }
    std::vector<uint64_t> base;
    std::vector<int> slot_cases, slot_cmp;
    uint64_t total = 0;
    int slot_all_cases = vh::stat_slot("cases", false), slot_all_cmp = vh::stat_slot("comparisons", false);
    for (auto& f : F) {
        base.push_back(total);
        total += f.count;
        slot_cases.push_back(vh::stat_slot((Str("cases.") + f.name).c_str(), false));
        slot_cmp.push_back(vh::stat_slot((Str("calls.") + f.name).c_str(), false));
    }
    // Watchdog: run_cases() has no per-case time limit, so a tlx loop that never terminates would only
    // show up as a shard timeout.  SIGALRM is re-armed every 64 cases (each case takes microseconds);
    // when it fires the child exits with code 97 and the runner reports "<op>/exit:97" for the case
    // published with vh::at and resumes behind it.  After 6 kills the rest is skipped (CAP).
    g_slot_wd = vh::stat_slot("watchdog_kills", false);
    const unsigned WD = (unsigned)vh::args().opt_int("wd", 20);
    signal(SIGALRM, on_alarm);
    bool capped = false;
    auto run_in = [&](size_t fi, const Case& c) {
        g_case = &c;
        g_replay = enc_case(F[fi].name, c);
        vh::at(F[fi].name, g_replay);
        n_cmp = 0;
        F[fi].run(c);
        vh::shm()->stat_val[slot_all_cases]++;
        vh::shm()->stat_val[slot_cases[fi]]++;
        vh::shm()->stat_val[slot_all_cmp] += n_cmp;
        vh::shm()->stat_val[slot_cmp[fi]] += n_cmp;
        g_case = nullptr;
    };
    if (vh::args().has_replay) {
        return vh::replay_one([&](const Str& r) {
            alarm(WD);
            Str fam;
            Case c;
            if (!dec_case(r, &fam, &c)) {
                vh::out_line("ERROR cannot parse replay string");
                return;
            }
            for (size_t fi = 0; fi < F.size(); ++fi)
                if (fam == F[fi].name) {
                    run_in(fi, c);
                    return;
                }
            vh::out_line("ERROR unknown family in replay string: " + fam);
        });
    }
    if (vh::args().shard == 0) {
        for (size_t fi = 0; fi < F.size(); ++fi) {
            Case c = F[fi].decode(F[fi].count / 3 * 2);
            vh::sample(vh::fmt("family %s (%llu cases: %s); e.g. %s", F[fi].name, (unsigned long long)F[fi].count,
                               F[fi].what, describe(c).c_str()),
                       32);
        }
    }
    auto run_case = [&](uint64_t id) {
        if (vh::shm()->stat_val[g_slot_wd] >= 6) {
            if (!capped) vh::cap("watchdog: 6 cases exceeded the time limit; remaining cases of this shard skipped");
            capped = true;
            return;
        }
        static bool first_in_child = true;  // every (re)started child is forked from the parent, where this is true
        if (first_in_child || (id / vh::args().nshards) % 64 == 0) alarm(WD);
        first_in_child = false;
        size_t fi = F.size() - 1;
        while (base[fi] > id) --fi;
        Case c = F[fi].decode(id - base[fi]);
        run_in(fi, c);
    };
    vh::run_cases(total, run_case);
    return vh::finish();
}
