// C17 (SplayTree part) — SplayTree operation histories, explicit-state closure (engine E2).
//
// Configurations (one per shard): set flavour (Duplicates=false) over keys {0..K-1}, multiset flavour (Duplicates=true)
// over keys {0,1,2} with a multiplicity cap per key (the driver stops inserting a key at the cap: finite universe),
// comparators std::less / std::greater, key types int and Tracked (heap-owning, lifetime-registered), always with the
// counting allocator (ledger per pointer).
// Ops (all of them restructure the tree, so they are transitions, never "queries"):
//   insert(k)      returns true iff inserted (header: "insert key into tree if it does not exist, returns true if inserted");
//                  set flavour: false for a present key; multiset flavour: always true
//   exists(k)      == membership in the reference
//   find(k)        returns a node whose key is equivalent to k iff k is a member (header: "... or return smallest key larger
//                  than k" — actually a neighbour; only membership is compared, as the property says)
//   erase(k)       returns true iff k was a member; removes one instance
//   erase_node(k)  n = find(k); if n != nullptr: erase(n) must return true and removes one instance of n->key
//                  (n may be the neighbour when k is absent: still a node of the tree, so still inside the contract)
//   clear()
// Every op is enabled in every state, including the empty tree and the tree after clear().
// Per-step oracles: return values; own walk over the raw nodes (every reachable node must be a live allocation, each
// reached once; in-order key sequence == sorted reference sequence; BST order valid — non-strict for the multiset, tlx's
// strict check() is only called for the set flavour); reachable nodes == live allocations == size() == reference size;
// live Tracked keys == reference size.  Per-state queries: size(), empty(), traverse_preorder() (which is the in-order
// walk: splay_traverse_preorder visits left, node, right) vs the reference sequence, check() (set flavour).
// Destruction of every reached state: ledger and key registry must be empty afterwards.
//
// A state in which the harness walk finds a node that is not a live allocation is reported ("<op>/dangling-node") and is
// terminal; its tlx destructor is not run (it would only re-report the same defect as a crash, once per reached state).
// The small "raw-*" configuration runs without that guard, so that the API-level consequence (the next tlx call touching
// the freed node) is confirmed by ASan on a handful of transitions.
#include <tlx/container/splay_tree.hpp>

#include <functional>
#include <set>

#include "c17_common.hpp"

using c17::CountingAlloc;
using c17::Ledger;
using c17::Tracked;

template <class T>
struct cmp_name;
template <>
struct cmp_name<std::less<int>> {
    static const char* get() { return "less"; }
};
template <>
struct cmp_name<std::greater<int>> {
    static const char* get() { return "greater"; }
};

template <class K, template <class> class CmpT, bool Dup>
struct SplaySys {
    typedef CmpT<K> Cmp;
    typedef CmpT<int> ICmp;
    typedef CountingAlloc<K> Alloc;
    typedef tlx::SplayTree<K, Cmp, Dup, Alloc> Tree;
    typedef typename Tree::Node Node;

    int nkeys, maxmult, maxtotal;
    bool raw;
    SplaySys(int nk, int mm, int mt, bool rw = false) : nkeys(nk), maxmult(mm), maxtotal(mt), raw(rw) {}

    std::string name() const {
        std::string n = vh::fmt("%s%s-%s-%s-k%d", raw ? "raw-" : "", Dup ? "mset" : "set", cmp_name<ICmp>::get(), c17::key_name<K>::get(), nkeys);
        if (Dup) {
            n += vh::fmt("m%d", maxmult);
            if (maxtotal < nkeys * maxmult) n += vh::fmt("t%d", maxtotal);
        }
        return n;
    }

    struct State {
        const SplaySys* sys;
        Ledger led;
        c17::TrackedReg treg;
        std::unique_ptr<Tree> t;
        std::multiset<int, ICmp> model;
        std::vector<uint32_t> hist;
        bool bad = false;       // an oracle has fired: terminal
        bool poisoned = false;  // the tree refers to freed nodes: do not run tlx code on it any more
        explicit State(const SplaySys* s) : sys(s) {
            enter();
            // both public constructors are used
            if (std::is_same<ICmp, std::less<int>>::value) t.reset(new Tree(Alloc(&led)));
            else t.reset(new Tree(Cmp(), Alloc(&led)));
        }
        void enter() {
            c17::cur_ledger() = &led;
            c17::cur_treg() = &treg;
        }
        ~State() {
            enter();
            vh::at("destroy", sys->name() + "|" + vhist::hist_str(hist));
            if (poisoned) {
                t.release();  // see the header comment: already reported, the destructor would walk freed nodes
                return;
            }
            t.reset();
            if (bad) return;
            if (!led.live.empty()) vh::fail_here("node-leak", vh::fmt("%zu node(s) still allocated after the tree was destroyed", led.live.size()));
            else if (!treg.live.empty()) vh::fail_here("key-leak", vh::fmt("%zu key object(s) still alive after the tree was destroyed", treg.live.size()));
        }
    };
    std::unique_ptr<State> fresh() { return std::unique_ptr<State>(new State(this)); }

    static void fail(State& s, const char* kind, const std::string& msg) {
        s.bad = true;
        vh::fail_here(kind, msg);
    }

    enum Kind { INSERT = 0, EXISTS, FIND, ERASE, ERASE_NODE, CLEAR };
    static uint32_t enc(int kind, int k = 0) { return kind * 16 + k; }
    std::string op_name(uint32_t op) {
        static const char* n[] = {"insert", "exists", "find", "erase", "erase_node", "clear"};
        int kind = op / 16, k = op % 16;
        if (kind == CLEAR) return "clear()";
        return vh::fmt("%s(%d)", n[kind], k);
    }

    std::vector<uint32_t> ops(const State& s) {
        std::vector<uint32_t> r;
        for (int k = 0; k < nkeys; ++k)
            if (!Dup || ((int)s.model.count(k) < maxmult && (int)s.model.size() < maxtotal)) r.push_back(enc(INSERT, k));
        for (int kind : {EXISTS, FIND, ERASE, ERASE_NODE})
            for (int k = 0; k < nkeys; ++k) r.push_back(enc(kind, k));
        r.push_back(enc(CLEAR));
        return r;
    }

    // ---- own walk over the raw nodes (never dereferences a pointer that is not a live allocation) ----
    struct Shape {
        bool dangling = false, shared = false, deadkey = false;
        size_t count = 0;
        std::vector<int> inorder;
        std::string dump;  // pre-order with structure markers
    };
    static void walk(const State& s, const Node* n, Shape& sh, std::set<const Node*>& seen) {
        if (!n) {
            sh.dump += '.';
            return;
        }
        if (!s.led.is_live(n)) {
            sh.dangling = true;
            sh.dump += '!';
            return;
        }
        if (!seen.insert(n).second) {
            sh.shared = true;
            sh.dump += '@';
            return;
        }
        sh.count++;
        int v = c17::stored_val(n->key, &sh.deadkey);
        sh.dump += '(';
        sh.dump += (v >= 0 && v < 10) ? (char)('0' + v) : '?';
        walk(s, n->left, sh, seen);
        sh.inorder.push_back(v);
        walk(s, n->right, sh, seen);
        sh.dump += ')';
    }
    static Shape inspect(const State& s) {
        Shape sh;
        std::set<const Node*> seen;
        walk(s, s.t->root_, sh, seen);
        return sh;
    }
    static std::string seq_str(const std::vector<int>& v) {
        std::string r = "[";
        for (int x : v) r += vh::fmt(" %d", x);
        return r + " ]";
    }

    void check_struct(State& s) {
        Shape sh = inspect(s);
        std::vector<int> want(s.model.begin(), s.model.end());
        if (sh.dangling) {
            s.poisoned = true;
            fail(s, "dangling-node", "the tree refers to a node that has been freed: shape " + sh.dump + " ('!' = freed node), reference " + seq_str(want));
            return;
        }
        if (sh.shared) {
            s.poisoned = true;
            fail(s, "node-reached-twice", "the node graph is not a tree: " + sh.dump);
            return;
        }
        if (sh.deadkey) {
            fail(s, "dead-key-stored", "a stored key object is not alive: " + sh.dump);
            return;
        }
        if (sh.count != s.led.live.size()) {
            fail(s, "unreachable-live-nodes",
                 vh::fmt("%zu node(s) reachable from the root but %zu allocated (reference size %zu): shape %s in-order %s reference %s", sh.count,
                         s.led.live.size(), want.size(), sh.dump.c_str(), seq_str(sh.inorder).c_str(), seq_str(want).c_str()));
            return;
        }
        ICmp lt;
        for (size_t i = 0; i + 1 < sh.inorder.size(); ++i)
            if (lt(sh.inorder[i + 1], sh.inorder[i]) || (!Dup && !lt(sh.inorder[i], sh.inorder[i + 1]))) {
                fail(s, "bst-invalid", "search tree order violated: shape " + sh.dump + " in-order " + seq_str(sh.inorder));
                return;
            }
        if (sh.inorder != want) {
            fail(s, "inorder-mismatch", "raw in-order keys " + seq_str(sh.inorder) + " reference " + seq_str(want));
            return;
        }
        if (std::is_same<K, Tracked>::value && s.treg.live.size() != want.size())
            fail(s, "live-keys", vh::fmt("%zu key objects alive, %zu keys stored", s.treg.live.size(), want.size()));
    }

    // find(k) + the membership oracle; returns the node if it may be dereferenced
    Node* do_find(State& s, int k, const char* what) {
        bool present = s.model.count(k) != 0;
        K key = c17::make_key<K>(k);
        Node* n = s.t->find(key);
        if (n && !s.led.is_live(n)) {
            s.poisoned = true;
            fail(s, "dangling-node", vh::fmt("%s(%d) returned a node that has been freed", what, k));
            return nullptr;
        }
        bool dead = false;
        bool hit = false;
        if (n) {
            int v = c17::stored_val(n->key, &dead);
            hit = !dead && !ICmp()(v, k) && !ICmp()(k, v);
        }
        if (hit != present)
            fail(s, "membership", vh::fmt("find(%d) returned %s, but %d is %s the reference", k, n ? (hit ? "an equivalent node" : "a non-equivalent node") : "nullptr", k,
                                          present ? "in" : "not in"));
        vh::outcome(std::string(Dup ? "mset " : "set ") + what + (n ? (hit ? ": node with equivalent key" : ": neighbour node") : ": nullptr"));
        return s.bad ? nullptr : n;
    }

    void apply(State& s, uint32_t op) {
        s.enter();
        s.hist.push_back(op);
        if (s.bad) return;
        int kind = op / 16, k = op % 16;
        Tree& t = *s.t;
        bool present = s.model.count(k) != 0;
        switch (kind) {
        case INSERT: {
            K key = c17::make_key<K>(k);
            bool r = t.insert(key);
            bool want = Dup || !present;
            if (r != want) fail(s, "return-value", vh::fmt("insert(%d) = %d, key present before: %d, duplicates %s", k, (int)r, (int)present, Dup ? "allowed" : "not allowed"));
            if (want) s.model.insert(k);
            vh::outcome(std::string(Dup ? "mset" : "set") + " insert" + (present ? " present key" : " new key") + (r ? ": true" : ": false"));
            break;
        }
        case EXISTS: {
            K key = c17::make_key<K>(k);
            bool r = t.exists(key);
            if (r != present) fail(s, "membership", vh::fmt("exists(%d) = %d, reference %d", k, (int)r, (int)present));
            vh::outcome(std::string("exists") + (s.model.empty() ? " on empty tree" : "") + (r ? ": true" : ": false"));
            break;
        }
        case FIND:
            do_find(s, k, "find");
            break;
        case ERASE: {
            K key = c17::make_key<K>(k);
            bool r = t.erase(key);
            if (r != present) fail(s, "return-value", vh::fmt("erase(%d) = %d, key present before: %d", k, (int)r, (int)present));
            if (present) s.model.erase(s.model.find(k));
            vh::outcome(std::string("erase") + (r ? ": true" : ": false"));
            break;
        }
        case ERASE_NODE: {
            Node* n = do_find(s, k, "erase_node");
            if (!n) break;
            bool dead = false;
            int nk = c17::stored_val(n->key, &dead);
            auto mi = s.model.find(nk);
            if (dead || mi == s.model.end()) {
                fail(s, "membership", vh::fmt("find(%d) returned a node with key %d which is not in the reference", k, nk));
                break;
            }
            bool r = t.erase(n);
            if (!r) fail(s, "return-value", vh::fmt("erase(node with key %d) = false although the node was in the tree", nk));
            s.model.erase(mi);
            break;
        }
        case CLEAR:
            t.clear();
            s.model.clear();
            vh::outcome("clear");
            break;
        }
        if (s.bad) return;
        // API-visible size after every op
        if (t.size() != s.model.size() || t.empty() != s.model.empty()) {
            fail(s, "size", vh::fmt("size() = %zu empty() = %d, reference size %zu", t.size(), (int)t.empty(), s.model.size()));
            return;
        }
        if (!raw) check_struct(s);
    }

    void observe(State& s) {
        s.enter();
        if (s.bad) return;
        const Tree& t = *s.t;
        std::vector<int> want(s.model.begin(), s.model.end());
        if (t.size() != want.size() || t.empty() != want.empty()) {
            fail(s, "size", vh::fmt("size() = %zu empty() = %d, reference size %zu", t.size(), (int)t.empty(), want.size()));
            return;
        }
        std::vector<int> got;
        bool dead = false;
        t.traverse_preorder([&](const K& k) { got.push_back(c17::stored_val(k, &dead)); });
        if (dead) {
            fail(s, "dead-key-stored", "traverse_preorder() passed a key object that is not alive");
            return;
        }
        if (got != want) {
            fail(s, "traversal-mismatch", "traverse_preorder() gave " + seq_str(got) + ", sorted reference " + seq_str(want));
            return;
        }
        if (!Dup && !t.check()) {  // tlx's check() is strict: legal only without duplicates
            fail(s, "check-false", "check() returned false for " + seq_str(got));
            return;
        }
        check_struct(s);
    }

    std::string canon(const State& s) {
        const_cast<State&>(s).enter();
        Shape sh = inspect(s);
        return vh::fmt("size_=%zu ", s.t->size_) + sh.dump;
    }
};

template <class Sys>
static c17::Cfg cfg(const Sys& s, const std::string& sample = "") {
    return c17::make_cfg(s, sample);
}

int main(int argc, char** argv) {
    vh::init(argc, argv);
    std::vector<c17::Cfg> quick, thorough, all;
    const std::string smp_set =
        "set-less-int-k6: e.g. insert(3) insert(1) exists(5) find(1) insert(1)->false erase_node(2) clear() insert(0) erase(0) — closure over all "
        "histories; state = tree shape, e.g. 'size_=2 (3(1..).)'";
    const std::string smp_mset =
        "mset-less-int-k3m3: e.g. insert(1) insert(1) insert(0) exists(0) erase(1) insert(1) find(2) — multiplicity <= 3 per key; canonical shape "
        "distinguishes where equal keys sit, e.g. 'size_=3 (1(1(0..).).)'";
    // quick
    quick.push_back(cfg(SplaySys<int, std::less, false>(6, 1, 6), smp_set));
    quick.push_back(cfg(SplaySys<int, std::greater, false>(6, 1, 6)));
    quick.push_back(cfg(SplaySys<Tracked, std::less, false>(6, 1, 6)));
    quick.push_back(cfg(SplaySys<int, std::less, true>(3, 3, 9), smp_mset));
    quick.push_back(cfg(SplaySys<int, std::greater, true>(3, 3, 9)));
    quick.push_back(cfg(SplaySys<Tracked, std::greater, true>(3, 3, 9)));
    // runs of four and five equal keys (erase below a chain of >= 3 equal nodes only exists from multiplicity 4 on), total size capped
    quick.push_back(cfg(SplaySys<int, std::less, true>(3, 5, 7)));
    quick.push_back(cfg(SplaySys<int, std::less, false>(7, 1, 7)));
    quick.push_back(cfg(SplaySys<int, std::greater, true>(2, 6, 8)));
    quick.push_back(cfg(SplaySys<int, std::less, false>(2, 1, 2, true),
                        "raw-set-less-int-k2: keys {0,1}, no harness guard against freed nodes: the next tlx call runs and ASan is the oracle"));
    // thorough
    // the largest universes run with int keys and std::less; the other comparator / key type repeat them one size smaller
    int sk = (int)vh::args().opt_int("setkeys", 9), mm = (int)vh::args().opt_int("mult", 5), mt = (int)vh::args().opt_int("total", 12);
    thorough.push_back(cfg(SplaySys<int, std::less, false>(sk, 1, sk), smp_set));
    thorough.push_back(cfg(SplaySys<int, std::less, true>(3, mm, mt), smp_mset));
    thorough.push_back(cfg(SplaySys<int, std::greater, false>(sk - 1, 1, sk - 1)));
    thorough.push_back(cfg(SplaySys<Tracked, std::less, false>(sk - 1, 1, sk - 1)));
    thorough.push_back(cfg(SplaySys<int, std::greater, true>(3, mm - 1, 3 * (mm - 1))));
    thorough.push_back(cfg(SplaySys<Tracked, std::greater, true>(3, mm - 1, 3 * (mm - 1))));
    thorough.push_back(cfg(SplaySys<int, std::less, true>(4, 2, 8)));
    thorough.push_back(cfg(SplaySys<int, std::less, true>(2, 5, 10)));
    thorough.push_back(cfg(SplaySys<int, std::less, false>(2, 1, 2, true),
                           "raw-set-less-int-k2: keys {0,1}, no harness guard against freed nodes: the next tlx call runs and ASan is the oracle"));
    all = quick;
    all.insert(all.end(), thorough.begin(), thorough.end());
    return c17::main_configs(vh::args().thorough() ? thorough : quick, all);
}
