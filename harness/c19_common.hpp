// C19 — shared plumbing of the string codec / helper harness (see c19_strings.cpp for the overview).
#pragma once
#include <cstring>
#include <functional>
#include <stdexcept>
#include <string>
#include <vector>

#include "common/vharness.hpp"

namespace c19 {

typedef std::string Str;
typedef std::vector<std::string> SVec;
static const size_t npos = std::string::npos;

// ---------------------------------------------------------------------------------------------
// text helpers

inline Str hex(const Str& s) {
    Str o;
    for (unsigned char c : s) o += vh::fmt("%02x", c);
    return o.empty() ? "-" : o;
}
inline Str unhex(const Str& s) {
    Str o;
    if (s == "-") return o;
    for (size_t i = 0; i + 1 < s.size(); i += 2) o += (char)strtol(s.substr(i, 2).c_str(), nullptr, 16);
    return o;
}
// unambiguous printable form: "a\x00\"\\"
inline Str Q(const Str& s) {
    Str o = "\"";
    for (unsigned char c : s) {
        if (c == '"' || c == '\\') {
            o += '\\';
            o += (char)c;
        } else if (c == '\n') o += "\\n";
        else if (c == '\r') o += "\\r";
        else if (c == '\t') o += "\\t";
        else if (c < 0x20 || c >= 0x7f) o += vh::fmt("\\x%02x", c);
        else o += (char)c;
    }
    return o + "\"";
}
inline Str V(const SVec& v) {
    Str o = "{";
    for (size_t i = 0; i < v.size(); ++i) {
        if (i) o += ",";
        o += Q(v[i]);
    }
    return o + "}";
}
inline Str B(bool b) { return b ? "true" : "false"; }
inline Str N(size_t v) { return v == npos ? "npos" : vh::fmt("%zu", v); }
inline Str I(long long v) { return vh::fmt("%lld", v); }

// every string over `alpha` with length <= maxlen, ordered by length (index 0 = "")
inline std::vector<Str> all_strings(const Str& alpha, int maxlen) {
    std::vector<Str> r;
    r.push_back("");
    size_t from = 0;
    for (int l = 1; l <= maxlen; ++l) {
        size_t to = r.size();
        for (size_t i = from; i < to; ++i)
            for (char c : alpha) r.push_back(r[i] + c);
        from = to;
    }
    return r;
}

// exact-size heap copy without terminator: a tlx over-read is an ASan report
struct Buf {
    char* p;
    size_t n;
    explicit Buf(const Str& s) : p(new char[s.size() ? s.size() : 1]), n(s.size()) { memcpy(p, s.data(), n); }
    ~Buf() { delete[] p; }
    Buf(const Buf&) = delete;
};
// exact-size heap copy WITH terminator, for const char* overloads (only for NUL-free strings)
struct CBuf {
    char* p;
    explicit CBuf(const Str& s) : p(new char[s.size() + 1]) {
        memcpy(p, s.data(), s.size());
        p[s.size()] = 0;
    }
    ~CBuf() { delete[] p; }
    CBuf(const CBuf&) = delete;
};
inline bool nul_free(const Str& s) { return s.find('\0') == npos; }

// ---------------------------------------------------------------------------------------------
// a case = list of strings + list of integers; replay string "<family>:<hex>,<hex>;<n>,<n>"

struct Case {
    SVec s;
    std::vector<long long> n;
};

inline Str enc_case(const char* fam, const Case& c) {
    Str r = fam;
    r += ':';
    for (size_t i = 0; i < c.s.size(); ++i) {
        if (i) r += ',';
        r += hex(c.s[i]);
    }
    r += ';';
    for (size_t i = 0; i < c.n.size(); ++i) {
        if (i) r += ',';
        r += vh::fmt("%lld", c.n[i]);
    }
    return r;
}
inline bool dec_case(const Str& r, Str* fam, Case* c) {
    size_t a = r.find(':'), b = r.rfind(';');
    if (a == npos || b == npos || b < a) return false;
    *fam = r.substr(0, a);
    Str ss = r.substr(a + 1, b - a - 1), ns = r.substr(b + 1);
    c->s.clear();
    c->n.clear();
    if (!ss.empty()) {
        size_t p = 0;
        for (;;) {
            size_t q = ss.find(',', p);
            c->s.push_back(unhex(ss.substr(p, q == npos ? npos : q - p)));
            if (q == npos) break;
            p = q + 1;
        }
    }
    if (!ns.empty()) {
        size_t p = 0;
        for (;;) {
            size_t q = ns.find(',', p);
            c->n.push_back(atoll(ns.substr(p, q == npos ? npos : q - p).c_str()));
            if (q == npos) break;
            p = q + 1;
        }
    }
    return true;
}
inline Str describe(const Case& c) {
    Str o;
    for (size_t i = 0; i < c.s.size(); ++i) o += (i ? "," : "") + Q(c.s[i]);
    if (!c.n.empty()) {
        o += " n=";
        for (size_t i = 0; i < c.n.size(); ++i) o += (i ? "," : "") + I(c.n[i]);
    }
    return o;
}

struct Family {
    const char* name;
    uint64_t count;
    std::function<Case(uint64_t)> decode;  // local id -> case
    std::function<void(const Case&)> run;
    const char* what;  // one-line description of the enumerated space
};

// ---------------------------------------------------------------------------------------------
// comparison core

inline unsigned long long n_cmp = 0;  // real tlx calls compared in the current case
inline Str g_replay;
inline const Case* g_case = nullptr;

template <class F>
inline Str guard(F f) {
    try {
        return f();
    } catch (const std::runtime_error&) {
        return "throw:runtime_error";
    } catch (const std::logic_error&) {  // length_error, out_of_range, invalid_argument
        return "throw:logic_error";
    } catch (const std::bad_alloc&) {
        return "throw:bad_alloc";
    } catch (const std::exception&) {
        return "throw:exception";
    }
}

inline void report(const char* op, const char* oracle, const Str& what, const Str& rt, const Str& rr) {
    vh::fail(Str(op) + "/" + oracle, g_replay,
             vh::fmt("input %s | %s: tlx=%s ref=%s", g_case ? describe(*g_case).c_str() : "?", what.c_str(),
                     rt.c_str(), rr.c_str()));
}

// op = tlx function (+ overload), oracle = kind of reference; signature "<op>/<oracle>".
// TLXEXPR is evaluated under an exception guard (an exception becomes the result "throw:<kind>").
#define C19_CHECK(op, oracle, what, TLXEXPR, REFEXPR)                          \
    do {                                                                       \
        vh::at_op(op);                                                         \
        ::c19::Str rt_ = ::c19::guard([&]() -> ::c19::Str { return TLXEXPR; }); \
        ::c19::Str rr_ = (REFEXPR);                                            \
        ++::c19::n_cmp;                                                        \
        if (rt_ != rr_) ::c19::report(op, oracle, ::c19::Str(what), rt_, rr_);  \
    } while (0)

// distinct observed outcomes (cheap guard in front of vh::outcome)
inline bool g_seen[32][64];
#define C19_OUTCOME(fam, k, TEXT)                                     \
    do {                                                              \
        int k_ = (int)(k);                                            \
        if (k_ > 63) k_ = 63;                                         \
        if (!::c19::g_seen[fam][k_]) {                                \
            ::c19::g_seen[fam][k_] = true;                            \
            vh::outcome(TEXT);                                        \
        }                                                             \
    } while (0)

// independent ASCII case folding (no locale): the reference for everything "_icase"
inline unsigned char ref_lower(unsigned char c) { return (c >= 'A' && c <= 'Z') ? (unsigned char)(c + 32) : c; }
inline unsigned char ref_upper(unsigned char c) { return (c >= 'a' && c <= 'z') ? (unsigned char)(c - 32) : c; }

void register_codec_families(std::vector<Family>& F, bool thorough);
void register_helper_families(std::vector<Family>& F, bool thorough);

}  // namespace c19
