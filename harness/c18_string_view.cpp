// C18 — tlx::StringView vs std::string_view, bounded exhaustive enumeration (E3).
//
// Case id = (haystack, needle) pair over alphabet {0x00,'a','b',0x80}; inside a case every
// query method is called with every pos / n argument from ARGS(|h|) and compared with
// std::string_view on the same bytes.  Calls are restricted to where std::string_view is
// defined (no remove_prefix(n > size), no front()/back() on empty, operator[] in range,
// const char* overloads only with NUL-free needles).
// Family B (separate, few cases): calls where std::string_view throws but a tlx overload
// declared noexcept would terminate the process — each runs in its own crash-isolated case.
#include <tlx/container/string_view.hpp>

#include <string_view>

#include "common/vharness.hpp"

using tlx::StringView;
typedef std::string_view SV;
static const size_t npos = std::string::npos;

static const unsigned char ALPHA[4] = {0x00, 'a', 'b', 0x80};

static std::vector<std::string> all_strings(int maxlen) {
    std::vector<std::string> r;
    r.push_back("");
    size_t from = 0;
    for (int l = 1; l <= maxlen; ++l) {
        size_t to = r.size();
        for (size_t i = from; i < to; ++i)
            for (unsigned char c : ALPHA) r.push_back(r[i] + (char)c);
        from = to;
    }
    return r;
}

static std::string hex(const std::string& s) {
    std::string o;
    for (unsigned char c : s) o += vh::fmt("%02x", c);
    return o.empty() ? "-" : o;
}
static std::string unhex(const std::string& s) {
    std::string o;
    if (s == "-") return o;
    for (size_t i = 0; i + 1 < s.size(); i += 2) o += (char)strtol(s.substr(i, 2).c_str(), nullptr, 16);
    return o;
}

// exact-size heap copy (no terminator): an over-read is an ASan report
struct Buf {
    char* p;
    size_t n;
    explicit Buf(const std::string& s) : p(new char[s.size() ? s.size() : 1]), n(s.size()) {
        memcpy(p, s.data(), n);
    }
    ~Buf() { delete[] p; }
    Buf(const Buf&) = delete;
};

static int sgn(long long v) { return v < 0 ? -1 : v > 0 ? 1 : 0; }

static unsigned long long n_cmp = 0, n_calls = 0;
static std::string g_case;

template <class F>
static std::string run(F f) {
    try {
        return f();
    } catch (const std::out_of_range&) {
        return "throw:out_of_range";
    } catch (const std::exception&) {
        return "throw:other";
    }
}

#define CMP(method, argdesc, TLXEXPR, STDEXPR)                                              \
    do {                                                                                    \
        vh::at_op(method);                                                                  \
        std::string rt = run([&]() -> std::string { return TLXEXPR; });                     \
        std::string rs = run([&]() -> std::string { return STDEXPR; });                     \
        ++n_cmp;                                                                            \
        if (rt != rs)                                                                       \
            vh::fail(std::string(method) + "/mismatch", g_case,                             \
                     vh::fmt("%s %s: tlx=%s std=%s", g_case.c_str(), std::string(argdesc).c_str(), \
                             rt.c_str(), rs.c_str()));                                      \
    } while (0)

static std::string S(size_t v) { return v == npos ? "npos" : vh::fmt("%zu", v); }
static std::string I(int v) { return vh::fmt("%d", v); }
static std::string B(bool v) { return v ? "true" : "false"; }
static std::string V(SV v) { return "sv:" + hex(std::string(v)); }
static std::string VT(StringView v) { return "sv:" + hex(std::string(v.data(), v.size())); }

static void one_pair(const std::string& hs, const std::string& ns) {
    g_case = hex(hs) + "|" + hex(ns);
    vh::at_replay(g_case);
    Buf hb(hs), nb(ns);
    const StringView th(hb.p, hb.n), tn(nb.p, nb.n);
    const SV sh(hb.p, hb.n), sn(nb.p, nb.n);
    bool nul_free = ns.find('\0') == std::string::npos;
    std::string ncs = ns;  // NUL-terminated copy for const char* overloads
    const char* nc = ncs.c_str();

    std::vector<size_t> A;
    for (size_t i = 0; i <= hs.size() + 2; ++i) A.push_back(i);
    A.push_back(npos - 1);
    A.push_back(npos);
    std::vector<size_t> AN;  // arguments relative to the needle
    for (size_t i = 0; i <= ns.size() + 1; ++i) AN.push_back(i);
    AN.push_back(npos);

    // --- no-argument queries
    CMP("size", "", S(th.size()), S(sh.size()));
    CMP("length", "", S(th.length()), S(sh.length()));
    CMP("empty", "", B(th.empty()), B(sh.empty()));
    CMP("to_string", "", hex(th.to_string()), hex(std::string(sh)));
    CMP("operator_string", "", hex(static_cast<std::string>(th)), hex(std::string(sh)));
    CMP("begin_end", "", hex(std::string(th.begin(), th.end())), hex(std::string(sh.begin(), sh.end())));
    CMP("rbegin_rend", "", hex(std::string(th.rbegin(), th.rend())), hex(std::string(sh.rbegin(), sh.rend())));
    CMP("to_std_string_view", "", V(static_cast<SV>(th)), V(sh));
    CMP("from_std_string_view", "", VT(StringView(sh)), V(sh));
    if (!hs.empty()) {
        CMP("front", "", I((unsigned char)th.front()), I((unsigned char)sh.front()));
        CMP("back", "", I((unsigned char)th.back()), I((unsigned char)sh.back()));
    }
    for (size_t i = 0; i < hs.size(); ++i)
        CMP("operator[]", S(i), I((unsigned char)th[i]), I((unsigned char)sh[i]));
    for (size_t p : A) CMP("at", S(p), I((unsigned char)th.at(p)), I((unsigned char)sh.at(p)));

    // --- comparison
    CMP("compare(sv)", "", I(sgn(th.compare(tn))), I(sgn(sh.compare(sn))));
    CMP("operator==", "", B(th == tn), B(sh == sn));
    CMP("operator!=", "", B(th != tn), B(sh != sn));
    CMP("operator<", "", B(th < tn), B(sh < sn));
    CMP("operator<=", "", B(th <= tn), B(sh <= sn));
    CMP("operator>", "", B(th > tn), B(sh > sn));
    CMP("operator>=", "", B(th >= tn), B(sh >= sn));
    {
        // view vs std::string, both orders
        const std::string& str = ns;
        CMP("operator==(sv,string)", "", B(th == str), B(sh == SV(str)));
        CMP("operator==(string,sv)", "", B(str == th), B(SV(str) == sh));
        CMP("operator!=(sv,string)", "", B(th != str), B(sh != SV(str)));
        CMP("operator!=(string,sv)", "", B(str != th), B(SV(str) != sh));
        CMP("operator<(sv,string)", "", B(th < str), B(sh < SV(str)));
        CMP("operator<(string,sv)", "", B(str < th), B(SV(str) < sh));
        CMP("operator>(sv,string)", "", B(th > str), B(sh > SV(str)));
        CMP("operator>(string,sv)", "", B(str > th), B(SV(str) > sh));
        CMP("operator<=(sv,string)", "", B(th <= str), B(sh <= SV(str)));
        CMP("operator<=(string,sv)", "", B(str <= th), B(SV(str) <= sh));
        CMP("operator>=(sv,string)", "", B(th >= str), B(sh >= SV(str)));
        CMP("operator>=(string,sv)", "", B(str >= th), B(SV(str) >= sh));
    }
    if (nul_free) {
        CMP("compare(cstr)", "", I(sgn(th.compare(nc))), I(sgn(sh.compare(nc))));
        CMP("operator==(sv,cstr)", "", B(th == nc), B(sh == nc));
        CMP("operator==(cstr,sv)", "", B(nc == th), B(nc == sh));
        CMP("operator!=(sv,cstr)", "", B(th != nc), B(sh != nc));
        CMP("operator!=(cstr,sv)", "", B(nc != th), B(nc != sh));
        CMP("operator<(sv,cstr)", "", B(th < nc), B(sh < nc));
        CMP("operator<(cstr,sv)", "", B(nc < th), B(nc < sh));
        CMP("operator>(sv,cstr)", "", B(th > nc), B(sh > nc));
        CMP("operator>(cstr,sv)", "", B(nc > th), B(nc > sh));
        CMP("operator<=(sv,cstr)", "", B(th <= nc), B(sh <= nc));
        CMP("operator<=(cstr,sv)", "", B(nc <= th), B(nc <= sh));
        CMP("operator>=(sv,cstr)", "", B(th >= nc), B(sh >= nc));
        CMP("operator>=(cstr,sv)", "", B(nc >= th), B(nc >= sh));
    }
    for (size_t p1 : A) {
        if (p1 > hs.size()) continue;  // pos1 out of range: family B
        for (size_t n1 : A) {
            std::string d = S(p1) + "," + S(n1);
            CMP("compare(pos,n,sv)", d, I(sgn(th.compare(p1, n1, tn))), I(sgn(sh.compare(p1, n1, sn))));
            if (nul_free)
                CMP("compare(pos,n,cstr)", d, I(sgn(th.compare(p1, n1, nc))), I(sgn(sh.compare(p1, n1, nc))));
            for (size_t n2 : AN) {
                if (n2 <= ns.size())
                    CMP("compare(pos,n,ptr,n2)", d + "," + S(n2), I(sgn(th.compare(p1, n1, nb.p, n2))),
                        I(sgn(sh.compare(p1, n1, nb.p, n2))));
                for (size_t p2 : AN)
                    CMP("compare(pos,n,sv,pos2,n2)", d + "," + S(p2) + "," + S(n2),
                        I(sgn(th.compare(p1, n1, tn, p2, n2))), I(sgn(sh.compare(p1, n1, sn, p2, n2))));
            }
        }
    }

    // --- starts/ends with (C++20 semantic written out; libstdc++ has them under -std=c++20 only)
    CMP("starts_with(sv)", "", B(th.starts_with(tn)), B(sh.size() >= sn.size() && sh.substr(0, sn.size()) == sn));
    CMP("ends_with(sv)", "", B(th.ends_with(tn)),
        B(sh.size() >= sn.size() && sh.substr(sh.size() - sn.size()) == sn));
    for (unsigned char c : ALPHA) {
        CMP("starts_with(char)", I(c), B(th.starts_with((char)c)), B(!sh.empty() && sh.front() == (char)c));
        CMP("ends_with(char)", I(c), B(th.ends_with((char)c)), B(!sh.empty() && sh.back() == (char)c));
    }

    // --- find family
    for (size_t p : A) {
        std::string d = S(p);
        CMP("find(sv,pos)", d, S(th.find(tn, p)), S(sh.find(sn, p)));
        CMP("rfind(sv,pos)", d, S(th.rfind(tn, p)), S(sh.rfind(sn, p)));
        CMP("find_first_of(sv,pos)", d, S(th.find_first_of(tn, p)), S(sh.find_first_of(sn, p)));
        CMP("find_last_of(sv,pos)", d, S(th.find_last_of(tn, p)), S(sh.find_last_of(sn, p)));
        CMP("find_first_not_of(sv,pos)", d, S(th.find_first_not_of(tn, p)), S(sh.find_first_not_of(sn, p)));
        CMP("find_last_not_of(sv,pos)", d, S(th.find_last_not_of(tn, p)), S(sh.find_last_not_of(sn, p)));
        for (size_t n : AN) {
            if (n > ns.size()) continue;
            std::string d2 = d + "," + S(n);
            CMP("find(ptr,pos,n)", d2, S(th.find(nb.p, p, n)), S(sh.find(nb.p, p, n)));
            CMP("rfind(ptr,pos,n)", d2, S(th.rfind(nb.p, p, n)), S(sh.rfind(nb.p, p, n)));
            CMP("find_first_of(ptr,pos,n)", d2, S(th.find_first_of(nb.p, p, n)), S(sh.find_first_of(nb.p, p, n)));
            CMP("find_last_of(ptr,pos,n)", d2, S(th.find_last_of(nb.p, p, n)), S(sh.find_last_of(nb.p, p, n)));
            CMP("find_first_not_of(ptr,pos,n)", d2, S(th.find_first_not_of(nb.p, p, n)),
                S(sh.find_first_not_of(nb.p, p, n)));
            CMP("find_last_not_of(ptr,pos,n)", d2, S(th.find_last_not_of(nb.p, p, n)),
                S(sh.find_last_not_of(nb.p, p, n)));
        }
        if (nul_free) {
            CMP("find(cstr,pos)", d, S(th.find(nc, p)), S(sh.find(nc, p)));
            CMP("rfind(cstr,pos)", d, S(th.rfind(nc, p)), S(sh.rfind(nc, p)));
            CMP("find_first_of(cstr,pos)", d, S(th.find_first_of(nc, p)), S(sh.find_first_of(nc, p)));
            CMP("find_last_of(cstr,pos)", d, S(th.find_last_of(nc, p)), S(sh.find_last_of(nc, p)));
            CMP("find_first_not_of(cstr,pos)", d, S(th.find_first_not_of(nc, p)), S(sh.find_first_not_of(nc, p)));
            CMP("find_last_not_of(cstr,pos)", d, S(th.find_last_not_of(nc, p)), S(sh.find_last_not_of(nc, p)));
        }
        if (ns.size() <= 1)  // char overloads: once per haystack is enough (needle "" / 1 char)
            for (unsigned char c : ALPHA) {
                std::string d2 = d + ",c=" + I(c);
                CMP("find(char,pos)", d2, S(th.find((char)c, p)), S(sh.find((char)c, p)));
                CMP("rfind(char,pos)", d2, S(th.rfind((char)c, p)), S(sh.rfind((char)c, p)));
                CMP("find_first_of(char,pos)", d2, S(th.find_first_of((char)c, p)), S(sh.find_first_of((char)c, p)));
                CMP("find_last_of(char,pos)", d2, S(th.find_last_of((char)c, p)), S(sh.find_last_of((char)c, p)));
                CMP("find_first_not_of(char,pos)", d2, S(th.find_first_not_of((char)c, p)),
                    S(sh.find_first_not_of((char)c, p)));
                CMP("find_last_not_of(char,pos)", d2, S(th.find_last_not_of((char)c, p)),
                    S(sh.find_last_not_of((char)c, p)));
            }
    }
    // default-argument forms
    CMP("find(sv)", "", S(th.find(tn)), S(sh.find(sn)));
    CMP("rfind(sv)", "", S(th.rfind(tn)), S(sh.rfind(sn)));
    CMP("find_first_of(sv)", "", S(th.find_first_of(tn)), S(sh.find_first_of(sn)));
    CMP("find_last_of(sv)", "", S(th.find_last_of(tn)), S(sh.find_last_of(sn)));
    CMP("find_first_not_of(sv)", "", S(th.find_first_not_of(tn)), S(sh.find_first_not_of(sn)));
    CMP("find_last_not_of(sv)", "", S(th.find_last_not_of(tn)), S(sh.find_last_not_of(sn)));

    if (!ns.empty()) return;  // the remaining queries do not involve the needle: once per haystack
    // --- substr / copy / remove_prefix / remove_suffix
    for (size_t p : A) {
        CMP("substr(pos)", S(p), VT(th.substr(p)), V(sh.substr(p)));
        for (size_t n : A) {
            std::string d = S(p) + "," + S(n);
            CMP("substr(pos,n)", d, VT(th.substr(p, n)), V(sh.substr(p, n)));
            // copy into a canary-filled buffer of exactly the bytes that may be written
            auto do_copy = [&](auto& view) -> std::string {
                size_t room = (p <= hs.size()) ? std::min(n, hs.size() - p) : 0;
                std::vector<char> buf(room + 4, '#');
                // heap block of exactly room bytes so that an over-long copy is an ASan error
                char* dst = new char[room ? room : 1];
                memset(dst, '#', room ? room : 1);
                std::string r;
                try {
                    size_t got = view.copy(dst, n, p);
                    r = S(got) + ":" + hex(std::string(dst, room));
                } catch (...) {
                    delete[] dst;
                    throw;
                }
                delete[] dst;
                return r;
            };
            CMP("copy(dst,n,pos)", d, do_copy(th), do_copy(sh));
        }
    }
    for (size_t n = 0; n <= hs.size(); ++n) {
        CMP("remove_prefix", S(n), [&] { StringView t = th; t.remove_prefix(n); return VT(t); }(),
            [&] { SV s = sh; s.remove_prefix(n); return V(s); }());
        CMP("remove_suffix", S(n), [&] { StringView t = th; t.remove_suffix(n); return VT(t); }(),
            [&] { SV s = sh; s.remove_suffix(n); return V(s); }());
        // copy with default pos
        CMP("copy(dst,n)", S(n), [&] { std::string b(n, '#'); size_t g = th.copy(&b[0], n); return S(g) + ":" + hex(b); }(),
            [&] { std::string b(n, '#'); size_t g = sh.copy(&b[0], n); return S(g) + ":" + hex(b); }());
    }
    CMP("swap", "", ([&] { StringView a = th; StringView b = tn; a.swap(b); return VT(a) + VT(b); }()),
        ([&] { SV a = sh; SV b = sn; a.swap(b); return V(a) + V(b); }()));
    CMP("clear", "", [&] { StringView a = th; a.clear(); return S(a.size()) + B(a.empty()); }(), std::string("0true"));
}

// Family B: out-of-range pos1 in the compare overloads; std::string_view throws std::out_of_range.
// One call per case (a noexcept overload that throws terminates the process).
static void family_b(uint64_t id, const std::string& hs, const std::string& ns) {
    g_case = vh::fmt("B%llu|", (unsigned long long)id) + hex(hs) + "|" + hex(ns);
    vh::at_replay(g_case);
    Buf hb(hs), nb(ns);
    const StringView th(hb.p, hb.n), tn(nb.p, nb.n);
    const SV sh(hb.p, hb.n), sn(nb.p, nb.n);
    size_t p1 = hs.size() + 1;
    std::string ncs = ns;
    const char* nc = ncs.c_str();
    switch (id % 5) {
    case 0: CMP("compare(pos,n,sv)", "oob", I(sgn(th.compare(p1, 1, tn))), I(sgn(sh.compare(p1, 1, sn)))); break;
    case 1: CMP("compare(pos,n,sv,pos2,n2)", "oob", I(sgn(th.compare(p1, 1, tn, 0, 1))), I(sgn(sh.compare(p1, 1, sn, 0, 1)))); break;
    case 2: CMP("compare(pos,n,cstr)", "oob", I(sgn(th.compare(p1, 1, nc))), I(sgn(sh.compare(p1, 1, nc)))); break;
    case 3: CMP("compare(pos,n,ptr,n2)", "oob", I(sgn(th.compare(p1, 1, nb.p, nb.n))), I(sgn(sh.compare(p1, 1, nb.p, nb.n)))); break;
    case 4: CMP("compare(pos,n,sv,pos2,n2)", "oob2", I(sgn(th.compare(0, 1, tn, ns.size() + 1, 1))), I(sgn(sh.compare(0, 1, sn, ns.size() + 1, 1)))); break;
    }
}

int main(int argc, char** argv) {
    vh::init(argc, argv);
    int HL = vh::args().thorough() ? 4 : 3, NL = vh::args().thorough() ? 3 : 2;
    HL = vh::args().opt_int("hl", HL);
    NL = vh::args().opt_int("nl", NL);
    std::vector<std::string> H = all_strings(HL), N = all_strings(NL);
    const std::vector<std::string> BH = {"", "a", std::string("a\0", 2)};
    uint64_t npairs = (uint64_t)H.size() * N.size();
    uint64_t nB = BH.size() * 5;
    auto run_case = [&](uint64_t c) {
        if (c < nB) {
            family_b(c, BH[c / 5], "a");
        } else {
            uint64_t q = c - nB;
            one_pair(H[q / N.size()], N[q % N.size()]);
        }
        vh::stat_add("cases");
        vh::shm()->stat_val[vh::stat_slot("comparisons", false)] += n_cmp;
        n_cmp = 0;
    };
    if (vh::args().has_replay) {
        return vh::replay_one([&](const std::string& r) {
            std::string s = r;
            if (s[0] == 'B') {
                size_t bar = s.find('|');
                uint64_t id = strtoull(s.substr(1, bar - 1).c_str(), nullptr, 10);
                s = s.substr(bar + 1);
                size_t b2 = s.find('|');
                family_b(id, unhex(s.substr(0, b2)), unhex(s.substr(b2 + 1)));
            } else {
                size_t b2 = s.find('|');
                one_pair(unhex(s.substr(0, b2)), unhex(s.substr(b2 + 1)));
            }
        });
    }
    if (vh::args().shard == 0) {
        vh::sample(vh::fmt("haystack=%s needle=%s with pos,n in {0..|h|+2,npos-1,npos}: ~90 query forms vs std::string_view",
                           hex(H[H.size() / 2]).c_str(), hex(N[N.size() / 2]).c_str()));
        vh::sample("family B: compare(pos1 > size, ...) — std throws std::out_of_range");
    }
    vh::run_cases(nB + npairs, run_case);
    return vh::finish();
}
