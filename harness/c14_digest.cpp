// C14 — MD5 / SHA-1 / SHA-256 / SHA-512 and SipHash-2-4: bounded exhaustive enumeration (E3) with a
// state-machine (confluence) argument for chunking independence.
//
// Section O (one-shot): every message of the families g: b[i]=(31*i+7*L+1) mod 256, z: all 0x00,
//   f: all 0xFF for every length 0..maxlen, plus long messages of family g.  Every public way to get
//   a digest (class ctor(ptr,size)/ctor(string_view)/process()+finalize()/digest()/digest_hex()/
//   digest_hex_uc(), xxx_hex / xxx_hex_uc with both argument forms) is compared with the value
//   computed by Python hashlib (table written by ref/digests.py, path in option table=...).
//   Hex forms are additionally compared with the hex encoding (written here) of tlx's raw digest.
//   A digest object is finalized at most once (finalize mutates the object; the doc says
//   "finalize computation").
// Section C (chunking): stream S[i]=(31*i+7*N+1) mod 256, N=2*block+9.  For every a,n1,n2 with
//   a+n1+n2<=N: internal state (state_, length_, curlen_, buf_[0..curlen_)) after
//   process(a);process(n1);process(n2) == state after process(a);process(n1+n2); the state is
//   compared with the obvious model (curlen_ = t mod block, length_ = 8*(t - curlen_),
//   buf_ = last curlen_ bytes); digest of each three-part composition == tlx one-shot digest of the
//   prefix, which itself is compared with hashlib (table line "P").
//   Private members are read thanks to -fno-access-control (harness TU only reads them).
// Section S (SipHash): siphash_plain, siphash_sse2 (when __SSE2__, same condition as the header),
//   siphash(key,msg,len) against sip_ref() below — written from the definition in the SipHash paper
//   (Aumasson, Bernstein 2012, section 2), validated against the paper's 64 reference vectors
//   (a failure of that validation is a harness ERROR, not a finding).  Inputs: 147 keys x 2 byte
//   families x length 0..80 x buffer offset 0..15 in a 16-byte aligned exact-size heap block
//   (an over-read is an ASan report).  Extra cases: the 64 official vectors straight against tlx,
//   default-key overloads, lengths 81..600 (len mod 256 wraps) for the paper key and the all-ones key.
#include <tlx/digest/md5.hpp>
#include <tlx/digest/sha1.hpp>
#include <tlx/digest/sha256.hpp>
#include <tlx/digest/sha512.hpp>
#include <tlx/siphash.hpp>

#include <array>
#include <map>

#include "common/vharness.hpp"

typedef std::uint8_t u8;
typedef std::uint32_t u32;
typedef std::uint64_t u64;

// ---------------------------------------------------------------------------------------------
// helpers

static std::string hex_lc(const void* p, size_t n) {
    static const char* d = "0123456789abcdef";
    std::string o;
    for (size_t i = 0; i < n; ++i) {
        unsigned c = static_cast<const u8*>(p)[i];
        o += d[c >> 4];
        o += d[c & 15];
    }
    return o;
}
static std::string hex_lc(const std::string& s) { return hex_lc(s.data(), s.size()); }
static std::string to_upper(std::string s) {
    for (auto& c : s)
        if (c >= 'a' && c <= 'f') c = c - 'a' + 'A';
    return s;
}
static std::string unhex(const std::string& s) {
    std::string o;
    for (size_t i = 0; i + 1 < s.size(); i += 2) o += (char)strtol(s.substr(i, 2).c_str(), nullptr, 16);
    return o;
}
static std::vector<std::string> split(const std::string& s, char sep) {
    std::vector<std::string> r;
    size_t p = 0;
    for (;;) {
        size_t q = s.find(sep, p);
        if (q == std::string::npos) {
            r.push_back(s.substr(p));
            return r;
        }
        r.push_back(s.substr(p, q - p));
        p = q + 1;
    }
}

// exact-size heap block: an over-read by tlx is an ASan report
struct Buf {
    u8* p;
    size_t n;
    explicit Buf(size_t n_) : p(static_cast<u8*>(malloc(n_ ? n_ : 1))), n(n_) {}
    ~Buf() { free(p); }
    Buf(const Buf&) = delete;
    const char* c() const { return reinterpret_cast<const char*>(p); }
};

static void fill_family(u8* p, size_t L, char fam, size_t shift) {
    switch (fam) {
    case 'g':
        for (size_t i = 0; i < L; ++i) p[i] = (u8)((31 * i + 7 * shift + 1) & 255);
        break;
    case 'z': memset(p, 0x00, L); break;
    case 'f': memset(p, 0xFF, L); break;
    }
}

static std::set<std::string> g_outcomes;
static void outcome(const std::string& s) {
    if (g_outcomes.insert(s).second) vh::outcome(s);
}

static long long n_cmp = 0;  // real tlx calls whose result was compared (flushed per case)
static long long n_inputs = 0;
static long long n_oneshot = 0, n_triples = 0, n_sip = 0;  // per-section input counters

// expected-value table
static std::map<std::string, std::string> g_table;
static bool g_have_table = false;
static bool load_table(const std::string& path) {
    FILE* f = fopen(path.c_str(), "r");
    if (!f) return false;
    char line[512];
    while (fgets(line, sizeof line, f)) {
        std::string s = line;
        while (!s.empty() && (s.back() == '\n' || s.back() == '\r')) s.pop_back();
        size_t sp = s.rfind(' ');
        if (sp == std::string::npos) continue;
        g_table[s.substr(0, sp)] = s.substr(sp + 1);
    }
    fclose(f);
    return true;
}
static bool g_missing_reported = false;
static std::string expected(const std::string& key) {
    auto it = g_table.find(key);
    if (it == g_table.end()) {
        if (!g_missing_reported) vh::out_line("ERROR expected-value table has no entry '" + key + "'");
        g_missing_reported = true;
        return "";
    }
    return it->second;
}

// ---------------------------------------------------------------------------------------------
// digest traits

template <class D>
struct Fn;
#define C14_FN(CLS, NAME, LC, UC)                                                          \
    template <>                                                                            \
    struct Fn<tlx::CLS> {                                                                  \
        static const char* name() { return NAME; }                                         \
        static std::string hex(const void* p, u32 n) { return tlx::LC(p, n); }             \
        static std::string hex(tlx::string_view s) { return tlx::LC(s); }                  \
        static std::string hex_uc(const void* p, u32 n) { return tlx::UC(p, n); }          \
        static std::string hex_uc(tlx::string_view s) { return tlx::UC(s); }               \
    };
C14_FN(MD5, "md5", md5_hex, md5_hex_uc)
C14_FN(SHA1, "sha1", sha1_hex, sha1_hex_uc)
C14_FN(SHA256, "sha256", sha256_hex, sha256_hex_uc)
C14_FN(SHA512, "sha512", sha512_hex, sha512_hex_uc)

static const char* ALGO[4] = {"md5", "sha1", "sha256", "sha512"};
static const unsigned BLOCK[4] = {64, 64, 64, 128};
static int algo_index(const std::string& a) {
    for (int i = 0; i < 4; ++i)
        if (a == ALGO[i]) return i;
    return -1;
}

// ---------------------------------------------------------------------------------------------
// Section O: one-shot

template <class D>
static void oneshot(char fam, size_t L, const std::string& exp_lc) {
    const std::string A = Fn<D>::name();
    const std::string sig = A + "/oneshot", sigh = A + "/hexform";
    const std::string rp = "O|" + A + "|" + std::string(1, fam) + "|" + std::to_string(L) + "|" + exp_lc;
    vh::at(sig.c_str(), rp);
    if (exp_lc.size() != 2 * D::kDigestLength) {
        vh::out_line("ERROR bad expected value for " + rp);
        return;
    }
    const std::string exp_raw = unhex(exp_lc), exp_uc = to_upper(exp_lc);
    Buf m(L);
    fill_family(m.p, L, fam, L);
    const u32 n = (u32)L;
    tlx::string_view sv(m.c(), L);
    const bool is_long = L > 4096;

    auto cmp = [&](const char* form, const std::string& got, const std::string& want, bool show_hex) {
        ++n_cmp;
        if (got != want)
            vh::fail(sig, rp, vh::fmt("%s fam=%c L=%zu via %s: tlx=%s hashlib=%s", A.c_str(), fam, L, form,
                                      (show_hex ? hex_lc(got) : got).c_str(), (show_hex ? hex_lc(want) : want).c_str()));
    };
    // raw forms
    std::string raw1 = D(m.p, n).digest();
    cmp("D(ptr,size).digest()", raw1, exp_raw, true);
    std::string raw2 = D(sv).digest();
    cmp("D(string_view).digest()", raw2, exp_raw, true);
    {
        D d;
        d.process(m.p, n);
        Buf out(D::kDigestLength);  // exactly kDigestLength bytes: finalize must not write more
        d.finalize(out.p);
        cmp("process(ptr,size);finalize()", std::string(out.c(), out.n), exp_raw, true);
    }
    {
        D d;
        d.process(sv);
        cmp("process(string_view);digest()", d.digest(), exp_raw, true);
    }
    // hex forms
    std::string h1 = D(m.p, n).digest_hex();
    cmp("D(ptr,size).digest_hex()", h1, exp_lc, false);
    std::string h2 = D(sv).digest_hex_uc();
    cmp("D(string_view).digest_hex_uc()", h2, exp_uc, false);
    std::string h3 = Fn<D>::hex(m.p, n);
    cmp("xxx_hex(ptr,size)", h3, exp_lc, false);
    std::string h4 = Fn<D>::hex(sv);
    cmp("xxx_hex(string_view)", h4, exp_lc, false);
    std::string h5 = Fn<D>::hex_uc(m.p, n);
    cmp("xxx_hex_uc(ptr,size)", h5, exp_uc, false);
    std::string h6 = Fn<D>::hex_uc(sv);
    cmp("xxx_hex_uc(string_view)", h6, exp_uc, false);
    // hex forms against tlx's own raw digest (encoding written here)
    const std::string rl = hex_lc(raw1), ru = to_upper(rl);
    const std::string* lcs[3] = {&h1, &h3, &h4};
    const std::string* ucs[3] = {&h2, &h5, &h6};
    for (auto* h : lcs)
        if (*h != rl) vh::fail(sigh, rp, vh::fmt("%s fam=%c L=%zu: lower-case hex %s != hex(raw digest) %s", A.c_str(), fam, L, h->c_str(), rl.c_str()));
    for (auto* h : ucs)
        if (*h != ru) vh::fail(sigh, rp, vh::fmt("%s fam=%c L=%zu: upper-case hex %s != HEX(raw digest) %s", A.c_str(), fam, L, h->c_str(), ru.c_str()));
    if (L == 0) {
        // default-constructed string_view (nullptr, 0) and an object that never saw process()
        cmp("D(string_view()).digest()", D(tlx::string_view()).digest(), exp_raw, true);
        cmp("D().digest()", D().digest(), exp_raw, true);
        cmp("D(ptr,0).digest_hex()", D(m.p, 0).digest_hex(), exp_lc, false);
    }
    if (is_long) {
        // long message fed in many process() calls of cycling sizes (length_ accumulation)
        static const u32 CH[] = {1, 63, 64, 65, 127, 128, 129, 4093, 1u << 16, 7, 191, 192, 193, 1000};
        D d;
        size_t pos = 0, k = 0;
        while (pos < L) {
            u32 c = CH[k++ % (sizeof CH / sizeof CH[0])];
            if (c > L - pos) c = (u32)(L - pos);
            if (k & 1)
                d.process(m.p + pos, c);
            else
                d.process(tlx::string_view(m.c() + pos, c));
            pos += c;
        }
        ++n_cmp;
        std::string got = d.digest_hex();
        if (got != exp_lc)
            vh::fail(A + "/chunking_long", rp, vh::fmt("%s fam=%c L=%zu fed in chunks of cycling sizes {1,63,64,65,...}: tlx=%s hashlib=%s", A.c_str(), fam, L, got.c_str(), exp_lc.c_str()));
    }
    const unsigned B = sizeof(D::buf_);
    const unsigned pad = B == 128 ? 112 : 56;
    outcome(vh::fmt("%s oneshot: blocks=%s tail%s", A.c_str(), L / B == 0 ? "0" : L / B == 1 ? "1" : "many",
                    (L % B) >= pad ? ">=pad (two-block finalize)" : "<pad (one-block finalize)"));
    ++n_inputs;
    ++n_oneshot;
}

static void oneshot_dispatch(int algo, char fam, size_t L, const std::string& exp) {
    switch (algo) {
    case 0: oneshot<tlx::MD5>(fam, L, exp); break;
    case 1: oneshot<tlx::SHA1>(fam, L, exp); break;
    case 2: oneshot<tlx::SHA256>(fam, L, exp); break;
    case 3: oneshot<tlx::SHA512>(fam, L, exp); break;
    }
}

// ---------------------------------------------------------------------------------------------
// Section C: chunking by confluence of single splits

template <class D>
static std::string state_str(const D& d) {
    std::string s = vh::fmt("len=%llu cur=%u st=", (unsigned long long)d.length_, (unsigned)d.curlen_);
    s += hex_lc(d.state_, sizeof d.state_);
    s += " buf=";
    s += hex_lc(d.buf_, d.curlen_ <= sizeof d.buf_ ? d.curlen_ : sizeof d.buf_);
    return s;
}
template <class D>
static bool state_eq(const D& x, const D& y) {
    if (x.length_ != y.length_ || x.curlen_ != y.curlen_) return false;
    if (memcmp(x.state_, y.state_, sizeof x.state_) != 0) return false;
    if (x.curlen_ > sizeof x.buf_) return false;
    return memcmp(x.buf_, y.buf_, x.curlen_) == 0;
}

// one case = (algo, a); only_n1/only_n2 >= 0 restrict to one triple (replay)
template <class D>
static void chunk_case(unsigned a, int only_n1, int only_n2) {
    const std::string A = Fn<D>::name();
    const unsigned B = sizeof(D::buf_);
    const unsigned N = 2 * B + 9;
    const std::string sig = A + "/chunking", sigm = A + "/statemodel", sigo = A + "/oneshot";
    Buf S(N);
    fill_family(S.p, N, 'g', N);
    auto RP = [&](unsigned n1, unsigned n2) { return vh::fmt("C|%s|%u|%u|%u", A.c_str(), a, n1, n2); };
    vh::at(sig.c_str(), RP(0, 0));

    auto model = [&](const D& d, unsigned t, const std::string& rp, const char* how) {
        unsigned cur = t % B;
        bool ok = d.curlen_ == cur && d.length_ == 8ull * (t - cur) && memcmp(d.buf_, S.p + (t - cur), cur) == 0;
        if (!ok)
            vh::fail(sigm, rp, vh::fmt("%s after %s (%u bytes total): %s; model: len=%llu cur=%u buf=%s", A.c_str(), how, t,
                                       state_str(d).c_str(), 8ull * (t - cur), cur, hex_lc(S.p + (t - cur), cur).c_str()));
    };

    // tlx one-shot digests of every prefix t in a..N (checked against hashlib when the table is loaded)
    std::vector<std::string> one(N + 1);
    for (unsigned t = a; t <= N; ++t) {
        one[t] = D(S.p, t).digest();
        if (g_have_table && only_n1 < 0) {
            std::string e = expected(vh::fmt("P %s %u", A.c_str(), t));
            ++n_cmp;
            if (hex_lc(one[t]) != e)
                vh::fail(sigo, vh::fmt("P|%s|%u|%s", A.c_str(), t, e.c_str()),
                         vh::fmt("%s one-shot digest of %u-byte prefix of the chunking stream: tlx=%s hashlib=%s", A.c_str(), t,
                                 hex_lc(one[t]).c_str(), e.c_str()));
        }
    }

    D base;
    base.process(S.p, a);
    model(base, a, RP(0, 0), "process(a)");
    // s1[m] = state after process(a); process(m)
    std::vector<D> s1;
    s1.reserve(N - a + 1);
    for (unsigned m = 0; a + m <= N; ++m) {
        D d = base;
        if (m & 1)
            d.process(S.p + a, m);
        else
            d.process(tlx::string_view(S.c() + a, m));
        s1.push_back(d);
    }
    for (unsigned n1 = 0; a + n1 <= N; ++n1) {
        if (only_n1 >= 0 && n1 != (unsigned)only_n1) continue;
        for (unsigned n2 = 0; a + n1 + n2 <= N; ++n2) {
            if (only_n2 >= 0 && n2 != (unsigned)only_n2) continue;
            const unsigned t = a + n1 + n2;
            std::string rp = RP(n1, n2);
            vh::at_replay(rp);
            D x = s1[n1];
            x.process(S.p + a + n1, n2);
            const D& y = s1[n1 + n2];
            ++n_cmp;
            if (!state_eq(x, y))
                vh::fail(sig, rp, vh::fmt("%s a=%u n1=%u n2=%u: state after process(a);process(n1);process(n2) = {%s} != state after process(a);process(n1+n2) = {%s}",
                                          A.c_str(), a, n1, n2, state_str(x).c_str(), state_str(y).c_str()));
            model(x, t, rp, "process(a);process(n1);process(n2)");
            ++n_cmp;
            std::string dg = x.digest();  // x is a private copy; finalized once
            if (dg != one[t])
                vh::fail(sig, rp, vh::fmt("%s a=%u n1=%u n2=%u: digest of the three-part composition %s != one-shot digest %s", A.c_str(), a,
                                          n1, n2, hex_lc(dg).c_str(), hex_lc(one[t]).c_str()));
            ++n_inputs;
            ++n_triples;
            // which process() paths ran in the last call (from the documented structure: direct block /
            // buffer fill / fill+flush), to show that the enumeration reaches all of them
            if (n2 > 0) {
                unsigned cur = (a + n1) % B;
                const char* p = cur == 0 ? (n2 >= B ? (n2 % B ? "direct+fill" : "direct") : "fill")
                                         : (cur + n2 < B ? "fill" : (cur + n2 == B ? "fill+flush" : (cur + n2 >= 2 * B ? "fill+flush+direct" : "fill+flush+fill")));
                outcome(vh::fmt("%s process path: %s", A.c_str(), p));
            } else
                outcome(A + " process path: empty chunk");
        }
    }
}

static void chunk_dispatch(int algo, unsigned a, int n1, int n2) {
    switch (algo) {
    case 0: chunk_case<tlx::MD5>(a, n1, n2); break;
    case 1: chunk_case<tlx::SHA1>(a, n1, n2); break;
    case 2: chunk_case<tlx::SHA256>(a, n1, n2); break;
    case 3: chunk_case<tlx::SHA512>(a, n1, n2); break;
    }
}

// one-shot of a prefix of the chunking stream (replay of a "P|..." failure)
template <class D>
static void prefix_replay(unsigned t, const std::string& e) {
    const std::string A = Fn<D>::name();
    const unsigned N = 2 * sizeof(D::buf_) + 9;
    Buf S(N);
    fill_family(S.p, N, 'g', N);
    std::string rp = vh::fmt("P|%s|%u|%s", A.c_str(), t, e.c_str());
    vh::at((A + "/oneshot").c_str(), rp);
    std::string got = hex_lc(D(S.p, t).digest());
    if (got != e) vh::fail(A + "/oneshot", rp, vh::fmt("%s prefix %u: tlx=%s hashlib=%s", A.c_str(), t, got.c_str(), e.c_str()));
}

// ---------------------------------------------------------------------------------------------
// Section S: SipHash-2-4

// Independent reference, written from the paper's definition:
//   k0,k1 = little-endian halves of the key; v0..v3 = k0^"somepseu", k1^"dorandom", k0^"lygenera", k1^"tedbytes";
//   the message is padded with zeros and a final byte (len mod 256) to a multiple of 8 bytes and read as
//   little-endian words m_i; for each word: v3^=m_i, c=2 SipRounds, v0^=m_i; then v2^=0xff, d=4 SipRounds,
//   result v0^v1^v2^v3.
static u64 ref_rotl(u64 x, unsigned r) { return (x << r) | (x >> (64 - r)); }
static u64 ref_le64(const u8* p) {
    u64 r = 0;
    for (int i = 7; i >= 0; --i) r = (r << 8) | p[i];
    return r;
}
static void ref_sipround(u64 v[4]) {
    v[0] += v[1];  v[2] += v[3];
    v[1] = ref_rotl(v[1], 13);  v[3] = ref_rotl(v[3], 16);
    v[1] ^= v[0];  v[3] ^= v[2];
    v[0] = ref_rotl(v[0], 32);
    v[2] += v[1];  v[0] += v[3];
    v[1] = ref_rotl(v[1], 17);  v[3] = ref_rotl(v[3], 21);
    v[1] ^= v[2];  v[3] ^= v[0];
    v[2] = ref_rotl(v[2], 32);
}
static u64 sip_ref(const u8 key[16], const u8* msg, size_t len, int c = 2, int d = 4) {
    std::vector<u8> padded(msg, msg + len);
    while (padded.size() % 8 != 7) padded.push_back(0);
    padded.push_back((u8)(len % 256));
    const u64 k0 = ref_le64(key), k1 = ref_le64(key + 8);
    u64 v[4] = {k0 ^ 0x736f6d6570736575ull, k1 ^ 0x646f72616e646f6dull, k0 ^ 0x6c7967656e657261ull, k1 ^ 0x7465646279746573ull};
    for (size_t w = 0; w < padded.size() / 8; ++w) {
        u64 m = ref_le64(&padded[8 * w]);
        v[3] ^= m;
        for (int i = 0; i < c; ++i) ref_sipround(v);
        v[0] ^= m;
    }
    v[2] ^= 0xff;
    for (int i = 0; i < d; ++i) ref_sipround(v);
    return v[0] ^ v[1] ^ v[2] ^ v[3];
}

// The 64 reference outputs of SipHash-2-4 from the paper's reference implementation (key 00..0f,
// message i = bytes 00..i-1), as 64-bit little-endian values.  Data only.
static const u64 SIP_VECTORS[64] = {
    0x726fdb47dd0e0e31ULL, 0x74f839c593dc67fdULL, 0x0d6c8009d9a94f5aULL, 0x85676696d7fb7e2dULL, 0xcf2794e0277187b7ULL,
    0x18765564cd99a68dULL, 0xcbc9466e58fee3ceULL, 0xab0200f58b01d137ULL, 0x93f5f5799a932462ULL, 0x9e0082df0ba9e4b0ULL,
    0x7a5dbbc594ddb9f3ULL, 0xf4b32f46226bada7ULL, 0x751e8fbc860ee5fbULL, 0x14ea5627c0843d90ULL, 0xf723ca908e7af2eeULL,
    0xa129ca6149be45e5ULL, 0x3f2acc7f57c29bdbULL, 0x699ae9f52cbe4794ULL, 0x4bc1b3f0968dd39cULL, 0xbb6dc91da77961bdULL,
    0xbed65cf21aa2ee98ULL, 0xd0f2cbb02e3b67c7ULL, 0x93536795e3a33e88ULL, 0xa80c038ccd5ccec8ULL, 0xb8ad50c6f649af94ULL,
    0xbce192de8a85b8eaULL, 0x17d835b85bbb15f3ULL, 0x2f2e6163076bcfadULL, 0xde4daaaca71dc9a5ULL, 0xa6a2506687956571ULL,
    0xad87a3535c49ef28ULL, 0x32d892fad841c342ULL, 0x7127512f72f27cceULL, 0xa7f32346f95978e3ULL, 0x12e0b01abb051238ULL,
    0x15e034d40fa197aeULL, 0x314dffbe0815a3b4ULL, 0x027990f029623981ULL, 0xcadcd4e59ef40c4dULL, 0x9abfd8766a33735cULL,
    0x0e3ea96b5304a7d0ULL, 0xad0c42d6fc585992ULL, 0x187306c89bc215a9ULL, 0xd4a60abcf3792b95ULL, 0xf935451de4f21df2ULL,
    0xa9538f0419755787ULL, 0xdb9acddff56ca510ULL, 0xd06c98cd5c0975ebULL, 0xe612a3cb9ecba951ULL, 0xc766e62cfcadaf96ULL,
    0xee64435a9752fe72ULL, 0xa192d576b245165aULL, 0x0a8787bf8ecb74b2ULL, 0x81b3e73d20b49b6fULL, 0x7fa8220ba3b2eceaULL,
    0x245731c13ca42499ULL, 0xb78dbfaf3a8d83bdULL, 0xea1ad565322a1a0bULL, 0x60e61c23a3795013ULL, 0x6606d7e446282b93ULL,
    0x6ca4ecb15c5f91e1ULL, 0x9f626da15c9625f3ULL, 0xe51b38608ef25f57ULL, 0x958a324ceb064572ULL};

static const int SIP_MAXLEN = 80;
static const int SIP_NKEYS = 3 + 128 + 16;

static void sip_key(int k, u8 key[16]) {
    memset(key, 0, 16);
    if (k == 0)
        for (int i = 0; i < 16; ++i) key[i] = (u8)i;  // the paper's key
    else if (k == 1)
        ;  // all-zero
    else if (k == 2)
        memset(key, 0xFF, 16);
    else if (k < 3 + 128)
        key[(k - 3) / 8] = (u8)(1u << ((k - 3) % 8));  // single-bit keys
    else
        key[k - 131] = 0xFF;  // single-byte-0xFF keys
}
// message families: 0 = the digest family, 1 = high-bit bytes (sign-extension), 2 = m[i]=i (paper)
static void sip_msg(u8* p, size_t len, int fam) {
    for (size_t i = 0; i < len; ++i)
        p[i] = fam == 0 ? (u8)((31 * i + 7 * len + 1) & 255) : fam == 1 ? (u8)(i % 5 == 0 ? 0xFF : (0x80 | ((29 * i + 3 * len) & 0x7f))) : (u8)i;
}

// 16-byte aligned block of exactly off+len bytes; the message sits at [off, off+len)
struct AlignedMsg {
    u8* base;
    u8* m;
    AlignedMsg(size_t off, size_t len, int fam) {
        void* v = nullptr;
        if (posix_memalign(&v, 16, off + len ? off + len : 1) != 0) abort();
        base = static_cast<u8*>(v);
        memset(base, 0xEE, off);
        m = base + off;
        sip_msg(m, len, fam);
    }
    ~AlignedMsg() { free(base); }
    AlignedMsg(const AlignedMsg&) = delete;
};

static void sip_cmp(const char* fn, u64 got, u64 want, const std::string& rp, const std::string& desc, const char* kind = "mismatch") {
    ++n_cmp;
    if (got != want)
        vh::fail(std::string(fn) + "/" + kind, rp, vh::fmt("%s %s: tlx=%016llx reference=%016llx", fn, desc.c_str(), (unsigned long long)got, (unsigned long long)want));
}

static void sip_one(int k, int fam, size_t len, size_t off, const u64* want_vec = nullptr) {
    Buf key(16);
    sip_key(k, key.p);
    AlignedMsg am(off, len, fam);
    std::string rp = vh::fmt("S|%d|%d|%zu|%zu", k, fam, len, off);
    std::string desc = vh::fmt("key=%s fam=%d len=%zu offset=%zu msg=%s", hex_lc(key.p, 16).c_str(), fam, len, off, hex_lc(am.m, len).c_str());
    u64 want = want_vec ? *want_vec : sip_ref(key.p, am.m, len);
    vh::at("siphash_plain", rp);
    u64 p = tlx::siphash_plain(key.p, am.m, len);
    sip_cmp("siphash_plain", p, want, rp, desc);
#if defined(__SSE2__)
    vh::at_op("siphash_sse2");
    u64 s = tlx::siphash_sse2(key.p, am.m, len);
    sip_cmp("siphash_sse2", s, want, rp, desc);
    ++n_cmp;
    if (p != s)
        vh::fail("siphash/plain_vs_sse2", rp, vh::fmt("%s: plain=%016llx sse2=%016llx", desc.c_str(), (unsigned long long)p, (unsigned long long)s));
#endif
    vh::at_op("siphash");
    sip_cmp("siphash", tlx::siphash(key.p, am.m, len), want, rp, desc);
    outcome(vh::fmt("siphash: full words=%s tail bytes=%zu%s", len / 8 == 0 ? "0" : len / 8 == 1 ? "1" : "many", len % 8, len >= 256 ? " len>=256" : ""));
    ++n_inputs;
    ++n_sip;
}

static bool g_ref_validated = false;
static bool validate_sip_ref() {
    if (g_ref_validated) return true;
    u8 key[16], msg[64];
    sip_key(0, key);
    for (int i = 0; i < 64; ++i) msg[i] = (u8)i;
    for (int i = 0; i < 64; ++i)
        if (sip_ref(key, msg, i) != SIP_VECTORS[i]) {
            vh::out_line(vh::fmt("ERROR harness SipHash reference disagrees with official vector %d: %016llx vs %016llx", i,
                                 (unsigned long long)sip_ref(key, msg, i), (unsigned long long)SIP_VECTORS[i]));
            return false;
        }
    g_ref_validated = true;
    return true;
}

static void sip_key_case(int k) {
    if (!validate_sip_ref()) return;
    for (int fam = 0; fam < 2; ++fam)
        for (size_t len = 0; len <= (size_t)SIP_MAXLEN; ++len)
            for (size_t off = 0; off < 16; ++off) sip_one(k, fam, len, off);
}
// beyond the designed 0..80: lengths 81..SIP_EXTLEN (crosses len mod 256 twice) for one key, both families, all offsets
static const int SIP_EXTLEN = 600;
static void sip_ext_case(int k) {
    if (!validate_sip_ref()) return;
    for (int fam = 0; fam < 2; ++fam)
        for (size_t len = SIP_MAXLEN + 1; len <= (size_t)SIP_EXTLEN; ++len)
            for (size_t off = 0; off < 16; ++off) sip_one(k, fam, len, off);
}
// official vectors straight against tlx (not through sip_ref), every alignment
static void sip_vector_case() {
    if (!validate_sip_ref()) return;
    vh::stat_add("siphash_ref_vectors_ok", 64);
    for (size_t len = 0; len < 64; ++len)
        for (size_t off = 0; off < 16; ++off) sip_one(0, 2, len, off, &SIP_VECTORS[len]);
}
// overloads using the built-in key 00..0f
static void sip_default_one(size_t len, size_t off) {
    u8 key[16];
    sip_key(0, key);
    AlignedMsg am(off, len, 0);
    std::string rp = vh::fmt("D|%zu|%zu", len, off);
    std::string desc = vh::fmt("default key len=%zu offset=%zu msg=%s", len, off, hex_lc(am.m, len).c_str());
    u64 want = sip_ref(key, am.m, len);
    vh::at("siphash", rp);
    sip_cmp("siphash", tlx::siphash(static_cast<const u8*>(am.m), len), want, rp, desc + " via siphash(const uint8_t*,size)", "default_key");
    sip_cmp("siphash", tlx::siphash(reinterpret_cast<const char*>(am.m), len), want, rp, desc + " via siphash(const char*,size)", "default_key");
    sip_cmp("siphash", tlx::siphash(tlx::string_view(reinterpret_cast<const char*>(am.m), len)), want, rp, desc + " via siphash(string_view)", "default_key");
    ++n_inputs;
    ++n_sip;
}
static void sip_default_case() {
    if (!validate_sip_ref()) return;
    for (size_t len = 0; len <= (size_t)SIP_MAXLEN; ++len)
        for (size_t off = 0; off < 16; ++off) sip_default_one(len, off);
    // siphash(const Type&): the object representation of a padding-free value
    u8 key[16];
    sip_key(0, key);
    vh::at("siphash", "D|value");
    u64 v64 = 0x8899aabbccddeeffull;
    sip_cmp("siphash", tlx::siphash(v64), sip_ref(key, reinterpret_cast<const u8*>(&v64), 8), "D|value", "siphash<uint64_t>(value)", "default_key");
    std::array<u8, 13> arr;
    for (size_t i = 0; i < arr.size(); ++i) arr[i] = (u8)(0xF0 + i);
    sip_cmp("siphash", tlx::siphash(arr), sip_ref(key, arr.data(), arr.size()), "D|value", "siphash<array<uint8_t,13>>(value)", "default_key");
    n_inputs += 2;
    n_sip += 2;
}

// ---------------------------------------------------------------------------------------------

struct OCase {
    int algo;
    char fam;
    size_t L;
};

int main(int argc, char** argv) {
    vh::init(argc, argv);
    const bool T = vh::args().thorough();
    const long maxlen = vh::args().opt_int("maxlen", T ? 1100 : 300);
    std::vector<size_t> longs = {100000, 1000001};
    if (T) longs.push_back(size_t(1) << 24);

    auto flush = [&] {
        vh::stat_add("cases", n_inputs);
        vh::stat_add("comparisons", n_cmp);
        vh::stat_add("oneshot_messages", n_oneshot);
        vh::stat_add("chunk_triples", n_triples);
        vh::stat_add("siphash_inputs", n_sip);
        n_inputs = n_cmp = n_oneshot = n_triples = n_sip = 0;
    };

    if (vh::args().has_replay) {
        return vh::replay_one([&](const std::string& r) {
            std::vector<std::string> f = split(r, '|');
            if (f[0] == "O" && f.size() == 5)
                oneshot_dispatch(algo_index(f[1]), f[2][0], strtoull(f[3].c_str(), nullptr, 10), f[4]);
            else if (f[0] == "C" && f.size() == 5)
                chunk_dispatch(algo_index(f[1]), atoi(f[2].c_str()), atoi(f[3].c_str()), atoi(f[4].c_str()));
            else if (f[0] == "P" && f.size() == 4) {
                unsigned t = atoi(f[2].c_str());
                switch (algo_index(f[1])) {
                case 0: prefix_replay<tlx::MD5>(t, f[3]); break;
                case 1: prefix_replay<tlx::SHA1>(t, f[3]); break;
                case 2: prefix_replay<tlx::SHA256>(t, f[3]); break;
                case 3: prefix_replay<tlx::SHA512>(t, f[3]); break;
                }
            } else if (f[0] == "S" && f.size() == 5) {
                if (!validate_sip_ref()) return;
                int k = atoi(f[1].c_str()), fam = atoi(f[2].c_str());
                size_t len = atoi(f[3].c_str());
                sip_one(k, fam, len, atoi(f[4].c_str()), fam == 2 && k == 0 && len < 64 ? &SIP_VECTORS[len] : nullptr);
            } else if (f[0] == "D" && f.size() == 3 && f[1] != "value") {
                if (validate_sip_ref()) sip_default_one(atoi(f[1].c_str()), atoi(f[2].c_str()));
            } else if (f[0] == "D")
                sip_default_case();
            else
                vh::out_line("ERROR cannot parse replay string " + r);
            flush();
        });
    }

    std::string table = vh::args().opt("table");
    if (table.empty() || !load_table(table)) {
        vh::out_line("ERROR cannot read expected-value table '" + table + "' (option table=<path>, written by ref/digests.py)");
        vh::finish();
        return 2;
    }
    g_have_table = true;

    // ---- case list: long one-shot messages first (heaviest; spread over shards), then short one-shot,
    //      chunking (algo,a), SipHash (key index), SipHash vectors, SipHash default key.
    std::vector<OCase> oc;
    for (size_t L : longs)
        for (int al = 3; al >= 0; --al) oc.push_back({al, 'g', L});
    for (int al = 0; al < 4; ++al)
        for (long L = 0; L <= maxlen; ++L)
            for (char fam : {'g', 'z', 'f'}) oc.push_back({al, fam, (size_t)L});
    struct CCase {
        int algo;
        unsigned a;
    };
    std::vector<CCase> cc;
    for (int al = 0; al < 4; ++al)
        for (unsigned a = 0; a <= 2 * BLOCK[al] + 9; ++a) cc.push_back({al, a});
    const uint64_t nO = oc.size(), nC = cc.size(), nS = SIP_NKEYS + 4;

    auto run_case = [&](uint64_t id) {
        if (id < nO) {
            const OCase& c = oc[id];
            oneshot_dispatch(c.algo, c.fam, c.L, expected(vh::fmt("O %s %c %zu", ALGO[c.algo], c.fam, c.L)));
        } else if (id < nO + nC) {
            const CCase& c = cc[id - nO];
            chunk_dispatch(c.algo, c.a, -1, -1);
        } else {
            uint64_t s = id - nO - nC;
            if (s < (uint64_t)SIP_NKEYS)
                sip_key_case((int)s);
            else if (s == (uint64_t)SIP_NKEYS)
                sip_vector_case();
            else if (s == (uint64_t)SIP_NKEYS + 1)
                sip_default_case();
            else
                sip_ext_case(s == (uint64_t)SIP_NKEYS + 2 ? 0 : 2);  // paper key, all-ones key
        }
        flush();
    };

    if (vh::args().shard == 0) {
        vh::sample(vh::fmt("one-shot: sha256 of the 64-byte message b[i]=(31*i+7*64+1)%%256 through 10 API forms, expected (hashlib) %s",
                           expected("O sha256 g 64").c_str()));
        vh::sample("chunking: sha512 a=127 n1=1 n2=137: state after process(127);process(1);process(137) vs process(127);process(138), "
                   "state vs model, digest vs one-shot digest of the 265-byte prefix");
        {
            u8 k[16];
            sip_key(3 + 7, k);
            u8 m[15];
            sip_msg(m, 15, 1);
            vh::sample(vh::fmt("siphash: key=%s (single-bit key 7), msg=%s (family 1, len 15) at buffer offset 9: siphash_plain, siphash_sse2, siphash vs "
                               "paper-defined reference %016llx", hex_lc(k, 16).c_str(), hex_lc(m, 15).c_str(), (unsigned long long)sip_ref(k, m, 15)));
        }
#if defined(__SSE2__)
        vh::note("siphash_sse2 is compiled in (__SSE2__ defined); tlx::siphash dispatches to it");
#else
        vh::note("siphash_sse2 is NOT compiled in (__SSE2__ undefined); tlx::siphash dispatches to siphash_plain");
#endif
    }
    vh::run_cases(nO + nC + nS, run_case);
    return vh::finish();
}
