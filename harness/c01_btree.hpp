// c01_btree.hpp — C01/C02: generic System template for the tlx B+ tree facades (engine E2) + registry/runner.
//
//   c01_btree_base.hpp     counting allocator, lifetime-tracked element, traits, tlx::btree_friend structure walk
//   c01_btree_sys.hpp      System<TypeCfg>: state (real tree + std container), op menu, transitions, per-transition oracles, canon
//   c01_btree_observe.hpp  Observer<TypeCfg>: all read-only queries and the copy/assign temporaries in every new state
//   c01_btree_t*.cpp       thin TUs: C01_TYPE(...) lines instantiate groups of type configurations (compiled in parallel)
//   c01_btree_main.cpp     configuration tables per tier, sharding, replay
//
// Replay string: <type name>/<params>|<op,op,...>   e.g.  set.less.l4i4.lin.int/A.K12.M1.L-1.t0.c1.v1|8388609,1048579
#pragma once
#include "c01_btree_observe.hpp"

namespace c01 {

struct Entry {
    std::function<void(const Params&)> run;
    std::function<void(const Params&, const std::string&)> replay;
    int leaf = 0, inner = 0;
};
inline std::map<std::string, Entry>& registry() {
    static std::map<std::string, Entry> r;
    return r;
}

// crash-isolated run of one exploration in a forked child (like vh::run_child); with the semantic oracle
// a crash (ASan report, signal) is only noted: memory failures are reported by C02, which runs the same exploration.
inline bool run_child_q(const std::function<void()>& body) {
    std::string errfile = vh::tmp_path("stderr");
    fflush(stdout);
    pid_t pid = fork();
    if (pid < 0) {
        perror("fork");
        exit(2);
    }
    if (pid == 0) {
        int fd = open(errfile.c_str(), O_CREAT | O_TRUNC | O_WRONLY, 0600);
        if (fd >= 0) {
            dup2(fd, 2);
            close(fd);
        }
        body();
        fflush(stdout);
        if (getenv("C01_GPROF")) exit(0);  // profiling builds only: lets gmon.out be written
        _exit(0);
    }
    int status = 0;
    waitpid(pid, &status, 0);
    bool ok = WIFEXITED(status) && WEXITSTATUS(status) == 0;
    if (!ok) {
        std::string err = vh::read_file(errfile), summary;
        std::string sig = vh::crash_signature(err, status, &summary);
        if (G().oracle & 2) vh::fail(std::string(vh::shm()->op) + "/" + sig, vh::shm()->replay, summary);
        else vh::note("crash left to the structural check (C02): " + std::string(vh::shm()->op) + "/" + sig + " at " + vh::shm()->replay);
    }
    unlink(errfile.c_str());
    return ok;
}

template <class Sys>
void run_cfg(Sys& sys, const vhist::Options& opt) {
    // vh::run_isolated zeroes ALL counters at every (re)start, which loses the counters of configurations run
    // earlier by this shard; keep them here and add them back afterwards.
    vh::Shared* sh = vh::shm();
    if (!G().in_consequence_pass) {
        void* fl = mmap(nullptr, 4096, PROT_READ | PROT_WRITE, MAP_SHARED | MAP_ANONYMOUS, -1, 0);
        if (fl != MAP_FAILED) G().in_consequence_pass = static_cast<volatile int*>(fl);
    }
    if (G().in_consequence_pass) *G().in_consequence_pass = 0;
    G().consequence_pass = true;
    int nsaved = sh->nstat;
    std::vector<long long> saved(sh->stat_val, sh->stat_val + nsaved);
    std::set<std::string> skip;
    for (int r = 0;; ++r) {
        for (int i = 0; i < sh->nstat; ++i) sh->stat_val[i] = 0;
        bool ok = run_child_q([&] {
            vhist::Stats S = vhist::explore(sys, opt, skip);
            vh::stat_add("states", S.states);
            vh::stat_add("transitions", S.transitions);
            vh::stat_add("replays", S.replays);
            vh::stat_add("observed_states", S.observed);
            vh::stat_max("max_depth", S.max_depth);
            vh::stat_add("configurations", 1);
            if (S.closed) vh::stat_add("closures_completed", 1);
            else vh::stat_add("depth_bounded_runs", 1);
            if (sys.bulk_capped) vh::cap(sys.name() + ": more than 70000 bulk_load sequences");
            vh::note(vh::fmt("%s: states=%llu transitions=%llu max_depth=%d %s", sys.name().c_str(), S.states, S.transitions, S.max_depth,
                             S.closed ? "closure" : (opt.max_depth >= 0 ? vh::fmt("depth<=%d", opt.max_depth).c_str() : "capped")));
        });
        if (ok) break;
        if (G().in_consequence_pass && *G().in_consequence_pass) {
            // the crash happened while a structurally broken state was queried for the semantic check: start over without that pass
            *G().in_consequence_pass = 0;
            G().consequence_pass = false;
            vh::note(sys.name() + ": consequence pass disabled after a crash in a structurally broken state");
            continue;
        }
        skip.insert(sh->replay);
        if (r + 1 >= 40) {
            vh::cap(sys.name() + ": too many crashing transitions; exploration stopped");
            break;
        }
    }
    if (!skip.empty()) vh::stat_add("crashing_transitions", (long long)skip.size());
    for (int i = 0; i < nsaved; ++i) {
        if (sh->stat_is_max[i]) sh->stat_val[i] = std::max(sh->stat_val[i], saved[i]);
        else sh->stat_val[i] += saved[i];
    }
}

template <class TC>
struct Registrar {
    Registrar() {
        Entry e;
        e.leaf = System<TC>::leaf_slots;
        e.inner = System<TC>::inner_slots;
        e.run = [](const Params& p) {
            System<TC> sys(p);
            vhist::Options opt;
            opt.max_states = (size_t)p.cap;
            if (p.mode == 'A' || p.mode == 'S') opt.max_depth = -1;
            else {
                opt.max_depth = p.d;
                for (int n = p.n0; n <= p.n1; ++n) opt.seeds.push_back({System<TC>::enc(OP_BULKN, n)});
            }
            run_cfg(sys, opt);
        };
        e.replay = [](const Params& p, const std::string& hist) {
            System<TC> sys(p);
            vhist::replay_config(sys, hist);
        };
        registry()[TC::tname()] = e;
    }
};

}  // namespace c01

#define C01_CAT2(a, b) a##b
#define C01_CAT(a, b) C01_CAT2(a, b)
// KIND (c01::SET, MSET, MAP, MMAP), GREATER, LEAF, INNER, SEARCH (0 linear, 1 binary, 2 default traits), element type
#define C01_TYPE(KIND, GREATER, LEAF, INNER, SEARCH, ELEM) \
    static c01::Registrar<c01::TypeCfg<c01::KIND, GREATER, LEAF, INNER, SEARCH, ELEM>> C01_CAT(c01_reg_, __COUNTER__);
