// C01/C02 type configurations, group 21 (see c01_btree.hpp; C01_TYPE(kind, greater, leaf, inner, search 0=linear 1=binary 2=default traits, element))
#include "c01_btree.hpp"
C01_TYPE(MSET, true, 8, 8, 2, int)
C01_TYPE(SET, true, 5, 4, 1, c01::Tracked)
C01_TYPE(MSET, false, 4, 4, 0, c01::Tracked)
C01_TYPE(MSET, true, 5, 4, 1, c01::Tracked)
C01_TYPE(MAP, false, 4, 4, 0, c01::Tracked)
C01_TYPE(MAP, true, 5, 4, 1, c01::Tracked)
C01_TYPE(MMAP, true, 5, 4, 1, c01::Tracked)
