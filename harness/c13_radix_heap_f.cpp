// C13 — tlx::RadixHeap with uint32_t keys x radix {2,4,8,16,64} (driver and oracles: c13_radix_heap.hpp).
// Quick tier: none of this TU.
#include "c13_radix_heap.hpp"

namespace c13 {
void register_radix_6(std::vector<Config>& out, bool thorough) {
    add_radix<uint32_t, 2>(out, thorough, false);
    add_radix<uint32_t, 4>(out, thorough, false);
    add_radix<uint32_t, 8>(out, thorough, false);
    add_radix<uint32_t, 16>(out, thorough, false);
    add_radix<uint32_t, 64>(out, thorough, false);
}
}  // namespace c13
