// C13 — tlx::DAryHeap, arity 7 and 8 x {std::less, std::greater, table comparator}
// (driver and oracles: c13_dary_heap.hpp).  Thorough tier only.
#include "c13_dary_heap.hpp"

namespace c13 {
void register_dary_4(std::vector<Config>& out, bool thorough) {
    add_dary<7, 0>(out, thorough, false);
    add_dary<7, 1>(out, thorough, false);
    add_dary<7, 2>(out, thorough, false);
    add_dary<8, 0>(out, thorough, false);
    add_dary<8, 1>(out, thorough, false);
    add_dary<8, 2>(out, thorough, false);
}
}  // namespace c13
