// C12 (concurrent part) — handles to one object copied and released by 2-3 threads under every
// interleaving (engine E1).  As with shared_ptr, no handle VARIABLE is touched by two threads; only
// the shared reference count is.  Oracle: the object is destroyed exactly once, after the last
// handle is gone (destructor log), never while a thread still reads through a handle (ASan
// use-after-free, the library's assert(reference_count_ == 0), and in the TSan build a race between
// a reader and the destructor's write to the payload).
#include <tlx/counting_ptr.hpp>

#include "sched/vexplore.hpp"

using vshim::thread;

static int g_destroyed;    // destructor calls on the ORIGINAL object
// (real std::atomic, not the scheduler's: several threads construct / destroy clones, and the serialising scheduler is
// invisible to TSan, so plain counters would be reported as a harness race)
static ::std::atomic<int> g_constructed;  // all objects (the original and the clones unify() makes)
static ::std::atomic<int> g_all_destroyed;

struct Obj;
static ::std::atomic<Obj*> g_obj;  // the original object while it lives (atomic: read by clone destructors on other threads)
struct Obj : public tlx::ReferenceCounter {
    int payload = 7;
    Obj() {
        g_obj = this;
        g_constructed++;
    }
    // clone made by unify(): a thread-private object (the copy starts with reference count 0, as ReferenceCounter defines)
    Obj(const Obj& o) : tlx::ReferenceCounter(o), payload(o.payload) { g_constructed++; }
    ~Obj() {
        payload = -1;
        g_all_destroyed++;
        if (this == g_obj.load()) {
            g_destroyed++;
            g_obj = nullptr;
        }
    }
};
// explicit-state mode: shared state = the reference count (while the object lives) and the destructor count;
// a thread's handles are determined by its position in its straight-line script (distinct call sites)
__attribute__((no_sanitize("thread"))) static uint64_t cp_state() {
    uint64_t h = ((uint64_t)g_destroyed * 1000003 + (uint64_t)g_constructed.load() * 101 + (uint64_t)g_all_destroyed.load()) * 31 + 17;
    if (Obj* o = g_obj.load()) h = h * 31 + o->reference_count_.vs_peek();
    return h * 0x9E3779B97F4A7C15ull;
}
typedef tlx::CountingPtr<Obj> P;

static void use(const P& p) {
    if (p->payload != 7) vs_fail("read-through-handle-saw-destroyed-object", "payload != 7");
}

// per-thread scripts over a private handle `mine` (and a common read-only handle `common`)
static void script(char s, P& mine, const P& common) {
    switch (s) {
    case 'A': {  // copy, use, drop copy, drop own
        P c(mine);
        use(c);
        break;
    }
    case 'B': {  // copy of a copy
        P c(mine);
        P d(c);
        c.reset();
        use(d);
        break;
    }
    case 'C': {  // move then drop
        P c(std::move(mine));
        use(c);
        break;
    }
    case 'D': {  // assignment over aliases of the same object
        P c(mine);
        c = mine;
        mine = c;
        use(mine);
        P e;
        e = c;
        c = std::move(e);
        break;
    }
    case 'E':  // plain reset
        use(mine);
        mine.reset();
        break;
    case 'G': {  // unify: clone the object if it is shared, keep it if this is the only handle; then use and copy the result
        mine.unify();
        use(mine);
        if (!mine.unique()) vs_fail("unify-not-unique", "after unify() the handle is not the only owner of its object");
        P c(mine);
        use(c);
        break;
    }
    case 'F': {  // copy from a handle variable that nobody modifies
        P c(common);
        use(c);
        mine.reset();
        P d(c);
        break;
    }
    }
    mine.reset();
}

static void body(const std::string& scripts, bool main_drops_late, bool with_common) {
    g_destroyed = 0;
    g_constructed = 0;
    g_all_destroyed = 0;
    g_obj = nullptr;
    {
        P root(new Obj());
        std::vector<P> own(scripts.size(), root);
        P common;
        if (with_common) common = root;
        if (!main_drops_late) root.reset();
        std::vector<thread> th;
        for (size_t i = 0; i < scripts.size(); ++i) {
            P* mine = &own[i];
            const P* cm = with_common ? &common : mine;
            char s = scripts[i];
            th.emplace_back([s, mine, cm]() { script(s, *mine, *cm); });
        }
        if (main_drops_late) {
            use(root);
            root.reset();
        }
        for (auto& t : th) t.join();
        if (with_common) {
            if (g_destroyed != 0) vs_fail("destroyed-while-referenced", "object destroyed although the common handle still points to it");
            if (common.use_count() != 1) vs_fail("use_count", vh::fmt("use_count()=%zu with exactly one handle left", common.use_count()).c_str());
            use(common);
            common.reset();
        }
    }
    if (g_destroyed != 1) vs_fail(g_destroyed == 0 ? "not-destroyed" : "destroyed-twice", vh::fmt("destructor of the shared object ran %d times", g_destroyed).c_str());
    if (g_all_destroyed != g_constructed)
        vs_fail(g_all_destroyed < g_constructed ? "not-destroyed" : "destroyed-twice", vh::fmt("%d objects constructed (incl. unify() clones), %d destroyed", g_constructed.load(), g_all_destroyed.load()).c_str());
    vs_observe(vh::fmt("destroyed=%d/%d", g_all_destroyed.load(), g_constructed.load()).c_str());
}

int main(int argc, char** argv) {
    std::vector<vx::Scenario> scs;
    const std::string S = "ABCDEFG";
    auto add = [&](const std::string& scripts) {
        bool common = scripts.find('F') != std::string::npos;
        for (int late = 0; late <= 1; ++late) {
            vx::Scenario sc;
            sc.name = "cp:" + scripts + (late ? ":late" : ":early");
            sc.family = "counting_ptr";
            sc.body = [scripts, late, common]() { body(scripts, late, common); };
            sc.bound_quick = scripts.size() == 2 ? 2 : 1;
            // three threads with the unify script (an allocation, a copy construction and four reference-count operations
            // per thread): bound 1 in both tiers, the two-thread scenarios with G go to bound 3 and to the unbounded exploration
            sc.bound_thorough = scripts.size() == 2 ? 3 : (scripts.find('G') == std::string::npos ? 2 : 1);
            sc.whole = true;
            sc.horizon = 5000;
            scs.push_back(sc);
            // explicit-state (unbounded) exploration of the same scenario
            vx::Scenario sx = sc;
            sx.name = "X:" + sc.name;
            sx.stateful = true;
            sx.state_cb = &cp_state;
            sx.thorough_only = scripts.size() > 2;
            // three threads without a bound: only the shorter scripts (B and D each add ~10 scheduling points per thread)
            if (scripts.size() <= 2 || (scripts.find('B') == std::string::npos && scripts.find('D') == std::string::npos && scripts.find('G') == std::string::npos))
                scs.push_back(sx);
        }
    };
    for (size_t a = 0; a < S.size(); ++a)
        for (size_t b = a; b < S.size(); ++b) {
            add(std::string() + S[a] + S[b]);
            for (size_t c = b; c < S.size(); ++c) add(std::string() + S[a] + S[b] + S[c]);
        }
    return vx::run(argc, argv, scs);
}
