// C13 — tlx::DAryAddressableIntHeap, arity 5..8 (thorough tier; see c13_addressable_heap.hpp).
#include "c13_addressable_heap.hpp"

namespace c13 {
void register_addr_b(std::vector<Config>& out, bool thorough) {
    add_addr<uint32_t, 5>(out, thorough, false, 50);
    add_addr<uint32_t, 6>(out, thorough, false, 50);
    add_addr<uint32_t, 7>(out, thorough, false, 50);
    add_addr<uint32_t, 8>(out, thorough, false, 50);
    add_addr<uint16_t, 8>(out, thorough, false, 50);
}
}  // namespace c13
