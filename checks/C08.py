from vlib import Harness, NCPU


def plan(tier):
    h = Harness("c08_multiseq", ["harness/c08_multiseq.cpp"], flavor="asan")
    T = tier == "thorough"
    space = ("m<=3: full product of lengths 1..9; m=4: lengths 1..9 with total<=13; m=5: lengths 1..9 with total<=10; "
             "extra length tuples (1,17),(17,1),(16,3),(3,16),(1,1,17),(17,1,1),(1,17,1),(2,16,1),(1,33),(33,1),(32,2),"
             "(15,17),(1,8,16),(1,1,1,17)") if T else \
            ("m<=3: full product of lengths 1..6; m=4: lengths 1..6 with total<=11; "
             "extra length tuples (1,17),(17,1),(16,3),(3,16),(1,1,17),(17,1,1),(1,17,1),(2,16,1)")
    return {
        "harnesses": [h],
        "runs": [(h, ["--tier", tier], NCPU, 3 * 3600 if T else 1800)],  # generous: ~6.5 min (T) / ~20 s (Q) on 16 idle cores
        "states_key": "cases", "transitions_key": "calls", "traces_key": "calls", "distinct_key": "cases",
        "rule": "every ordered tuple of non-empty sorted sequences over keys {0,1,2} (%s) x comparator {std::less on ascending, "
                "std::greater on descending inputs} x EVERY rank 0..N (multisequence_partition) / 0..N-1 (multisequence_selection); "
                "a case is one distinct (tuple, comparator, rank), all distinct; stats.tie_cases = cases where equivalent elements "
                "straddle the split (tie-break decides)" % space,
        "assumptions": ["keys restricted to {0,1,2}, m and lengths bounded as stated (total-length cap for m>=4)",
                        "multisequence_selection is documented for 0<=rank<N only (throws otherwise): rank==N not exercised for it",
                        "RankType=std::ptrdiff_t, iterators are raw pointers, element = struct{key,tag} compared by key only",
                        "reference = std::stable_sort of (key,seq,pos)-tagged elements"],
    }
