// C15 — tlx sorting networks (best, bose_nelson, bose_nelson_parameter), n = 0..16:
// bounded exhaustive enumeration of the REAL networks (E3) + zero-one principle.
//
// Oracles (failure signature = "<family>::<entry>/<oracle>", entry = "sortN" or "sort(n=N)"):
//  zero-one     every one of the 2^n 0/1 inputs comes out as 0^(n-k) 1^k with k = number of ones
//               of the input (reference built directly, not with any tlx code).
//  oblivious    the network is run with a *recording* compare-exchange; the sequence of
//               (left index, right index) pairs must be the same for all 2^n inputs (compared
//               with the sequence observed on the all-zero input of the same block), every index
//               must lie in [0,n), and the array after the call must equal a shadow array that
//               was only changed by those compare-exchanges (= the network touches data through
//               the compare-exchange functor only).  This is exactly the hypothesis of the
//               zero-one principle (Knuth 5.3.4 Thm Z): a fixed comparator sequence that sorts all
//               0/1 inputs sorts every input under every strict weak order, and because elements
//               are only ever swapped the output is a permutation of the input.
//               (An "oblivious" failure therefore means: the proof obligation that lifts the 2^n
//               zero-one runs to all inputs does not hold for this network — the header promises
//               "sorting networks", i.e. fixed comparator sequences.)
//  permutations directly: all n! permutations (distinct keys) ...
//  three-key    ... and all 3^n inputs over keys {0,1,2} (ties!), elements are (key,tag) with
//               tag = original position; comparators compare the key only (less / greater);
//               required: no adjacent inversion w.r.t. the comparator and every tag 0..n-1
//               present exactly once with its original key (multiset of pairs preserved).
//
// Entry points (read off the headers):
//   best / bose_nelson        : sortN(Iterator a, CSwap cswap)            N = 2..16 (no sort0/sort1)
//   bose_nelson_parameter     : sortN(T& x0, ..., T& x{N-1}, CSwap cswap) N = 2..16
//   all three                 : sort(begin, end[, cmp])  switch on (end-begin), 0..16; the default
//                               branch is abort(): sizes > 16 are outside the documented contract
//                               ("for up to sixteen elements") and are NOT called.
//   CSwap = any functor with  template<T> void operator()(T& left, T& right)  (cswap.hpp:
//   CS_IfSwap<Comparator>: if (cmp(right,left)) swap(left,right)).  CSwap objects are passed BY
//   VALUE down the merge recursion, therefore the recorders below keep their log in a global.
//
// NOTE (not part of C15's run-time property, reported separately): the documented default
// argument `CSwap cswap = CSwap()` of every sortN cannot be instantiated because CS_IfSwap has no
// default constructor (cswap.hpp:35) — `best::sort4(a)` does not compile.  The harness therefore
// always passes the CSwap object explicitly.
//
// Zero-one variants (value type int), e = variant in the replay string:
//   e0  direct sortN, own recording CSwap functor RecCSwap            zero-one + oblivious
//   e1  direct sortN, tlx CS_IfSwap<RecLess> (recording comparator)   zero-one + oblivious
//   e2  dispatcher sort(begin,end)  (default std::less)               zero-one
//   e3  dispatcher sort(begin,end,RecLess)                            zero-one + oblivious
// Direct variants (value type KT{key,tag}), c = 0 KeyLess / 1 KeyGreater:
//   e0  direct sortN with tlx CS_IfSwap<Cmp>(cmp)      e1  dispatcher sort(begin,end,cmp)
//
// Case id -> (kind, family, variant, cmp, n, input) through a block table (mixed radix with
// per-block input count 2^n / n! / 3^n); replay string "kind:family:e<E>:c<C>:n<N>:i<input>".
#include <tlx/sort/networks/best.hpp>
#include <tlx/sort/networks/bose_nelson.hpp>
#include <tlx/sort/networks/bose_nelson_parameter.hpp>
#include <tlx/sort/networks/cswap.hpp>

#include <algorithm>
#include <functional>

#include "common/vharness.hpp"

namespace sn = tlx::sort_networks;

enum { BEST = 0, BN = 1, BNP = 2, NFAM = 3 };
static const char* const FAM[NFAM] = {"best", "bose_nelson", "bose_nelson_parameter"};
enum { ZO = 0, PERM = 1, K3 = 2, K3S = 3 };
static const char* const KIND[4] = {"zo", "perm", "k3", "k3s"};
static const char* const ORACLE[4] = {"zero-one", "permutations", "three-key", "three-key-owning"};
static const int MAXN = 16;

// ------------------------------------------------------------------------------------------
// compile-time N -> sortN

template <int F, int N>
struct Direct;

#define C15_ARR(N)                                                     \
    template <>                                                        \
    struct Direct<BEST, N> {                                           \
        template <class T, class CS>                                   \
        static void run(T* a, CS cs) { sn::best::sort##N(a, cs); }     \
    };                                                                 \
    template <>                                                        \
    struct Direct<BN, N> {                                             \
        template <class T, class CS>                                   \
        static void run(T* a, CS cs) { sn::bose_nelson::sort##N(a, cs); } \
    };
C15_ARR(2) C15_ARR(3) C15_ARR(4) C15_ARR(5) C15_ARR(6) C15_ARR(7) C15_ARR(8) C15_ARR(9)
C15_ARR(10) C15_ARR(11) C15_ARR(12) C15_ARR(13) C15_ARR(14) C15_ARR(15) C15_ARR(16)

#define C15_A2 a[0], a[1]
#define C15_A3 C15_A2, a[2]
#define C15_A4 C15_A3, a[3]
#define C15_A5 C15_A4, a[4]
#define C15_A6 C15_A5, a[5]
#define C15_A7 C15_A6, a[6]
#define C15_A8 C15_A7, a[7]
#define C15_A9 C15_A8, a[8]
#define C15_A10 C15_A9, a[9]
#define C15_A11 C15_A10, a[10]
#define C15_A12 C15_A11, a[11]
#define C15_A13 C15_A12, a[12]
#define C15_A14 C15_A13, a[13]
#define C15_A15 C15_A14, a[14]
#define C15_A16 C15_A15, a[15]
#define C15_PAR(N)                                                                        \
    template <>                                                                           \
    struct Direct<BNP, N> {                                                               \
        template <class T, class CS>                                                      \
        static void run(T* a, CS cs) { sn::bose_nelson_parameter::sort##N(C15_A##N, cs); } \
    };
C15_PAR(2) C15_PAR(3) C15_PAR(4) C15_PAR(5) C15_PAR(6) C15_PAR(7) C15_PAR(8) C15_PAR(9)
C15_PAR(10) C15_PAR(11) C15_PAR(12) C15_PAR(13) C15_PAR(14) C15_PAR(15) C15_PAR(16)

template <int F, class T, class CS>
static void direct_f(int n, T* a, CS cs) {
    switch (n) {
#define C15_CASE(N) case N: Direct<F, N>::run(a, cs); break;
        C15_CASE(2) C15_CASE(3) C15_CASE(4) C15_CASE(5) C15_CASE(6) C15_CASE(7) C15_CASE(8)
        C15_CASE(9) C15_CASE(10) C15_CASE(11) C15_CASE(12) C15_CASE(13) C15_CASE(14)
        C15_CASE(15) C15_CASE(16)
    default: abort();  // harness bug: there is no sort0 / sort1 / sort17
    }
}
template <class T, class CS>
static void direct(int fam, int n, T* a, CS cs) {
    switch (fam) {
    case BEST: direct_f<BEST>(n, a, cs); break;
    case BN: direct_f<BN>(n, a, cs); break;
    default: direct_f<BNP>(n, a, cs); break;
    }
}
template <class T, class Cmp>
static void dispatch(int fam, T* b, T* e, Cmp cmp) {
    switch (fam) {
    case BEST: sn::best::sort(b, e, cmp); break;
    case BN: sn::bose_nelson::sort(b, e, cmp); break;
    default: sn::bose_nelson_parameter::sort(b, e, cmp); break;
    }
}
template <class T>
static void dispatch_default(int fam, T* b, T* e) {
    switch (fam) {
    case BEST: sn::best::sort(b, e); break;
    case BN: sn::bose_nelson::sort(b, e); break;
    default: sn::bose_nelson_parameter::sort(b, e); break;
    }
}

// ------------------------------------------------------------------------------------------
// recording compare-exchange (global log: CSwap objects are copied by the networks)

static const int MAXC = 250;
struct RecState {
    uintptr_t base;
    int n;
    int cnt;            // number of compare-exchanges seen (may exceed MAXC; only MAXC are kept)
    unsigned char l[MAXC], r[MAXC];
    int oob;            // number of compare-exchanges with an index outside [0,n)
    long oob_l, oob_r;  // first offender
    int shadow[MAXN];
};
static RecState R;

static inline long idx_of(const int* p) {
    long d = (long)((uintptr_t)p - R.base);
    if (d % (long)sizeof(int) != 0) return -1000000;  // not an element of the array at all
    return d / (long)sizeof(int);
}
// returns false if the pair must not be touched
static inline bool rec_pair(const int* left, const int* right) {
    long i = idx_of(left), j = idx_of(right);
    bool ok = i >= 0 && i < R.n && j >= 0 && j < R.n;
    if (R.cnt < MAXC) {
        R.l[R.cnt] = ok ? (unsigned char)i : 255;
        R.r[R.cnt] = ok ? (unsigned char)j : 255;
    }
    R.cnt++;
    if (!ok) {
        if (!R.oob++) R.oob_l = i, R.oob_r = j;
        return false;
    }
    if (R.shadow[j] < R.shadow[i]) std::swap(R.shadow[i], R.shadow[j]);
    return true;
}
// own compare-exchange functor, same interface as CS_IfSwap
struct RecCSwap {
    template <class T>
    void operator()(T& left, T& right) {
        if (!rec_pair(&left, &right)) return;
        if (right < left) std::swap(left, right);
    }
};
// recording comparator for tlx's own CS_IfSwap<Comparator>, which evaluates cmp(right, left)
// on references to the two array slots (cswap.hpp:42): first argument = right, second = left.
struct RecLess {
    bool operator()(const int& right, const int& left) const {
        if (!rec_pair(&left, &right)) return false;  // out of range: do not read, do not swap
        return right < left;
    }
};

struct Seq {
    bool ready = false;
    int cnt = 0;
    unsigned char l[MAXC], r[MAXC];
};
static Seq g_ref[NFAM][4][MAXN + 1];

// ------------------------------------------------------------------------------------------
// (key,tag) elements for the direct oracles

struct KT {
    int key, tag;
};
// the same with a heap-owning std::string payload: its move assignment is not self-safe (libstdc++ leaves a
// self-move-assigned string empty) and a moved-from payload is empty, so a compare-exchange that moves an element onto
// itself or reads one after moving from it corrupts the record visibly (kind k3s)
struct SKT {
    int key, tag;
    std::string payload;
};
static std::string payload_of(int key, int tag) { return vh::fmt("payload-%d-%d-xxxxxxxxxxxxxxxxxxxxxxxx", key, tag); }
struct KeyLess {
    template <class T>
    bool operator()(const T& a, const T& b) const { return a.key < b.key; }
};
struct KeyGreater {
    template <class T>
    bool operator()(const T& a, const T& b) const { return a.key > b.key; }
};

// exact-size heap array: any access outside [0,n) by the network is an ASan report
// (pad > 0 only for blocks whose network is already known to use out-of-range indices, see
// block_oob(): then every case of the block would die with the same ASan report)
template <class T>
struct Arr {
    T* base;
    T* p;
    explicit Arr(int n, int pad = 0) : base(new T[n + 2 * pad]()), p(base + pad) {}
    ~Arr() { delete[] base; }
    Arr(const Arr&) = delete;
};
static const int OOB_PAD = 64;

// ------------------------------------------------------------------------------------------
// block table

struct Block {
    int kind, fam, e, c, n;
    uint64_t first, count;
    std::string op;      // "best::sort13" / "best::sort(n=13)"
    std::string prefix;  // replay prefix "zo:best:e1:c0:n13:i"
};
static std::vector<Block> g_blocks;
static uint64_t g_total = 0;

static bool is_dispatch(int kind, int e) { return kind == ZO ? e >= 2 : e == 1; }

static uint64_t input_count(int kind, int n) {
    uint64_t c = 1;
    for (int i = 1; i <= n; ++i) c *= (kind == ZO ? 2 : kind == PERM ? (uint64_t)i : 3);  // K3 and K3S: 3^n
    return c;
}

static void add_block(int kind, int fam, int e, int c, int n) {
    Block b;
    b.kind = kind, b.fam = fam, b.e = e, b.c = c, b.n = n;
    b.first = g_total;
    b.count = input_count(kind, n);
    b.op = is_dispatch(kind, e) ? vh::fmt("%s::sort(n=%d)", FAM[fam], n) : vh::fmt("%s::sort%d", FAM[fam], n);
    b.prefix = vh::fmt("%s:%s:e%d:c%d:n%d:i", KIND[kind], FAM[fam], e, c, n);
    g_total += b.count;
    g_blocks.push_back(b);
}

static void build_blocks(int zo_max, int perm_max, int k3_max) {
    for (int fam = 0; fam < NFAM; ++fam)
        for (int e = 0; e < 4; ++e)
            for (int n = (e >= 2 ? 0 : 2); n <= zo_max; ++n) add_block(ZO, fam, e, 0, n);
    for (int kind = PERM; kind <= K3S; ++kind)
        for (int fam = 0; fam < NFAM; ++fam)
            for (int e = 0; e < 2; ++e)
                for (int c = 0; c < 2; ++c)
                    for (int n = (e == 1 ? 0 : 2); n <= (kind == PERM ? perm_max : kind == K3 ? k3_max : std::min(k3_max, 8)); ++n)
                        add_block(kind, fam, e, c, n);
}

static const Block* find_block(uint64_t id) {
    static size_t last = 0;
    if (last < g_blocks.size() && id >= g_blocks[last].first && id - g_blocks[last].first < g_blocks[last].count)
        return &g_blocks[last];
    size_t lo = 0, hi = g_blocks.size();
    while (hi - lo > 1) {
        size_t mid = (lo + hi) / 2;
        if (g_blocks[mid].first <= id) lo = mid;
        else hi = mid;
    }
    last = lo;
    return &g_blocks[lo];
}

// ------------------------------------------------------------------------------------------
// counters (slots registered by the parent before the enumeration starts)

static int S_cases, S_calls, S_nontrivial, S_zo, S_perm, S_k3, S_cswaps, S_obl;
static inline void add(int slot, long long v = 1) { vh::shm()->stat_val[slot] += v; }

static std::string replay_of(const Block& b, uint64_t input) {
    return b.prefix + vh::fmt("%llu", (unsigned long long)input);
}
static std::string sig_of(const Block& b, const char* oracle) { return b.op + "/" + oracle; }

// cheap per-case position marker (hundreds of millions of cases in the thorough tier)
static void publish(const Block& b, uint64_t input) {
    static const Block* cur = nullptr;
    vh::Shared* s = vh::shm();
    if (cur != &b || strcmp(s->op, b.op.c_str()) != 0) {
        vh::at_op(b.op.c_str());
        cur = &b;
    }
    char* p = s->replay;
    memcpy(p, b.prefix.data(), b.prefix.size());
    p += b.prefix.size();
    char tmp[24];
    int k = 0;
    do {
        tmp[k++] = (char)('0' + input % 10);
        input /= 10;
    } while (input);
    while (k) *p++ = tmp[--k];
    *p = 0;
}

static std::string bits_str(const int* a, int n) {
    std::string s;
    for (int i = 0; i < n; ++i) s += (char)('0' + a[i]);
    return s.empty() ? "-" : s;
}
static std::string kt_str(const KT* a, int n) {
    std::string s;
    for (int i = 0; i < n; ++i) s += vh::fmt("%s%d.%d", i ? " " : "", a[i].key, a[i].tag);
    return s.empty() ? "-" : s;
}
static std::string seq_str(int cnt, const unsigned char* l, const unsigned char* r) {
    std::string s;
    for (int i = 0; i < cnt && i < MAXC && i < 90; ++i) s += vh::fmt("%s%d:%d", i ? " " : "", l[i], r[i]);
    return s;
}

// ------------------------------------------------------------------------------------------
// zero-one cases

static void zo_call(const Block& b, int* a) {
    int n = b.n;
    R.base = (uintptr_t)a;
    R.n = n;
    R.cnt = 0;
    R.oob = 0;
    for (int i = 0; i < n; ++i) R.shadow[i] = a[i];
    switch (b.e) {
    case 0: direct(b.fam, n, a, RecCSwap()); break;
    case 1: direct(b.fam, n, a, sn::CS_IfSwap<RecLess>(RecLess())); break;
    case 2: dispatch_default(b.fam, a, a + n); break;
    default: dispatch(b.fam, a, a + n, RecLess()); break;
    }
}

static void fill_bits(int* a, int n, uint64_t input) {
    for (int i = 0; i < n; ++i) a[i] = (int)((input >> i) & 1);
}

// Blocks whose variant does not record (zo e2, all (key,tag) blocks) detect an out-of-range index
// only as an ASan crash — in EVERY case of the block.  To keep such a defect from turning into a
// crash storm (200-crash cap, rest of the enumeration skipped), the recording int variant of the
// same entry point is run once per block on the all-zero input (the recorders never touch an
// out-of-range slot); if it sees an out-of-range index, every case of the block fails with the
// "oblivious" signature and the real call gets an array padded by OOB_PAD slots on both sides.
static bool block_oob(const Block& b, std::string* what) {
    static std::vector<signed char> memo;
    static std::vector<std::string> memo_what;
    size_t bi = &b - g_blocks.data();
    if (memo.empty()) memo.assign(g_blocks.size(), -1), memo_what.resize(g_blocks.size());
    if (memo[bi] < 0) {
        Block pb = b;
        pb.kind = ZO;
        pb.e = is_dispatch(b.kind, b.e) ? 3 : 0;
        Arr<int> z(b.n);
        fill_bits(z.p, b.n, 0);
        zo_call(pb, z.p);
        memo[bi] = R.oob ? 1 : 0;
        if (R.oob)
            memo_what[bi] = vh::fmt("recording run of the same entry point: compare-exchange uses index (%ld,%ld) outside [0,%d)",
                                    R.oob_l, R.oob_r, b.n);
    }
    if (memo[bi] > 0 && what) *what = memo_what[bi];
    return memo[bi] > 0;
}

static void zo_case(const Block& b, uint64_t input) {
    const int n = b.n;
    const bool recording = b.e != 2;
    Seq& ref = g_ref[b.fam][b.e][n];
    if (recording && !ref.ready) {
        // reference comparator sequence of this block: the one observed on the all-zero input
        Arr<int> z(n);
        fill_bits(z.p, n, 0);
        zo_call(b, z.p);
        ref.cnt = R.cnt;
        memcpy(ref.l, R.l, sizeof ref.l);
        memcpy(ref.r, R.r, sizeof ref.r);
        ref.ready = true;
        if (b.e == 0) vh::outcome(vh::fmt("%s: sort%d issues %d compare-exchanges", FAM[b.fam], n, R.cnt));
    }
    std::string oob_what;
    const bool oob = !recording && block_oob(b, &oob_what);
    if (oob) vh::fail(sig_of(b, "oblivious"), replay_of(b, input), b.op + vh::fmt(" variant e%d: ", b.e) + oob_what);
    Arr<int> arr(n, oob ? OOB_PAD : 0);
    int* a = arr.p;
    fill_bits(a, n, input);
    int in[MAXN + 1];
    int ones = 0;
    bool sorted_in = true;
    for (int i = 0; i < n; ++i) {
        in[i] = a[i];
        ones += a[i];
        if (i && a[i - 1] > a[i]) sorted_in = false;
    }

    zo_call(b, a);
    add(S_calls);

    // oracle 1: 0^(n-ones) 1^ones
    bool ok = true;
    for (int i = 0; i < n; ++i)
        if (a[i] != (i >= n - ones ? 1 : 0)) ok = false;
    if (!ok)
        vh::fail(sig_of(b, "zero-one"), replay_of(b, input),
                 vh::fmt("%s variant e%d: input=%s output=%s expected %d zeros then %d ones", b.op.c_str(), b.e,
                         bits_str(in, n).c_str(), bits_str(a, n).c_str(), n - ones, ones));
    // oracle 2: obliviousness
    if (recording) {
        add(S_obl);
        add(S_cswaps, R.cnt);
        if (R.oob)
            vh::fail(sig_of(b, "oblivious"), replay_of(b, input),
                     vh::fmt("%s variant e%d: compare-exchange #%d uses index (%ld,%ld) outside [0,%d); input=%s",
                             b.op.c_str(), b.e, R.cnt, R.oob_l, R.oob_r, n, bits_str(in, n).c_str()));
        else if (R.cnt != ref.cnt || R.cnt > MAXC || memcmp(R.l, ref.l, std::min(R.cnt, MAXC)) != 0 ||
                 memcmp(R.r, ref.r, std::min(R.cnt, MAXC)) != 0)
            vh::fail(sig_of(b, "oblivious"), replay_of(b, input),
                     vh::fmt("%s variant e%d: comparator sequence depends on the data: input=%s gives %d pairs [%s], "
                             "all-zero input gives %d pairs [%s]",
                             b.op.c_str(), b.e, bits_str(in, n).c_str(), R.cnt, seq_str(R.cnt, R.l, R.r).c_str(),
                             ref.cnt, seq_str(ref.cnt, ref.l, ref.r).c_str()));
        else if (memcmp(a, R.shadow, sizeof(int) * n) != 0)
            vh::fail(sig_of(b, "oblivious"), replay_of(b, input),
                     vh::fmt("%s variant e%d: array was modified other than through the compare-exchange functor: "
                             "input=%s output=%s shadow=%s",
                             b.op.c_str(), b.e, bits_str(in, n).c_str(), bits_str(a, n).c_str(),
                             bits_str(R.shadow, n).c_str()));
    }
    add(S_zo);
    if (!sorted_in) add(S_nontrivial);
}

// ------------------------------------------------------------------------------------------
// direct cases: permutations / three keys, (key,tag) elements

template <class KT>
static void fill_perm(KT* a, int n, uint64_t input) {
    // factorial number system: digit i in [0, n-i) selects among the remaining keys
    int rest[MAXN];
    for (int i = 0; i < n; ++i) rest[i] = i;
    for (int i = 0; i < n; ++i) {
        int m = n - i;
        int d = (int)(input % m);
        input /= m;
        a[i].key = rest[d];
        a[i].tag = i;
        for (int j = d; j + 1 < m; ++j) rest[j] = rest[j + 1];
    }
}
template <class T>
static void fill_k3(T* a, int n, uint64_t input) {
    for (int i = 0; i < n; ++i) {
        a[i].key = (int)(input % 3);
        a[i].tag = i;
        input /= 3;
    }
}
static void set_payload(KT*, int) {}
static void set_payload(SKT* a, int n) {
    for (int i = 0; i < n; ++i) a[i].payload = payload_of(a[i].key, a[i].tag);
}
static bool payload_ok(const KT&) { return true; }
static bool payload_ok(const SKT& e) { return e.payload == payload_of(e.key, e.tag); }
static std::string kt_str(const SKT* a, int n) {
    std::string s;
    for (int i = 0; i < n; ++i) s += vh::fmt("%s%d.%d%s", i ? " " : "", a[i].key, a[i].tag, payload_ok(a[i]) ? "" : "(payload lost)");
    return s;
}

template <class T, class Cmp>
static void kt_call(const Block& b, T* a, Cmp cmp) {
    if (b.e == 0) direct(b.fam, b.n, a, sn::CS_IfSwap<Cmp>(cmp));
    else dispatch(b.fam, a, a + b.n, cmp);
}

template <class KT>
static void kt_case_t(const Block& b, uint64_t input) {
    const int n = b.n;
    std::string oob_what;
    const bool oob = block_oob(b, &oob_what);
    if (oob) vh::fail(sig_of(b, "oblivious"), replay_of(b, input), b.op + ": " + oob_what);
    Arr<KT> arr(n, oob ? OOB_PAD : 0);
    KT* a = arr.p;
    if (b.kind == PERM) fill_perm(a, n, input);
    else fill_k3(a, n, input);
    set_payload(a, n);
    KT in[MAXN + 1];
    bool sorted_in = true;
    for (int i = 0; i < n; ++i) {
        in[i] = a[i];
        if (i && (b.c == 0 ? a[i].key < a[i - 1].key : a[i].key > a[i - 1].key)) sorted_in = false;
    }

    if (b.c == 0) kt_call(b, a, KeyLess());
    else kt_call(b, a, KeyGreater());
    add(S_calls);

    // sorted: no adjacent inversion w.r.t. the comparator (written out on the keys)
    bool ok = true;
    for (int i = 1; i < n; ++i)
        if (b.c == 0 ? a[i].key < a[i - 1].key : a[i].key > a[i - 1].key) ok = false;
    // permutation of the input pairs: every tag once, with its original key
    unsigned seen = 0;
    for (int i = 0; i < n; ++i) {
        int t = a[i].tag;
        if (t < 0 || t >= n || (seen >> t & 1) || in[t].key != a[i].key || !payload_ok(a[i])) ok = false;
        else seen |= 1u << t;
    }
    if (!ok)
        vh::fail(sig_of(b, ORACLE[b.kind]), replay_of(b, input),
                 vh::fmt("%s with %s via %s: input(key.tag)=[%s] output=[%s] is not a sorted permutation of the input",
                         b.op.c_str(), b.c ? "greater" : "less", b.e ? "sort(begin,end,cmp)" : "CS_IfSwap<Cmp>",
                         kt_str(in, n).c_str(), kt_str(a, n).c_str()));
    add(b.kind == PERM ? S_perm : S_k3);
    if (!sorted_in) add(S_nontrivial);
}
static void kt_case(const Block& b, uint64_t input) {
    if (b.kind == K3S) kt_case_t<SKT>(b, input);
    else kt_case_t<KT>(b, input);
}

static void run_block_case(const Block& b, uint64_t input) {
    publish(b, input);
    if (b.kind == ZO) zo_case(b, input);
    else kt_case(b, input);
    add(S_cases);
}

// ------------------------------------------------------------------------------------------

static bool parse_replay(const std::string& r, const Block** bp, uint64_t* input) {
    char kind[16], fam[48];
    int e, c, n;
    unsigned long long in;
    if (sscanf(r.c_str(), "%15[^:]:%47[^:]:e%d:c%d:n%d:i%llu", kind, fam, &e, &c, &n, &in) != 6) return false;
    for (const Block& b : g_blocks)
        if (kind == std::string(KIND[b.kind]) && fam == std::string(FAM[b.fam]) && b.e == e && b.c == c && b.n == n) {
            if (in >= b.count) return false;
            *bp = &b;
            *input = in;
            return true;
        }
    return false;
}

int main(int argc, char** argv) {
    vh::init(argc, argv);
    const bool T = vh::args().thorough();
    // tiers: zero-one + obliviousness is complete (n <= 16) in both tiers; the direct oracles
    // grow with the tier.  Replay always uses the largest table so that any replay string decodes.
    int zo_max = (int)vh::args().opt_int("zo", 16);
    int perm_max = (int)vh::args().opt_int("perm", T ? 11 : 9);
    int k3_max = (int)vh::args().opt_int("k3", T ? 14 : 9);
    if (vh::args().has_replay) zo_max = 16, perm_max = std::max(perm_max, 12), k3_max = std::max(k3_max, 16);
    build_blocks(zo_max, perm_max, k3_max);

    S_cases = vh::stat_slot("cases", false);
    S_calls = vh::stat_slot("tlx_calls", false);
    S_nontrivial = vh::stat_slot("nontrivial_cases", false);
    S_zo = vh::stat_slot("zero_one_cases", false);
    S_obl = vh::stat_slot("oblivious_checks", false);
    S_cswaps = vh::stat_slot("compare_exchanges_recorded", false);
    S_perm = vh::stat_slot("permutation_cases", false);
    S_k3 = vh::stat_slot("three_key_cases", false);

    if (vh::args().has_replay) {
        return vh::replay_one([&](const std::string& r) {
            const Block* b;
            uint64_t input;
            if (!parse_replay(r, &b, &input)) {
                vh::out_line("ERROR cannot parse replay string '" + r + "'");
                return;
            }
            run_block_case(*b, input);
        });
    }
    if (vh::args().shard == 0) {
        vh::sample("zo:best:e0:c0:n13:i4660 = best::sort13(a, RecCSwap) on the 0/1 input whose bit i is a[i]; output must be "
                   "0^(13-k) 1^k and the recorded (left,right) index sequence must equal the one of the all-zero input");
        vh::sample("zo:bose_nelson_parameter:e3:c0:n16:i65535 = bose_nelson_parameter::sort(a, a+16, RecLess) through tlx "
                   "CS_IfSwap<RecLess>: indices recovered from the addresses of the compared slots");
        vh::sample("perm:bose_nelson:e0:c1:n8:i40319 = bose_nelson::sort8(a, CS_IfSwap<KeyGreater>) on permutation #40319 "
                   "(factorial number system) of (key,tag) pairs; output must be descending and the same pairs");
        vh::sample("k3:best:e1:c0:n7:i2186 = best::sort(a, a+7, KeyLess) on keys 2222222 (base-3 digits) with tags 0..6");
        vh::note(vh::fmt("blocks=%zu cases=%llu (zero-one n<=%d, permutations n<=%d, three-key n<=%d)", g_blocks.size(),
                         (unsigned long long)g_total, zo_max, perm_max, k3_max));
    }
    vh::run_cases(g_total, [&](uint64_t id) {
        const Block* b = find_block(id);
        run_block_case(*b, id - b->first);
    });
    return vh::finish();
}
