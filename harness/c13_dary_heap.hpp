// C13 — tlx::DAryHeap<Key, Arity, Compare>: closure over all operation histories (engine E2).
//
// Universe: keys {0..4}, every key at most twice in the heap (so <= 10 elements, three tree levels for
// arity <= 2, two levels above).  Key type = lifetime-tracked TKey (see c13_common.hpp).
// Comparators: std::less<TKey>, std::greater<TKey>, TableCmp (reads an external priority table that the
// driver owns; 5 table presets incl. ties and "all equal"; because under the all-equal table every arrangement
// is a heap and switching tables multiplies the reachable arrangements, the table configurations push only
// while the heap holds fewer than 7 (quick: 5) elements).
// Ops (mutating): push(const&) / push(&&) for every key below the multiplicity cap, pop(), extract_top(),
//   clear(), update_all() (plain, and — table comparator — after switching to another priority table: the
//   table change and the update_all() it requires are ONE op, so the heap is never driven in the
//   "priorities changed, not rebuilt yet" state in which nothing is promised),
//   build_heap(const vector&) / build_heap(first,last) / build_heap(vector&&) — the doc says "Builds a heap
//   from ...", the code replaces the contents (assign / resize+copy / clear+move), so the model replaces —
//   from every key list of length <= 3 when the heap holds <= full_size elements (this includes the empty
//   heap) and from every list of length <= 1 in every larger state.
// Oracles after every transition: size(), empty(), top() has minimal priority among the model multiset
//   and is a stored key, sanity_check(), array is a permutation of the model multiset, own heap-order scan,
//   extract_top() value, element ledger (no moved-from/destroyed element read or left in the array, live
//   elements == size).  In every new state: drain of a copy (copy ctor, then move ctor) by alternating
//   extract_top() and top()+pop() yields the model multiset in non-decreasing priority; original untouched.
#pragma once
#include <tlx/container/d_ary_heap.hpp>

#include <algorithm>
#include <list>

#include <unordered_map>

#include "c13_common.hpp"

namespace c13 {

struct TKey {
    int v;
    Life life;
    TKey() : v(-1) {}  // build_heap(const vector&) does heap_.resize(n): key_type must be default constructible
    explicit TKey(int x) : v(x) {}
    int val() const {
        life.touch();
        return v;
    }
};
inline bool operator<(const TKey& a, const TKey& b) { return a.val() < b.val(); }
inline bool operator>(const TKey& a, const TKey& b) { return a.val() > b.val(); }

enum { D_NK = 5, D_MAXMULT = 2, D_NTABLES = 5 };
static const int kDaryTables[D_NTABLES][D_NK] = {
    {0, 1, 2, 3, 4}, {4, 3, 2, 1, 0}, {0, 0, 1, 1, 2}, {2, 0, 2, 0, 1}, {1, 1, 1, 1, 1}};

struct TableCmp {
    const int* prio;
    bool operator()(const TKey& a, const TKey& b) const {
        int x = a.val(), y = b.val();
        if (x < 0 || x >= D_NK || y < 0 || y >= D_NK) {
            g_ctx->bad("comparator called with a value that is not a key");
            return false;
        }
        return prio[x] < prio[y];
    }
};

template <int CmpKind>
struct CmpSel;
template <>
struct CmpSel<0> {
    typedef std::less<TKey> type;
    static const char* nm() { return "less"; }
};
template <>
struct CmpSel<1> {
    typedef std::greater<TKey> type;
    static const char* nm() { return "greater"; }
};
template <>
struct CmpSel<2> {
    typedef TableCmp type;
    static const char* nm() { return "table"; }
};

template <unsigned Arity, int CmpKind>
struct DarySys {
    typedef typename CmpSel<CmpKind>::type Cmp;
    typedef tlx::DAryHeap<TKey, Arity, Cmp> Heap;
    static const bool kTable = CmpKind == 2;

    size_t full_size;  // build_heap from every list of length <= 3 in states with size() <= full_size
    size_t max_size;   // push only while size() < max_size (10 = no extra bound; the table configurations use less)
    int ntables;
    DarySys(size_t fs, size_t ms, int nt) : full_size(fs), max_size(ms), ntables(nt) {}

    struct State {
        Ctx ctx;
        int table[D_NK];
        int table_id = 0;
        std::unique_ptr<Heap> heap;
        int cnt[D_NK] = {0, 0, 0, 0, 0};
        size_t n = 0;
        size_t steps = 0;
        State() {
            g_ctx = &ctx;
            for (int i = 0; i < D_NK; ++i) table[i] = kDaryTables[0][i];
            heap.reset(new_heap(Cmp()));
        }
        Heap* new_heap(std::less<TKey> c) { return new Heap(c); }
        Heap* new_heap(std::greater<TKey> c) { return new Heap(c); }
        Heap* new_heap(TableCmp) { return new Heap(TableCmp{table}); }
        ~State() {
            g_ctx = &ctx;
            heap.reset();
            if (ctx.live != 0) vh::fail_here("live-elements-at-end", vh::fmt("%ld elements alive after the heap was destroyed", ctx.live));
        }
    };

    std::string name_;
    const std::string& name() {
        if (name_.empty()) name_ = vh::fmt("DAryHeap<a%u,%s>", Arity, CmpSel<CmpKind>::nm());
        return name_;
    }
    std::unique_ptr<State> fresh() { return std::unique_ptr<State>(new State()); }

    enum Kind { PUSH_COPY = 1, PUSH_MOVE, POP, EXTRACT, CLEAR, UPDATE_ALL, RETABLE, BUILD_VEC, BUILD_ITER, BUILD_MOVE };
    static uint32_t enc(int k, unsigned arg = 0) { return ((uint32_t)k << 12) | arg; }

    std::unordered_map<uint32_t, std::string> name_cache_;
    std::string op_name(uint32_t op) {
        auto it = name_cache_.find(op);
        if (it != name_cache_.end()) return it->second;
        return name_cache_[op] = op_name_uncached(op);
    }
    std::string op_name_uncached(uint32_t op) {
        unsigned k = op >> 12, a = op & 4095;
        switch (k) {
        case PUSH_COPY: return vh::fmt("DAryHeap.push(const& %u)", a);
        case PUSH_MOVE: return vh::fmt("DAryHeap.push(&& %u)", a);
        case POP: return "DAryHeap.pop()";
        case EXTRACT: return "DAryHeap.extract_top()";
        case CLEAR: return "DAryHeap.clear()";
        case UPDATE_ALL: return "DAryHeap.update_all()";
        case RETABLE: return vh::fmt("DAryHeap.update_all(after switching to priority table T%u)", a);
        case BUILD_VEC: return "DAryHeap.build_heap(const vector& " + list_str(decode_list(a, D_NK)) + ")";
        case BUILD_ITER: return "DAryHeap.build_heap(first,last " + list_str(decode_list(a, D_NK)) + ")";
        case BUILD_MOVE: return "DAryHeap.build_heap(vector&& " + list_str(decode_list(a, D_NK)) + ")";
        }
        return "DAryHeap.?";
    }

    static bool list_ok(const std::vector<int>& l) {
        int c[D_NK] = {0, 0, 0, 0, 0};
        for (int k : l)
            if (++c[k] > D_MAXMULT) return false;
        return true;
    }

    std::vector<uint32_t> build_menu_[2];
    std::vector<uint32_t> ops(const State& s) {
        std::vector<uint32_t> r;
        for (int k = 0; k < D_NK; ++k)
            if (s.cnt[k] < D_MAXMULT && s.n < max_size) {
                r.push_back(enc(PUSH_COPY, k));
                r.push_back(enc(PUSH_MOVE, k));
            }
        if (s.n) {
            r.push_back(enc(POP));
            r.push_back(enc(EXTRACT));
        }
        r.push_back(enc(CLEAR));
        r.push_back(enc(UPDATE_ALL));
        if (kTable)
            for (int t = 0; t < ntables; ++t)
                if (t != s.table_id) r.push_back(enc(RETABLE, t));
        std::vector<uint32_t>& menu = build_menu_[s.n <= full_size ? 1 : 0];
        if (menu.empty()) {
            unsigned nl = num_lists(D_NK, s.n <= full_size ? 3 : 1);
            for (unsigned c = 0; c < nl; ++c) {
                if (!list_ok(decode_list(c, D_NK))) continue;
                menu.push_back(enc(BUILD_VEC, c));
                menu.push_back(enc(BUILD_ITER, c));
                menu.push_back(enc(BUILD_MOVE, c));
            }
        }
        r.insert(r.end(), menu.begin(), menu.end());
        return r;
    }

    static int prio(const State& s, int k) { return CmpKind == 0 ? k : CmpKind == 1 ? -k : s.table[k]; }
    static bool min_prio(const State& s, int* out) {
        bool any = false;
        for (int k = 0; k < D_NK; ++k)
            if (s.cnt[k] && (!any || prio(s, k) < *out)) {
                *out = prio(s, k);
                any = true;
            }
        return any;
    }
    static std::string model_str(const State& s) {
        std::string m = "{";
        for (int k = 0; k < D_NK; ++k)
            for (int i = 0; i < s.cnt[k]; ++i) m += std::to_string(k) + " ";
        return m + "}";
    }
    static std::string array_str(const State& s) {
        std::string a = "[";
        for (const TKey& t : s.heap->heap_) a += std::to_string(t.v) + (t.life.alive() ? " " : "! ");
        return a + "]";
    }

    void set_model_from_list(State& s, const std::vector<int>& l) {
        for (int k = 0; k < D_NK; ++k) s.cnt[k] = 0;
        for (int k : l) s.cnt[k]++;
        s.n = l.size();
    }

    // all cheap queries + structure, after every transition
    void check_queries(State& s) {
        Heap& h = *s.heap;
        if (h.size() != s.n) {
            vh::fail_here("size", vh::fmt("size()=%zu, model %s", h.size(), model_str(s).c_str()));
            return;
        }
        if (h.empty() != (s.n == 0)) {
            vh::fail_here("empty", vh::fmt("empty()=%d, model %s", (int)h.empty(), model_str(s).c_str()));
            return;
        }
        int mp = 0;
        bool any = min_prio(s, &mp);
        if (any && !h.empty()) {
            const TKey& t = h.top();
            int v = t.val();
            if (v < 0 || v >= D_NK || !s.cnt[v] || prio(s, v) != mp) {
                vh::fail_here("top", vh::fmt("top()=%d is not a minimum-priority element of %s (array %s)", v, model_str(s).c_str(), array_str(s).c_str()));
                return;
            }
        }
        if (!h.sanity_check()) {
            vh::fail_here("sanity_check", vh::fmt("sanity_check() false, array %s", array_str(s).c_str()));
            return;
        }
        // structure (private members): permutation of the model multiset, heap order, no dead/moved-from slot
        int c[D_NK] = {0, 0, 0, 0, 0};
        bool perm = h.heap_.size() == s.n, alive = true;
        for (const TKey& t : h.heap_) {
            if (!t.life.alive()) alive = false;
            if (t.v < 0 || t.v >= D_NK) perm = false;
            else c[t.v]++;
        }
        for (int k = 0; k < D_NK; ++k)
            if (c[k] != s.cnt[k]) perm = false;
        if (!alive) {
            vh::fail_here("element-lifetime", vh::fmt("array holds a moved-from/destroyed element: %s", array_str(s).c_str()));
            return;
        }
        else if (!perm) {
            vh::fail_here("contents", vh::fmt("array %s is not a permutation of the model %s", array_str(s).c_str(), model_str(s).c_str()));
            return;
        }
        else {
            for (size_t i = 1; i < h.heap_.size(); ++i) {
                size_t p = (i - 1) / Arity;
                if (prio(s, h.heap_[i].v) < prio(s, h.heap_[p].v)) {
                    vh::advisory("heap-order", vh::fmt("slot %zu (key %d) precedes its parent slot %zu (key %d): %s", i, h.heap_[i].v, p, h.heap_[p].v, array_str(s).c_str()));
                }
            }
        }
        if (s.ctx.misuse) {
            vh::fail_here("element-lifetime", s.ctx.first_misuse);
            return;
        }
        if (s.ctx.live != (long)s.n) {
            vh::fail_here("live-elements", vh::fmt("%ld elements alive, model holds %zu", s.ctx.live, s.n));
            return;
        }
    }

    void apply(State& s, uint32_t op) {
        g_ctx = &s.ctx;
        Heap& h = *s.heap;
        unsigned k = op >> 12, a = op & 4095;
        switch (k) {
        case PUSH_COPY: {
            TKey key((int)a);
            h.push(key);
            if (!key.life.alive() || key.v != (int)a) vh::fail_here("argument-modified", "push(const&) changed its argument");
            s.cnt[a]++;
            s.n++;
            break;
        }
        case PUSH_MOVE:
            h.push(TKey((int)a));
            s.cnt[a]++;
            s.n++;
            break;
        case POP: {
            int v = h.top().val();
            h.pop();
            if (v >= 0 && v < D_NK && s.cnt[v]) s.cnt[v]--;
            s.n--;
            break;
        }
        case EXTRACT: {
            int mp = 0;
            min_prio(s, &mp);
            int v;
            {
                TKey t = h.extract_top();
                v = t.val();
            }
            if (v < 0 || v >= D_NK || !s.cnt[v] || prio(s, v) != mp)
                vh::fail_here("returned-value", vh::fmt("extract_top() returned %d, not a minimum-priority element of %s", v, model_str(s).c_str()));
            else s.cnt[v]--;
            s.n--;
            break;
        }
        case CLEAR:
            h.clear();
            set_model_from_list(s, {});
            break;
        case UPDATE_ALL: h.update_all(); break;
        case RETABLE:
            s.table_id = (int)a;
            for (int i = 0; i < D_NK; ++i) s.table[i] = kDaryTables[a][i];
            h.update_all();
            break;
        case BUILD_VEC: {
            const std::vector<int>& l = decode_list(a, D_NK);
            {
                std::vector<TKey> keys;
                for (int x : l) keys.emplace_back(x);
                h.build_heap(keys);
                bool same = keys.size() == l.size();
                for (size_t i = 0; same && i < l.size(); ++i) same = keys[i].life.alive() && keys[i].v == l[i];
                if (!same) vh::fail_here("argument-modified", "build_heap(const vector&) changed its argument");
            }
            set_model_from_list(s, l);
            break;
        }
        case BUILD_ITER: {
            const std::vector<int>& l = decode_list(a, D_NK);
            {
                std::list<TKey> keys;
                for (int x : l) keys.emplace_back(x);
                h.build_heap(keys.begin(), keys.end());
            }
            set_model_from_list(s, l);
            break;
        }
        case BUILD_MOVE: {
            const std::vector<int>& l = decode_list(a, D_NK);
            {
                std::vector<TKey> keys;
                for (int x : l) keys.emplace_back(x);
                h.build_heap(std::move(keys));
            }
            set_model_from_list(s, l);
            break;
        }
        }
        if (is_last_op_of_published_history(++s.steps)) check_queries(s);
    }

    void observe(State& s) {
        g_ctx = &s.ctx;
        std::string before = canon(s);
        {
            Heap c(*s.heap);         // copy constructor
            Heap m(std::move(c));    // move constructor
            std::vector<int> out;
            bool alt = false;
            while (!m.empty() && out.size() <= s.n + 2) {
                if (alt) {
                    out.push_back(m.top().val());
                    m.pop();
                } else {
                    TKey t = m.extract_top();
                    out.push_back(t.val());
                }
                alt = !alt;
            }
            int c2[D_NK] = {0, 0, 0, 0, 0};
            bool ok = out.size() == s.n;
            for (size_t i = 0; i < out.size(); ++i) {
                if (out[i] < 0 || out[i] >= D_NK) ok = false;
                else c2[out[i]]++;
                if (i && ok && out[i - 1] >= 0 && out[i - 1] < D_NK && prio(s, out[i]) < prio(s, out[i - 1])) ok = false;
            }
            for (int k = 0; k < D_NK; ++k)
                if (c2[k] != s.cnt[k]) ok = false;
            if (!ok) {
                std::string o;
                for (int x : out) o += std::to_string(x) + " ";
                vh::fail_here("drain", vh::fmt("draining a copy gave [%s], model %s (array %s)", o.c_str(), model_str(s).c_str(), array_str(s).c_str()));
            }
        }
        if (canon(s) != before) vh::fail_here("copy-aliases-original", "draining a copy changed the original heap");
        if (s.ctx.misuse) vh::fail_here("element-lifetime", s.ctx.first_misuse);
        if (s.ctx.live != (long)s.n) vh::fail_here("live-elements", vh::fmt("%ld elements alive after the copies were destroyed, model holds %zu", s.ctx.live, s.n));
        vh::outcome(vh::fmt("DAryHeap a%u %s size=%zu", Arity, CmpSel<CmpKind>::nm(), s.n));
    }

    std::string canon(const State& s) {
        std::string c;
        for (const TKey& t : s.heap->heap_) {
            c += (char)('0' + t.v);
            if (!t.life.alive()) c += '!';
        }
        if (kTable) c += vh::fmt(" T%d", s.table_id);
        return c;
    }
};

template <unsigned Arity, int CmpKind>
void add_dary(std::vector<Config>& out, bool thorough, bool in_quick) {
    if (!thorough && !in_quick) return;
    // measured CPU seconds per configuration (arity 1..8), used for shard balancing only
    static const double t_plain[9] = {0, 0.6, 2.7, 5.3, 9, 11, 15, 19, 25}, t_table[9] = {0, 22, 27, 32, 37, 39, 42, 44, 46};
    static const double q_plain[9] = {0, 0.2, 1.7, 4, 6.3, 8, 10, 12, 14}, q_table[9] = {0, 2.3, 2.7, 3.1, 3.5, 4, 4, 4, 4};
    double cost = thorough ? (CmpKind == 2 ? t_table : t_plain)[Arity] : (CmpKind == 2 ? q_table : q_plain)[Arity];
    // less/greater: the full universe (<= 10 elements).  Table comparator: switching tables multiplies the reachable
    // arrangements (under the all-equal table every arrangement is a heap), so the size is capped instead.
    size_t ms = CmpKind == 2 ? (size_t)vh::args().opt_int("tsize", thorough ? 7 : 5) : 10;
    auto sys = std::make_shared<DarySys<Arity, CmpKind>>(thorough ? 4 : 2, ms, (int)vh::args().opt_int("ntables", D_NTABLES));
    vhist::Options opt;  // closure
    out.push_back(make_config(sys, cost, opt,
                              sys->name() + ": e.g. push(&& 3) push(const& 1) build_heap(first,last [4 0 4]) push(&& 0) extract_top() "
                                            "update_all() pop() clear() — closure over all such histories, keys 0..4, each at most twice"));
}

}  // namespace c13
