"""C01 (semantic oracle) and C02 (structural oracle) run the SAME harness binaries and the same explorations;
the option oracle=semantic|structural selects which oracle family is reported (checks/C02.py imports make_plan)."""
from vlib import Harness, NCPU

QUICK_TUS = 5    # harness/c01_btree_t00..t04.cpp hold the type configurations of the quick tier
ALL_TUS = 22


def harnesses(tier):
    n = ALL_TUS if tier == "thorough" else QUICK_TUS
    src = ["harness/c01_btree_main.cpp"] + ["harness/c01_btree_t%02d.cpp" % i for i in range(n)]
    tag = "" if tier == "thorough" else "_q"
    hp = Harness("c01_btree%s_plain" % tag, src, flavor="plain", tlx_cpp=["tlx/die/core.cpp"])
    ha = Harness("c01_btree%s_asan" % tag, src, flavor="asan", tlx_cpp=["tlx/die/core.cpp"])
    return hp, ha


RULE = (
    "E2 explicit-state BFS over operation histories of the real tlx::btree_{set,multiset,map,multimap} facade (custom traits: leaf_slots, inner_slots, "
    "binsearch_threshold = SIZE_MAX -> linear / 0 -> binary in-node search; counting allocator; key order std::less / std::greater; elements int or a heap-owning "
    "lifetime-tracked type) next to the std container. A state = canonical dump of the full internal structure (per node: level, slotuse, keys/data, children order, "
    "separators; leaf chain; tree_stats) of tree a (and of a second tree b in the two-tree configurations); `states` counts distinct canonical states, `transitions` real "
    "mutating calls. Ops: insert(value), insert(hint,value) with hint begin/end/lower_bound, range insert, erase(key), erase_one(key), erase(iterator) at every position, "
    "clear, bulk_load of every sorted sequence over the universe (only on the empty tree), copy-construct-and-replace, self-assignment, copy-assignment from / swap / "
    "std::swap with three fixed temporary trees, and with tree b (a=b, b=a, a.swap(b), std::swap(a,b)). After EVERY transition: verify() (die->exception), independent "
    "structure walk (levels, fill, order, separator == largest key below, leaf chain both directions, stats), nodes live in the allocator == nodes of the trees using it, "
    "live element objects == slots of live nodes, contents == std container, returned values/iterator positions. In every NEW state: size/empty, "
    "exists/find/count/lower_bound/upper_bound/equal_range for every key -1..K (const and non-const overloads), the four iterator kinds forward/reverse with ++/-- "
    "(prefix, postfix) round trips from every position, iterator conversions, key_comp/value_comp, a copy (all six relational operators both ways, no-op mutators, "
    "operator[] for maps), a mutated copy (original must be unchanged), assignment over a non-empty / empty target, clear; ledgers back to baseline afterwards. "
    "Mode A = closure (every history of any length) over the universe 0..K-1 with multiplicity cap M; mode B = depth-bounded BFS from the seeds bulk_load(n) of the odd keys "
    "1,3,..,2n-1 (multi: every key R=2*leaf+1 times) with inserts of every gap key; mode S = closure over tree SHAPES for the unique-key kinds: the canonical state "
    "keeps only the slot count of every node (and whether each separator equals the largest key below it), operations are rank-based (insert a fresh key into every gap, "
    "also with a hint; erase by iterator / by key / erase_one at every rank; bulk_load(n) for every n <= N on the empty tree) and the size is capped at N, so EVERY valid "
    "tree shape with at most N keys that is reachable below the cap is expanded once - three-level trees with every combination of node fills, i.e. all leaf and inner "
    "shift/merge cases between siblings under the same or different parents (sound because the tree only compares keys: two trees of the same shape behave identically "
    "under rank-based operations). %s")

BOUNDS = {
    "quick": "Quick: mode S (4,4) set N=25 (47 635 shapes, plain) and tracked set N=21 (ASan); mode A (4,4) linear set K=12 (plain) / K=10 (ASan), (4,5) binary multimap K=3,M=3 with data values in the canonical form and K=4,M=4 with abstracted data "
             "values, two-tree (4,4) set K=6, tracked (4,4) set K=9 and multimap K=3,M=4 under ASan; mode B for (4,4),(5,6),(8,8): depth 1 from every n<=3*leaf*(inner+1), "
             "depth 2 from n<=45 and around the first three-level size (plain), depth 1 from n<=60 + boundary sizes and depth 2 from n<=3*leaf (ASan).",
    "thorough": "Thorough, plain -O2 build: mode S for (4,4) N=28, (4,5) N=26, (5,4) N=25, (5,5) N=25, (6,4) N=34, (4,6) N=27 (set linear/less; map binary/greater with N-1) and (6,6) N=36; "
                "ASan: mode S tracked set (4,4) N=25 and tracked map (5,4) N=22; mode A for capacities (4,4),(4,5),(5,4),(5,5),(6,4),(4,6) x 4 kinds x {linear+less, binary+greater} ((4,4): all four combinations): "
                "set/map K=14 for (4,4) (three-level trees), K=13 otherwise, multiset K=4,M=5, multimap K=4,M=5 (data values abstracted) and K=3,M=3 (exact); two-tree "
                "configurations K=7 (multi: K=3,M=3); maps with 2 data values per key K=9; tracked elements K=12 / K=4,M=4 and mode B depth 2 from n<=40; mode B for every (leaf,inner) in [4..9]^2 with two "
                "type configurations each (set+multimap or map+multiset, linear+less and binary+greater): depth 1 from every n<=3*leaf*(inner+1), depth 2 from every n<=64 (multi kinds without repeated seed keys: n<=54) and "
                "around the first three-level size leaf*(inner+1)+1, depth 3 from n<=36 (multi: n<=28) for (4,4),(4,5),(5,4); default traits (32..64-slot class): depth 1 from 12 boundary "
                "sizes. ASan build: the same mode A configurations with K two smaller (12/11, multi M=4), tracked K=10, mode B depth 1 from n<=90 + boundary sizes, depth 2 "
                "from n<=2*leaf+8.",
}

ASSUMPTIONS = [
    "key type int or the tracked wrapper of int; comparators std::less/std::greater (stateless); capacities 4..9 and the default traits",
    "bulk_load only on an empty tree with a sequence sorted by the key order (strictly increasing for set/map): documented precondition",
    "iterators are never moved past end()/before begin(), end() is never dereferenced or erased",
    "order among equivalent keys is unspecified: equal-key runs are compared as multisets, positions inside a run as 'anywhere in the run'; relational operators of multimaps "
    "are checked against the sequences the trees actually iterate",
    "multimap configurations marked c0 merge states that differ only in the data values of equal keys (tlx never inspects data values); the c1 configurations do not",
    "mode A covers three-level trees for (4,4) (K=14) and for the multi kinds; for the other capacities three-level trees are covered by mode B only (depth-bounded)",
    "mode B: in states with many keys every key is queried in every new state, alternating between the const and non-const overloads; re-insertion of present keys and erasure "
    "of absent keys are exercised on a copy in every new state instead of as transitions",
    "iterator conversions (reverse_iterator(iterator), const variants, iterator(reverse_iterator)) follow the std convention tlx implements (rbegin()==reverse_iterator(end()), "
    "base()-like copy back); a wrong conversion is reported as <kind>.observe/iterator-conversion but does not make the state terminal (the tree is intact); "
    "const_iterator(const_reverse_iterator) cannot be instantiated on the current tree (missing friend) and is not exercised",
    "mode S: keys are 32-bit integers chosen between their neighbours (ends: +-2^23 steps, interior: midpoints); an insertion into a gap that has no free integer left is not "
    "offered and counted (stat shape_gap_exhausted, 0 in all registered configurations); multi containers are not explored in mode S (duplicates break the shape abstraction)",
    "a state whose transition violated an oracle is terminal; crashes under the semantic oracle are left to C02 (same exploration)",
]


def make_plan(tier, oracle):
    hp, ha = harnesses(tier)
    if tier == "thorough":
        runs = [(hp, ["--tier", tier, "set=tp", "oracle=" + oracle, "--deadline", "3000"], NCPU, 5400),
                (ha, ["--tier", tier, "set=ta", "oracle=" + oracle, "--deadline", "2400"], NCPU, 5400)]
    else:
        runs = [(hp, ["--tier", tier, "set=qp", "oracle=" + oracle, "--deadline", "400"], NCPU, 900),
                (ha, ["--tier", tier, "set=qa", "oracle=" + oracle, "--deadline", "400"], NCPU, 900)]
    return {
        "harnesses": [hp, ha],
        "runs": runs,
        "rule": RULE % BOUNDS["thorough" if tier == "thorough" else "quick"],
        "assumptions": ASSUMPTIONS,
    }


def plan(tier):
    p = make_plan(tier, "semantic")
    p["rule"] = "C01 semantic oracle (reference agreement with the std container; structural/ledger/memory failures are reported by C02 on the same exploration). " + p["rule"]
    return p
