from vlib import Harness, NCPU

SRC = ["harness/c06_parallel_mergesort.cpp"]


def plan(tier):
    common = dict(shim=True, shim_tlx_cpp=["tlx/algorithm/parallel_multiway_merge.cpp"], tlx_cpp=["tlx/die/core.cpp"])
    ha = Harness("c06_pms_asan", SRC, flavor="asan", **common)
    ht = Harness("c06_pms_tsan", SRC, flavor="tsan", **common)
    dl = "150" if tier == "quick" else "1200"
    return {
        "harnesses": [ha, ht],
        "runs": [(ha, ["--tier", tier, "mode=inputs"], NCPU),
                 (ha, ["--tier", tier, "mode=schedules", "--deadline", dl], NCPU),
                 (ht, ["--tier", tier, "mode=schedules", "--deadline", dl, "bound_delta=-1" if tier == "thorough" else "bound_delta=0"], NCPU)],
        "rule": "inputs: every key sequence over {0,1,2} up to length 5 (quick) / 6 (thorough) plus sorted/reversed/all-equal/organ-pipe/cyclic "
                "patterns up to n=14/24, x threads {1..8,16,33} x {exact, sampling} splitting x oversampling x stable/unstable x {POD, heap-owning "
                "lifetime-tracked} element, each executed on the real code on the scheduler's deterministic default schedule (ASan, input in an "
                "exact-size heap block) and compared with std::stable_sort; schedules: 7 small inputs x 2 splittings x 2 element types under every "
                "interleaving within the bound (preemption bound for 2 threads, delay bound for 3-4 threads), ASan and TSan builds. states = distinct "
                "inputs + distinct schedules",
        "states_key": "states", "distinct_key": "states",
        "assumptions": ["SC interleavings only", "bounded preemptions/delays in the schedule dimension", "key alphabet of <= 4 keys (digits), n <= 24"],
    }
