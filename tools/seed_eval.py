#!/usr/bin/env python3
"""tools/seed_eval.py <seed-name> <property-id> <worktree> <ctest-regex> [--tier quick|thorough] [--checks C01,C02]

Confirms a seeded property-breaking change produced by an independent sub-agent and runs our checks
against it:
  1. in the agent's scratch worktree (change applied): rebuild and run the named repo tests -> must pass
  2. build+run the agent's demo with the change (must fail) and without it (must pass)
  3. copy patch.diff / demo / meta into /verif/seeded/<seed-name>/
  4. apply the patch to /repo, run bin/check for the property (evidence/replays diverted to a scratch
     dir), undo the patch
  5. write /verif/seeded/<seed-name>/meta.json
"""
import json
import os
import re
import shutil
import subprocess
import sys
import time

VERIF = os.path.dirname(os.path.dirname(os.path.abspath(__file__)))


def sh(cmd, cwd=None, timeout=3600, env=None):
    r = subprocess.run(cmd, shell=True, cwd=cwd, stdout=subprocess.PIPE, stderr=subprocess.STDOUT, text=True,
                       errors="replace", timeout=timeout, env=env)
    return r.returncode, r.stdout


def main():
    name, prop, wt, regex = sys.argv[1:5]
    tier = "quick"
    checks = [prop]
    a = sys.argv[5:]
    while a:
        if a[0] == "--tier":
            tier = a[1]
        elif a[0] == "--checks":
            checks = a[1].split(",")
        a = a[2:]
    out = os.path.join(VERIF, "seeded", name)
    os.makedirs(out, exist_ok=True)
    so = os.path.join(wt, "seed_out")
    meta = {"seed": name, "property": prop, "worktree_commit": sh("git rev-parse HEAD", wt)[1].strip()}
    # patch (regenerate from the worktree state to be sure it is what is applied)
    rc, diff = sh("git diff -- tlx", wt)
    open(os.path.join(out, "patch.diff"), "w").write(diff)
    meta["files_changed"] = re.findall(r"^\+\+\+ b/(\S+)", diff, re.M)
    for f in ("demo.cpp", "demo.txt", "meta.txt"):
        if os.path.exists(os.path.join(so, f)):
            shutil.copy(os.path.join(so, f), os.path.join(out, f))
    # 1. repo tests with the change
    t0 = time.time()
    if not os.path.exists(os.path.join(wt, "_build", "build.ninja")):
        sh("cmake -S . -B _build -G Ninja -DCMAKE_BUILD_TYPE=RelWithDebInfo -DTLX_BUILD_TESTS=ON -DTLX_MORE_TESTS=ON", wt)
    rc, o = sh("ctest --test-dir _build -N -R '%s' | grep -oE 'tlx_[a-z_0-9]+' | sort -u" % regex, wt)
    targets = o.split()
    rc, o = sh("cmake --build _build --target %s 2>&1 | tail -3" % " ".join(targets), wt)
    rc, o = sh("ctest --test-dir _build -R '%s' --timeout 1800 2>&1 | tail -8" % regex, wt, timeout=7200)
    meta["repo_tests"] = {"regex": regex, "targets": targets, "passed_with_change": "100% tests passed" in o,
                          "tail": o[-600:], "wall_s": round(time.time() - t0, 1)}
    # 2. demo with / without
    demo_cmd = None
    dt = os.path.join(so, "demo.txt")
    if os.path.exists(dt):
        for line in open(dt):
            if re.search(r"(g\+\+|clang\+\+)\s", line):
                demo_cmd = line.strip().lstrip("$ ").strip()
                break
    meta["demo_cmd"] = demo_cmd
    if demo_cmd:
        def run_demo():
            rc, o = sh(demo_cmd, so, timeout=1800)
            return rc, o[-1500:]
        rc1, o1 = run_demo()
        # (no `git stash`: the stash is shared by all worktrees of a repository and other agents use it too)
        sh("git apply -R %s" % os.path.join(out, "patch.diff"), wt)
        try:
            rc0, o0 = run_demo()
        finally:
            sh("git apply %s" % os.path.join(out, "patch.diff"), wt)
        meta["demo"] = {"with_change_rc": rc1, "with_change_tail": o1, "without_change_rc": rc0, "without_change_tail": o0[-400:],
                        "confirmed": rc1 != 0 and rc0 == 0}
    # 4. our checks against the change
    st = sh("git -C /repo status --porcelain -- tlx tests")[1].strip()
    if st:
        print("refusing: /repo has local changes:\n" + st)
        return 2
    rc, o = sh("git -C /repo apply %s" % os.path.join(out, "patch.diff"))
    if rc != 0:
        meta["apply_error"] = o
        json.dump(meta, open(os.path.join(out, "meta.json"), "w"), indent=1)
        print("patch does not apply to /repo:", o)
        return 2
    res = {}
    try:
        for c in checks:
            env = dict(os.environ)
            env["VERIF_OUT_DIR"] = "/tmp/seed_out_%s" % name
            t1 = time.time()
            rc, o = sh("bin/check %s --tier %s" % (c, tier), VERIF, timeout=7200, env=env)
            viol = [l[:300] for l in o.splitlines() if l.startswith("VIOLATION")]
            summ = [l for l in o.splitlines() if l.startswith("SUMMARY")]
            res[c] = {"exit": rc, "violations": len(viol), "first_violations": viol[:4], "summary": summ[-1] if summ else o[-500:],
                      "tier": tier, "wall_s": round(time.time() - t1, 1), "detected": rc == 1 and len(viol) > 0}
    finally:
        sh("git -C /repo checkout -- .")
        shutil.rmtree("/tmp/seed_out_%s" % name, ignore_errors=True)
    meta["checks"] = res
    meta["detected"] = any(v["detected"] for v in res.values())
    json.dump(meta, open(os.path.join(out, "meta.json"), "w"), indent=1)
    print(json.dumps({k: meta[k] for k in ("seed", "property", "detected")}),
          "tests_pass=%s demo_confirmed=%s" % (meta["repo_tests"]["passed_with_change"], meta.get("demo", {}).get("confirmed")))
    for c, v in res.items():
        print(" ", c, v["summary"][:200], v["first_violations"][:2])
    return 0


if __name__ == "__main__":
    sys.exit(main())
