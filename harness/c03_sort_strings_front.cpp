// C03 — the public front-end: every overload of tlx::sort_strings / tlx::sort_strings_lcp.
//   entries 0..3  (T** strings, size_t size[, lcp][, memory])  T = unsigned char, char, const unsigned char, const char
//   entries 4..7  (std::vector<T*>& strings[, lcp][, memory])  T = char, unsigned char, const char, const unsigned char
//   entry   8     (std::string* strings, size_t size[, lcp][, memory])
//   entry   9     (std::vector<std::string>& strings[, lcp][, memory])
// memory == 0 is passed by omitting the argument (the documented default).
#include "c03_sort_strings_algos.hpp"

namespace c03 {

// (no blanks: signatures must be single tokens for known-findings.txt)
static const char* const FRONT_ARG[10] = {"unsigned_char**", "char**", "const_unsigned_char**", "const_char**", "vector<char*>&",
                                          "vector<unsigned_char*>&", "vector<const_char*>&", "vector<const_unsigned_char*>&", "std::string*",
                                          "vector<std::string>&"};
static const char* const FRONT_SET[10] = {"UCharStringSet", "UCharStringSet", "CUCharStringSet", "CUCharStringSet", "UCharStringSet",
                                          "UCharStringSet", "CUCharStringSet", "CUCharStringSet", "StdStringSet", "StdStringSet"};

struct FrontRunner : Runner {
    const Input* in = nullptr;
    size_t n = 0;
    std::vector<unsigned char*> objs, sorted_objs, tmp;
    unsigned char** arr = nullptr;
    std::string* sarr = nullptr;
    std::vector<size_t> mult, cnt;
    LcpArray lcp;
    std::vector<View> views;

    const char* key() const override { return "front"; }
    int n_entries() const override { return 10; }
    std::string label(int e, bool l) const override {
        return std::string(l ? "sort_strings_lcp(" : "sort_strings(") + FRONT_ARG[e] + ")[" + FRONT_SET[e] + (l ? ",lcp]" : ",nolcp]");
    }
    bool quadratic(int) const override { return false; }

    void prepare(const Input& input) override {
        in = &input;
        n = in->seq.size();
        objs.resize(n);
        for (size_t i = 0; i < n; ++i) {
            const std::string& s = in->shape[in->seq[i]];
            unsigned char* p = new unsigned char[s.size() + 1];
            memcpy(p, s.data(), s.size());
            p[s.size()] = 0;
            objs[i] = p;
        }
        sorted_objs = objs;
        std::sort(sorted_objs.begin(), sorted_objs.end());
        arr = new unsigned char*[n ? n : 1];
        sarr = new std::string[n ? n : 1];
        mult.assign(in->shape.size(), 0);
        for (uint32_t s : in->seq) mult[s]++;
        lcp.alloc(n);
        views.resize(n);
    }

    template <class T>
    void call_ptr(bool with_lcp, size_t memory) {
        T** a = (T**)arr;  // C-style: adds const below the top level
        if (with_lcp) {
            if (memory == 0)
                tlx::sort_strings_lcp(a, n, lcp.p);
            else
                tlx::sort_strings_lcp(a, n, lcp.p, memory);
        } else {
            if (memory == 0)
                tlx::sort_strings(a, n);
            else
                tlx::sort_strings(a, n, memory);
        }
    }
    template <class T>
    bool call_vec(bool with_lcp, size_t memory) {
        std::vector<T*> v((T**)arr, (T**)arr + n);  // capacity == size
        if (with_lcp) {
            if (memory == 0)
                tlx::sort_strings_lcp(v, lcp.p);
            else
                tlx::sort_strings_lcp(v, lcp.p, memory);
        } else {
            if (memory == 0)
                tlx::sort_strings(v);
            else
                tlx::sort_strings(v, memory);
        }
        if (v.size() != n) {
            fail_permutation(vh::cur_op(), vh::fmt("vector resized from %zu to %zu", n, v.size()));
            return false;
        }
        for (size_t i = 0; i < n; ++i) arr[i] = const_cast<unsigned char*>(reinterpret_cast<const unsigned char*>(v[i]));
        return true;
    }

    void run(int e, bool with_lcp, size_t memory) override {
        lcp.fill();
        std::string lab = label(e, with_lcp);
        publish_call(lab, key(), e, with_lcp, memory);
        if (e < 8) {
            if (n) memcpy(arr, objs.data(), n * sizeof(arr[0]));
            if (with_lcp)
                note_path<ssd::StringLcpPtr<ssd::UCharStringSet, uint32_t> >("front:UCharStringSet", true, A_CE3, n, memory, *in);
            else
                note_path<ssd::StringPtr<ssd::UCharStringSet> >("front:UCharStringSet", false, A_CE3, n, memory, *in);
            bool ok = true;
            switch (e) {
            case 0: call_ptr<unsigned char>(with_lcp, memory); break;
            case 1: call_ptr<char>(with_lcp, memory); break;
            case 2: call_ptr<const unsigned char>(with_lcp, memory); break;
            case 3: call_ptr<const char>(with_lcp, memory); break;
            case 4: ok = call_vec<char>(with_lcp, memory); break;
            case 5: ok = call_vec<unsigned char>(with_lcp, memory); break;
            case 6: ok = call_vec<const char>(with_lcp, memory); break;
            case 7: ok = call_vec<const unsigned char>(with_lcp, memory); break;
            }
            if (!ok) return;
            counters().sorts++;
            counters().strings += n;
            tmp.assign(arr, arr + n);
            std::sort(tmp.begin(), tmp.end());
            if (tmp != sorted_objs) {
                size_t bad = 0;
                while (bad < n && tmp[bad] == sorted_objs[bad]) ++bad;
                fail_permutation(lab, vh::fmt("n=%zu: output pointer multiset differs from the input's (first difference at sorted rank %zu)", n, bad));
                return;
            }
            for (size_t i = 0; i < n; ++i) views[i] = View{arr[i], strlen(reinterpret_cast<const char*>(arr[i]))};
            check_order_lcp(lab, views.data(), n, with_lcp ? lcp.p : nullptr);
            return;
        }
        // std::string forms
        if (with_lcp)
            note_path<ssd::StringLcpPtr<ssd::StdStringSet, uint32_t> >("front:StdStringSet", true, A_CE3, n, memory, *in);
        else
            note_path<ssd::StringPtr<ssd::StdStringSet> >("front:StdStringSet", false, A_CE3, n, memory, *in);
        std::vector<std::string> vec;
        const std::string* out = sarr;
        if (e == 8) {
            for (size_t i = 0; i < n; ++i) sarr[i] = in->shape[in->seq[i]];
            if (with_lcp) {
                if (memory == 0)
                    tlx::sort_strings_lcp(sarr, n, lcp.p);
                else
                    tlx::sort_strings_lcp(sarr, n, lcp.p, memory);
            } else {
                if (memory == 0)
                    tlx::sort_strings(sarr, n);
                else
                    tlx::sort_strings(sarr, n, memory);
            }
        } else {
            vec.reserve(n);
            for (size_t i = 0; i < n; ++i) vec.push_back(in->shape[in->seq[i]]);
            if (with_lcp) {
                if (memory == 0)
                    tlx::sort_strings_lcp(vec, lcp.p);
                else
                    tlx::sort_strings_lcp(vec, lcp.p, memory);
            } else {
                if (memory == 0)
                    tlx::sort_strings(vec);
                else
                    tlx::sort_strings(vec, memory);
            }
            if (vec.size() != n) {
                fail_permutation(lab, vh::fmt("vector resized from %zu to %zu", n, vec.size()));
                return;
            }
            out = vec.data();
        }
        counters().sorts++;
        counters().strings += n;
        cnt.assign(in->shape.size(), 0);
        for (size_t i = 0; i < n; ++i) {
            size_t j = 0;
            while (j < in->shape.size() && out[i] != in->shape[j]) ++j;
            if (j == in->shape.size()) {
                fail_permutation(lab, vh::fmt("n=%zu: out[%zu]=%s is not a value of the input (moved-from leftover?)", n, i, hex(out[i]).c_str()));
                return;
            }
            cnt[j]++;
        }
        if (cnt != mult) {
            size_t j = 0;
            while (cnt[j] == mult[j]) ++j;
            fail_permutation(lab, vh::fmt("n=%zu: value %s occurs %zu times in the output, %zu times in the input", n, hex(in->shape[j]).c_str(),
                                          cnt[j], mult[j]));
            return;
        }
        for (size_t i = 0; i < n; ++i) views[i] = view_of(out[i]);
        check_order_lcp(lab, views.data(), n, with_lcp ? lcp.p : nullptr);
    }

    void release() override {
        for (unsigned char* p : objs) delete[] p;
        objs.clear();
        delete[] arr;
        arr = nullptr;
        delete[] sarr;
        sarr = nullptr;
        lcp.free_();
    }
};

Runner* make_runner_front() { return new FrontRunner; }

}  // namespace c03
