// vhist.hpp — explicit-state breadth-first exploration of operation histories (engine E2).
//
// A System couples the REAL tlx object with a boring reference model.  A state is identified by the
// canonical dump of the implementation's *internal* structure; it is re-created by replaying its
// (shortest) history on a fresh object, so non-copyable objects work and no tlx copy constructor is
// trusted.  BFS runs either to the full closure (frontier empty: every history of any length over
// the system's finite alphabet is covered) or to a depth bound from a set of seed histories.
//
// System concept:
//   struct Sys {
//     typedef ... State;
//     std::unique_ptr<State> fresh();                       // empty real object + empty model
//     std::vector<uint32_t> ops(const State&);              // enabled mutating ops, simplest first;
//                                                           // the driver enforces tlx's preconditions here
//     void apply(State&, uint32_t op);                      // real call + model call + per-step oracles (vh::fail_here)
//     void observe(State&);                                 // all read-only queries vs the model + invariants
//     std::string canon(const State&);                      // full internal structure, address-free
//     std::string op_name(uint32_t op);                     // short label, used in failure signatures
//     std::string name();                                   // configuration name
//   };
#pragma once
#include <deque>
#include <memory>
#include <string>
#include <unordered_map>
#include <unordered_set>
#include <vector>

#include "common/vharness.hpp"

namespace vhist {

struct Options {
    int max_depth = -1;           // -1 = closure
    size_t max_states = 5000000;  // safety cap (reported as CAP)
    bool check_canon_on_replay = true;
    std::vector<std::vector<uint32_t>> seeds;  // seed histories (default: the empty history)
};

struct Stats {
    unsigned long long states = 0, transitions = 0, replays = 0, observed = 0;
    int max_depth = 0;
    bool closed = false;
};

// signature label of an op: its name without the argument list
inline std::string sig_label(const std::string& op_name) {
    size_t p = op_name.find('(');
    return p == std::string::npos ? op_name : op_name.substr(0, p);
}

inline std::string hist_str(const std::vector<uint32_t>& h) {
    std::string s;
    for (size_t i = 0; i < h.size(); ++i) {
        if (i) s += ',';
        s += std::to_string(h[i]);
    }
    return s.empty() ? "-" : s;
}

inline std::vector<uint32_t> parse_hist(const std::string& s) {
    std::vector<uint32_t> h;
    if (s == "-" || s.empty()) return h;
    size_t p = 0;
    while (p < s.size()) {
        size_t e = s.find(',', p);
        if (e == std::string::npos) e = s.size();
        h.push_back((uint32_t)strtoul(s.substr(p, e - p).c_str(), nullptr, 10));
        p = e + 1;
    }
    return h;
}

struct Key {
    uint64_t a, b;
    bool operator==(const Key& o) const { return a == o.a && b == o.b; }
};
struct KeyHash {
    size_t operator()(const Key& k) const { return (size_t)(k.a ^ (k.b * 0x9E3779B97F4A7C15ull)); }
};
inline Key key_of(const std::string& s) {
    uint64_t h1 = 1469598103934665603ull, h2 = 0x84222325cbf29ce4ull;
    for (unsigned char c : s) {
        h1 = (h1 ^ c) * 1099511628211ull;
        h2 = (h2 + c) * 0x100000001b3ull ^ (h2 >> 29);
    }
    return Key{h1, h2};
}

// replay string: <config>|<history>
template <class Sys>
std::string replay_str(Sys& sys, const std::vector<uint32_t>& h) {
    return sys.name() + "|" + hist_str(h);
}

template <class Sys>
std::string describe(Sys& sys, const std::vector<uint32_t>& h) {
    std::string s;
    for (uint32_t op : h) s += sys.op_name(op) + " ";
    return s;
}

// rebuild the state reached by history h (all oracles stay active during the replay)
template <class Sys>
std::unique_ptr<typename Sys::State> build(Sys& sys, const std::vector<uint32_t>& h, size_t upto) {
    auto st = sys.fresh();
    // (the ops of a replayed prefix ran crash-free when the prefix was first executed: one label for the whole replay)
    vh::at_op("replay");
    for (size_t i = 0; i < upto && i < h.size(); ++i) sys.apply(*st, h[i]);
    return st;
}

// write "<config>|<h0,h1,...,op>" straight into the shared replay buffer (no std::string churn per transition)
inline void publish_replay(const std::string& cfg, const std::vector<uint32_t>& h, bool with_op, uint32_t op) {
    vh::Shared* sm = vh::shm();
    char* p = sm->replay;
    char* end = sm->replay + sizeof(sm->replay) - 16;
    size_t n = cfg.size() < 200 ? cfg.size() : 200;
    memcpy(p, cfg.data(), n);
    p += n;
    *p++ = '|';
    bool first = true;
    auto put = [&](uint32_t v) {
        if (p >= end) return;
        if (!first) *p++ = ',';
        first = false;
        char tmp[12];
        int k = 0;
        do {
            tmp[k++] = (char)('0' + v % 10);
            v /= 10;
        } while (v);
        while (k) *p++ = tmp[--k];
    };
    for (uint32_t v : h) put(v);
    if (with_op) put(op);
    if (first) *p++ = '-';
    *p = 0;
}

// Optional System member  std::string model_canon(const State&)  = canonical form of the REFERENCE model.  States are
// de-duplicated on the implementation's canonical form only; two histories that leave the implementation in the same
// internal state must also leave the reference model in the same state (the model's state is exactly what is observable
// later), otherwise one of them has diverged although nothing could be observed yet.  With model_canon the explorer
// remembers the model digest per implementation state and, on a revisit with a different digest, observes the state
// (whose queries normally expose the difference) and reports reference-diverged if they do not.
template <class Sys, class St>
auto model_digest(Sys& sys, const St& st, int) -> decltype(sys.model_canon(st), uint64_t()) {
    std::string m = sys.model_canon(st);
    uint64_t h = 1469598103934665603ull;
    for (unsigned char c : m) h = (h ^ c) * 1099511628211ull;
    return h | 1;
}
template <class Sys, class St>
uint64_t model_digest(Sys&, const St&, long) {
    return 0;
}
template <class Sys, class St>
auto model_text(Sys& sys, const St& st, int) -> decltype(sys.model_canon(st)) {
    return sys.model_canon(st);
}
template <class Sys, class St>
std::string model_text(Sys&, const St&, long) {
    return "";
}

template <class Sys>
Stats explore(Sys& sys, const Options& opt, const std::set<std::string>& skip) {
    Stats S;
    const std::string cfg_name = sys.name();
    std::unordered_map<uint32_t, std::string> label_cache;
    auto label_of = [&](uint32_t op) -> const std::string& {
        auto it = label_cache.find(op);
        if (it == label_cache.end()) it = label_cache.emplace(op, sig_label(sys.op_name(op))).first;
        return it->second;
    };
    std::unordered_map<Key, uint64_t, KeyHash> seen;  // implementation state -> digest of the reference model (0: not provided)
    struct Node {
        std::vector<uint32_t> hist;
        int depth;  // depth beyond the seed
    };
    std::deque<Node> frontier;
    std::vector<std::vector<uint32_t>> seeds = opt.seeds;
    if (seeds.empty()) seeds.push_back({});
    for (auto& sd : seeds) {
        vh::at("seed", replay_str(sys, sd));
        auto st = build(sys, sd, sd.size());
        std::string c = sys.canon(*st);
        if (seen.emplace(key_of(c), model_digest(sys, *st, 0)).second) {
            S.states++;
            vh::at("observe", replay_str(sys, sd));
            sys.observe(*st);
            S.observed++;
            frontier.push_back({sd, 0});
        }
    }
    bool capped = false;
    while (!frontier.empty()) {
        Node nd = std::move(frontier.front());
        frontier.pop_front();
        if (opt.max_depth >= 0 && nd.depth >= opt.max_depth) continue;
        if ((S.transitions & 1023) == 0 && vh::past_deadline()) {
            vh::cap(sys.name() + ": deadline reached during BFS");
            capped = true;
            break;
        }
        publish_replay(cfg_name, nd.hist, false, 0);
        auto base = build(sys, nd.hist, nd.hist.size());
        S.replays++;
        std::string base_canon;
        if (opt.check_canon_on_replay) base_canon = sys.canon(*base);
        std::vector<uint32_t> ops = sys.ops(*base);
        std::unique_ptr<typename Sys::State> cur = std::move(base);
        bool cur_dirty = false;
        std::vector<uint32_t> cur_hist = nd.hist;  // history of the state held in `cur`
        for (uint32_t op : ops) {
            std::vector<uint32_t> h2 = nd.hist;
            h2.push_back(op);
            if (!skip.empty() && skip.count(replay_str(sys, h2))) continue;  // known crashing transition: terminal
            const std::string& lb = label_of(op);
            if (!vh::disabled_labels().empty() && (vh::disabled_labels().count(lb) || vh::disabled_labels().count(lb + "+observe")))
                continue;
            if (cur_dirty) {
                vh::at_op("destroy");
                publish_replay(cfg_name, cur_hist, false, 0);
                cur.reset();
                cur_hist = nd.hist;
                publish_replay(cfg_name, nd.hist, false, 0);
                cur = build(sys, nd.hist, nd.hist.size());
                S.replays++;
                if (opt.check_canon_on_replay && sys.canon(*cur) != base_canon) {
                    vh::fail(sys.name() + "/canon-on-replay", replay_str(sys, nd.hist),
                             "re-building a state from its history gave a different internal structure (uninitialised state?)");
                    break;
                }
            }
            unsigned long long fails_before = vh::shm()->stat_val[vh::stat_slot("failing_cases", false)];
            vh::at_op(lb.c_str());
            publish_replay(cfg_name, nd.hist, true, op);
            sys.apply(*cur, op);
            cur_dirty = true;
            cur_hist = h2;
            S.transitions++;
            bool failed = vh::shm()->stat_val[vh::stat_slot("failing_cases", false)] != fails_before;
            if (failed) continue;  // violating state is terminal
            std::string c = sys.canon(*cur);
            uint64_t md = model_digest(sys, *cur, 0);
            auto ins = seen.emplace(key_of(c), md);
            if (!ins.second && md != ins.first->second) {
                // same implementation state, different reference state
                vh::at_op((lb + "+observe").c_str());
                sys.observe(*cur);
                if (vh::shm()->stat_val[vh::stat_slot("failing_cases", false)] == fails_before) {
                    vh::at_op(lb.c_str());
                    vh::fail_here("reference-diverged", "the implementation is in exactly the internal state reached earlier by another history, but the reference model is not: "
                                                        "now " + model_text(sys, *cur, 0) + " with implementation state " + c.substr(0, 300));
                }
                continue;
            }
            if (ins.second) {
                S.states++;
                vh::at_op((lb + "+observe").c_str());
                sys.observe(*cur);
                S.observed++;
                bool failed2 = vh::shm()->stat_val[vh::stat_slot("failing_cases", false)] != fails_before;
                if (!failed2) {
                    int d = nd.depth + 1;
                    if (d > S.max_depth) S.max_depth = d;
                    frontier.push_back({std::move(h2), d});
                }
                if (S.states >= opt.max_states) {
                    vh::cap(sys.name() + ": state cap reached");
                    capped = true;
                    break;
                }
            }
        }
        if (capped) break;
        vh::at_op("destroy");
        publish_replay(cfg_name, cur_hist, false, 0);
        cur.reset();  // destruction of the reached state runs under the ledger oracles too
    }
    S.closed = !capped && opt.max_depth < 0;
    return S;
}

// standard driver for one configuration: crash-isolated, reports stats
template <class Sys>
void run_config(Sys& sys, const Options& opt) {
    vh::run_isolated([&](const std::set<std::string>& skip) {
        Stats S = explore(sys, opt, skip);
        vh::stat_add("states", S.states);
        vh::stat_add("transitions", S.transitions);
        vh::stat_add("replays", S.replays);
        vh::stat_add("observed_states", S.observed);
        vh::stat_max("max_depth", S.max_depth);
        if (S.closed) vh::stat_add("closures_completed", 1);
        else vh::stat_add("depth_bounded_runs", 1);
        vh::note(vh::fmt("%s: states=%llu transitions=%llu max_depth=%d %s", sys.name().c_str(), S.states, S.transitions,
                         S.max_depth, S.closed ? "closure" : (opt.max_depth >= 0 ? vh::fmt("depth<=%d", opt.max_depth).c_str() : "capped")));
    });
}

template <class Sys>
void replay_config(Sys& sys, const std::string& hist) {
    std::vector<uint32_t> h = parse_hist(hist);
    vh::at("replay", replay_str(sys, h));
    auto st = sys.fresh();
    for (size_t i = 0; i < h.size(); ++i) {
        vh::at(sig_label(sys.op_name(h[i])).c_str(), replay_str(sys, h));
        sys.apply(*st, h[i]);
    }
    vh::at_op((sig_label(sys.op_name(h.empty() ? 0 : h.back())) + "+observe").c_str());
    sys.observe(*st);
    vh::note("replay " + sys.name() + ": " + describe(sys, h) + " -> " + sys.canon(*st));
    vh::at_op("destroy");
    st.reset();
}

}  // namespace vhist
