// c16_common.hpp — shared helpers of the C16 harnesses (RingBuffer / SimpleVector):
//   * Ledger      : per-State registry of live Tracked elements and of allocator blocks
//   * Tracked     : lifetime-tracked element (owns a heap block, registers in the live-set in every
//                   constructor, unregisters in the destructor)
//   * CountingAllocator : full C++11 allocator whose allocate/deallocate calls are booked in the ledger
//   * ElemOps<T>  : uniform access to the element types used by the harnesses (Tracked, int)
//   * CrashGuard  : keeps a family of systematically crashing transitions small (see below)
//   * StatKeeper  : work-around for vh::run_isolated() zeroing all counters on entry
#pragma once
#include <sys/mman.h>

#include <algorithm>
#include <cstring>
#include <map>
#include <new>
#include <set>
#include <string>
#include <vector>

#include "common/vharness.hpp"

namespace c16 {

struct Tracked;

struct Ledger {
    std::map<const void*, long> live;     // address of every live Tracked -> serial
    std::map<const void*, size_t> blocks;  // outstanding allocator blocks -> element count
    long next_serial = 1;
    unsigned long long constructed = 0, destroyed = 0, allocs = 0, deallocs = 0;
};

inline Ledger*& led() {
    static Ledger* l = nullptr;
    return l;
}

enum { kDefaultValue = 7, kDeadValue = -2, kMovedValue = -1 };

// While a state that already reported a failure is being torn down, follow-up reports (the leaked
// element is of course still alive at the end, the destroyed one is destroyed again by clear())
// would only add noise signatures for the same defect.
inline bool& quiet() {
    static bool q = false;
    return q;
}
inline void report(const char* kind, const std::string& msg) {
    if (!quiet()) vh::fail_here(kind, msg);
}
inline unsigned long long fail_count() { return (unsigned long long)vh::shm()->stat_val[vh::stat_slot("failing_cases", false)]; }

// Lifetime-tracked element.  The live-set is keyed by address (stores made by a destructor may be
// removed by the optimiser, so the object itself carries no "dead" flag).
struct Tracked {
    int* p;       // heap block holding the value; nullptr once moved from
    long serial;  // identity of this object (never copied)

    static bool is_live(const void* a) { return led()->live.count(a) != 0; }

    void enter() {
        Ledger* L = led();
        serial = L->next_serial++;
        L->constructed++;
        if (!L->live.emplace(this, serial).second) {
            report("construct-over-live-element", "an element was constructed on top of a live element (the old one was never destroyed)");
            L->live[this] = serial;
        }
    }
    static int* take_copy(const Tracked& o) {
        if (!is_live(&o)) {
            report("use-of-dead-element", "an element was copied/moved from an object that is not alive");
            return new int(kDeadValue);
        }
        return o.p ? new int(*o.p) : nullptr;
    }

    Tracked() : p(new int(kDefaultValue)) { enter(); }
    explicit Tracked(int v) : p(new int(v)) { enter(); }
    Tracked(const Tracked& o) : p(take_copy(o)) { enter(); }
    Tracked(Tracked&& o) noexcept {
        if (!is_live(&o)) {
            report("use-of-dead-element", "an element was move-constructed from an object that is not alive");
            p = new int(kDeadValue);
        } else {
            p = o.p;
            o.p = nullptr;
        }
        enter();
    }
    Tracked& operator=(const Tracked& o) {
        if (!is_live(this)) {
            report("assign-to-dead-element", "assignment to an object that is not alive");
            return *this;
        }
        if (this == &o) return *this;
        int* np = take_copy(o);
        delete p;
        p = np;
        return *this;
    }
    Tracked& operator=(Tracked&& o) noexcept {
        if (!is_live(this)) {
            report("assign-to-dead-element", "move-assignment to an object that is not alive");
            return *this;
        }
        if (this == &o) return *this;
        if (!is_live(&o)) {
            report("use-of-dead-element", "an element was move-assigned from an object that is not alive");
            return *this;
        }
        delete p;
        p = o.p;
        o.p = nullptr;
        return *this;
    }
    ~Tracked() {
        Ledger* L = led();
        auto it = L->live.find(this);
        if (it == L->live.end()) {
            report("double-destroy", "destructor ran on an object that is not alive (destroyed twice or never constructed)");
            return;
        }
        L->live.erase(it);
        L->destroyed++;
        delete p;
    }
    int value() const { return p ? *p : kMovedValue; }
};

// Allocator booking every block in the current ledger.  Stateless: all instances compare equal.
template <class T>
struct CountingAllocator {
    typedef T value_type;
    typedef T* pointer;
    typedef const T* const_pointer;
    typedef T& reference;
    typedef const T& const_reference;
    typedef std::size_t size_type;
    typedef std::ptrdiff_t difference_type;
    template <class U>
    struct rebind {
        typedef CountingAllocator<U> other;
    };
    CountingAllocator() noexcept {}
    template <class U>
    CountingAllocator(const CountingAllocator<U>&) noexcept {}

    T* allocate(size_t n) {
        T* q = static_cast<T*>(::operator new(n * sizeof(T)));  // n == 0: unique block, every access is out of bounds
        led()->blocks[q] = n;
        led()->allocs++;
        return q;
    }
    void deallocate(T* q, size_t n) noexcept {
        Ledger* L = led();
        if (q == nullptr) {
            // tlx hands nullptr back for never-allocated / moved-from buffers; std::allocator accepts that
            // in practice (operator delete(nullptr)), so it is recorded but not an error.
            vh::outcome("allocator: deallocate(nullptr, n) tolerated");
            return;
        }
        auto it = L->blocks.find(q);
        if (it == L->blocks.end()) {
            report("allocator-bad-deallocate", "deallocate() of a pointer that is not an outstanding block (double free?)");
            return;
        }
        if (it->second != n)
            report("allocator-size-mismatch", vh::fmt("block allocated with n=%zu, deallocated with n=%zu", it->second, n));
        L->blocks.erase(it);
        L->deallocs++;
        ::operator delete(q);
    }
    template <class U>
    bool operator==(const CountingAllocator<U>&) const noexcept { return true; }
    template <class U>
    bool operator!=(const CountingAllocator<U>&) const noexcept { return false; }
};

// Uniform element access.
template <class T>
struct ElemOps;
template <>
struct ElemOps<Tracked> {
    static const bool tracked = true;
    static const char* name() { return "Tracked"; }
    static Tracked make(int v) { return Tracked(v); }
    static int value(const Tracked& t) { return t.value(); }
    static long serial(const Tracked& t) { return t.serial; }
    static bool live(const Tracked* t) { return Tracked::is_live(t); }
};
template <>
struct ElemOps<int> {
    static const bool tracked = false;
    static const char* name() { return "int"; }
    static int make(int v) { return v; }
    static int value(const int& t) { return t; }
    static long serial(const int&) { return 0; }
    static bool live(const int*) { return true; }
};

// ---------------------------------------------------------------------------------------------
// CrashGuard.  vhist treats a crashing transition as terminal and restarts the whole BFS without
// it (at most 40 times).  A defect that makes a whole *class* of transitions crash (e.g. every
// copy-assignment of a non-empty buffer into a deallocated one) would exhaust that budget.  The
// harness therefore publishes a coarse class label in shared memory before the call and clears it
// afterwards; a restarted child that finds a label still set knows that class crashed, reports
// nothing more for it (the engine already printed the FAIL for the first member) and no longer
// drives transitions of that class.  The number of transitions not driven is counted.
struct CrashGuard {
    char pending[96];
    int ncls;
    char cls[32][96];
};
inline CrashGuard*& guard() {
    static CrashGuard* g = nullptr;
    return g;
}
inline void guard_init() {
    void* q = mmap(nullptr, sizeof(CrashGuard), PROT_READ | PROT_WRITE, MAP_SHARED | MAP_ANONYMOUS, -1, 0);
    if (q == MAP_FAILED) {
        perror("mmap");
        exit(2);
    }
    memset(q, 0, sizeof(CrashGuard));
    guard() = static_cast<CrashGuard*>(q);
}
// called at the start of every exploration (fresh()): promote a label left behind by a crashed child
inline void guard_collect() {
    CrashGuard* g = guard();
    if (!g || !g->pending[0]) return;
    bool known = false;
    for (int i = 0; i < g->ncls; ++i)
        if (strcmp(g->cls[i], g->pending) == 0) known = true;
    if (!known && g->ncls < 32) {
        strncpy(g->cls[g->ncls], g->pending, 95);
        g->ncls++;
        vh::outcome(std::string("crash class '") + g->pending + "' crashed once (FAIL printed); further transitions of this class are not driven");
    }
    g->pending[0] = 0;
}
inline void guard_reset() {
    if (guard()) memset(guard(), 0, sizeof(CrashGuard));
}
inline bool guard_blocked(const std::string& c) {
    CrashGuard* g = guard();
    if (!g) return false;
    for (int i = 0; i < g->ncls; ++i)
        if (c == g->cls[i]) return true;
    return false;
}
inline void guard_enter(const std::string& c) {
    if (guard()) {
        strncpy(guard()->pending, c.c_str(), 95);
        guard()->pending[95] = 0;
    }
}
inline void guard_leave() {
    if (guard()) guard()->pending[0] = 0;
}

// Owner of the container under test.  Unlike std::optional it can give the object up without running its
// destructor: when tearing down explored states crashes (a defect that corrupts the container so that its
// destructor dies would otherwise crash at the end of every node expansion and exhaust the restart budget),
// the first crash is reported by the engine and later states are leaked instead of destroyed.
template <class V>
struct Holder {
    V* p = nullptr;
    Holder() {}
    Holder(const Holder&) = delete;
    Holder& operator=(const Holder&) = delete;
    ~Holder() { reset(); }
    template <class... Args>
    void emplace(Args&&... args) {
        reset();
        p = new V(std::forward<Args>(args)...);
    }
    void reset() {
        V* q = p;
        p = nullptr;
        delete q;
    }
    void leak() { p = nullptr; }
    V* operator->() const { return p; }
    V& operator*() const { return *p; }
};
// returns false if teardown is known to crash (caller leaks the containers)
inline bool teardown_begin() {
    if (guard_blocked("state-teardown")) {
        vh::stat_add("state_teardowns_skipped_after_crash");
        return false;
    }
    guard_enter("state-teardown");
    return true;
}
inline void teardown_end() { guard_leave(); }

// ---------------------------------------------------------------------------------------------
// vh::run_isolated() zeroes every counter when it starts, so a shard that runs several
// configurations would report only the last one.  StatKeeper harvests the counters after each
// configuration and writes the totals back before vh::finish().
struct StatKeeper {
    std::map<std::string, long long> sum, mx;
    void harvest() {
        vh::Shared* s = vh::shm();
        for (int i = 0; i < s->nstat; ++i) {
            if (s->stat_is_max[i]) {
                long long& m = mx[s->stat_name[i]];
                if (s->stat_val[i] > m) m = s->stat_val[i];
            } else {
                sum[s->stat_name[i]] += s->stat_val[i];
            }
            s->stat_val[i] = 0;
        }
    }
    void restore() {
        vh::Shared* s = vh::shm();
        for (int i = 0; i < s->nstat; ++i) s->stat_val[i] = 0;
        for (auto& kv : sum) vh::stat_add(kv.first.c_str(), kv.second);
        for (auto& kv : mx) vh::stat_max(kv.first.c_str(), kv.second);
    }
};

// longest-processing-time-first assignment of weighted configurations to shards (deterministic)
inline std::vector<int> assign_shards(const std::vector<double>& weight, int nshards) {
    std::vector<int> order(weight.size()), shard_of(weight.size(), 0);
    for (size_t i = 0; i < order.size(); ++i) order[i] = (int)i;
    std::stable_sort(order.begin(), order.end(), [&](int a, int b) { return weight[a] > weight[b]; });
    std::vector<double> load(nshards, 0.0);
    for (int i : order) {
        int best = 0;
        for (int s = 1; s < nshards; ++s)
            if (load[s] < load[best]) best = s;
        shard_of[i] = best;
        load[best] += weight[i];
    }
    return shard_of;
}

}  // namespace c16
