// C06 — tlx::parallel_mergesort / stable_parallel_mergesort.
//  mode=inputs    : every input of the bounded space x threads x splitting x stable/unstable x element
//                   type, each run on the scheduler's deterministic default schedule (E3 dimension)
//  mode=schedules : a few small inputs under every interleaving within the preemption bound (E1)
// Compiled with the shadow-std shim: the std::thread / ThreadBarrierMutex inside tlx are scheduled.
#include <tlx/sort/parallel_mergesort.hpp>

#include <algorithm>

#include "harness/par_common.hpp"
#include "sched/vdefault.hpp"
#include "sched/vexplore.hpp"

using namespace par;

struct Case {
    std::vector<uint32_t> keys;
    int threads;
    int splitting;  // 0 sampling, 1 exact
    bool stable;
    bool tracked;
    int oversampling;
    std::string str() const {
        return vh::fmt("%s|t%d|%s|%s|%s|o%d", keys_str(keys).c_str(), threads, splitting ? "exact" : "sampling", stable ? "stable" : "unstable",
                       tracked ? "tracked" : "pod", oversampling);
    }
    std::string label() const {
        return vh::fmt("%s[%s,%s]", stable ? "stable_parallel_mergesort" : "parallel_mergesort", splitting ? "exact" : "sampling",
                       tracked ? "tracked" : "pod");
    }
};

static Case parse_case(const std::string& s) {
    Case c;
    std::vector<std::string> f;
    size_t p = 0;
    while (true) {
        size_t e = s.find('|', p);
        f.push_back(s.substr(p, e == std::string::npos ? std::string::npos : e - p));
        if (e == std::string::npos) break;
        p = e + 1;
    }
    c.keys = parse_keys(f[0]);
    c.threads = atoi(f[1].c_str() + 1);
    c.splitting = f[2] == "exact";
    c.stable = f[3] == "stable";
    c.tracked = f[4] == "tracked";
    c.oversampling = atoi(f[5].c_str() + 1);
    return c;
}

typedef void (*FailFn)(const char* kind, const std::string& msg);

// runs the sort on an exact-size heap block (so reads outside [begin,end) are ASan errors) and checks it
template <class T, class Less>
static void sort_and_check(const Case& c, FailFn failfn) {
    size_t n = c.keys.size();
    long live_before = Tracked::live().load();
    {
        // exact-size heap block: raw storage + placement new, no slack behind the last element
        T* a = static_cast<T*>(::operator new(sizeof(T) * (n ? n : 1)));
        for (size_t i = 0; i < n; ++i) new (a + i) T(c.keys[i], (uint32_t)i);
        std::vector<std::pair<uint32_t, uint32_t>> ref(n);
        for (size_t i = 0; i < n; ++i) ref[i] = {c.keys[i], (uint32_t)i};
        std::stable_sort(ref.begin(), ref.end(), [](const std::pair<uint32_t, uint32_t>& x, const std::pair<uint32_t, uint32_t>& y) { return x.first < y.first; });
        long live_mid = Tracked::live().load();
        tlx::parallel_multiway_merge_oversampling = (size_t)c.oversampling;
        tlx::MultiwayMergeSplittingAlgorithm sp = c.splitting ? tlx::MWMSA_EXACT : tlx::MWMSA_SAMPLING;
        if (c.stable)
            tlx::stable_parallel_mergesort(a, a + n, Less(), (size_t)c.threads, sp);
        else
            tlx::parallel_mergesort(a, a + n, Less(), (size_t)c.threads, sp);
        long live_after = Tracked::live().load();
        // oracle
        std::vector<int> seen(n, 0);
        bool perm = true, sorted = true, stable_ok = true;
        for (size_t i = 0; i < n; ++i) {
            if (a[i].tag >= n || seen[a[i].tag]++ || c.keys[a[i].tag] != a[i].key) perm = false;
            if (i && a[i].key < a[i - 1].key) sorted = false;
            if (a[i].key != ref[i].first || a[i].tag != ref[i].second) stable_ok = false;
        }
        std::string out;
        for (size_t i = 0; i < n && i < 40; ++i) out += vh::fmt("%u.%u ", a[i].key, a[i].tag);
        if (!perm) failfn("not-a-permutation", c.str() + " -> " + out);
        else if (!sorted) failfn("not-sorted", c.str() + " -> " + out);
        else if (c.stable && !stable_ok) failfn("not-stable", c.str() + " -> " + out);
        if (live_after != live_mid)
            failfn("temporaries-not-destroyed", vh::fmt("%s: %ld element instance(s) created by the sort are still alive after it returned", c.str().c_str(),
                                                        live_after - live_mid));
        for (size_t i = 0; i < n; ++i) a[i].~T();
        ::operator delete(a);
    }
    (void)live_before;
    if (Tracked::errors().load() != 0) {
        Tracked::errors() = 0;
        failfn("use-of-dead-element", c.str());
    }
}

struct PodElem : Elem {
    PodElem() : Elem{0, 0} {}
    PodElem(uint32_t k, uint32_t t) : Elem{k, t} {}
};

static void run_sort(const Case& c, FailFn f) {
    if (c.tracked) sort_and_check<Tracked, TrackedLess>(c, f);
    else sort_and_check<PodElem, ElemLess>(c, f);
}

// ---------------------------------------------------------------------------------------------
static std::vector<std::vector<uint32_t>> inputs(bool thorough) {
    std::vector<std::vector<uint32_t>> v;
    int small = thorough ? 6 : 5;
    // every sequence over {0,1,2} up to length `small` (all multisets in all arrangements)
    v.push_back({});
    size_t from = 0;
    for (int l = 1; l <= small; ++l) {
        size_t to = v.size();
        for (size_t i = from; i < to; ++i)
            for (uint32_t k = 0; k < 3; ++k) {
                auto w = v[i];
                w.push_back(k);
                v.push_back(w);
            }
        from = to;
    }
    // beyond 16 elements: libstdc++'s std::sort is an insertion sort (stable in effect) up to 16 elements, so an unstable
    // fallback inside the sort is invisible below that size
    int maxn = thorough ? 40 : 24;
    for (int n = small + 1; n <= maxn; ++n) {
        std::vector<uint32_t> w(n);
        for (int i = 0; i < n; ++i) w[i] = (uint32_t)(i * 4 / n);  // sorted, 4 keys
        v.push_back(w);
        std::reverse(w.begin(), w.end());
        v.push_back(w);  // reversed
        v.push_back(std::vector<uint32_t>(n, 1));  // all equal
        for (int i = 0; i < n; ++i) w[i] = (uint32_t)std::min(i, n - 1 - i) % 4;  // organ pipe
        v.push_back(w);
        for (int k = 2; k <= 4; ++k) {
            for (int i = 0; i < n; ++i) w[i] = (uint32_t)((k - 1) - i % k);  // cyclic descending runs over k keys
            v.push_back(w);
        }
        for (int i = 0; i < n; ++i) w[i] = (uint32_t)i % 10;  // distinct-ish ascending digits
        v.push_back(w);
    }
    return v;
}

static void fail_inputs(const char* kind, const std::string& msg) { vh::fail_here(kind, msg); }
static void fail_sched(const char* kind, const std::string& msg) { vs_fail(kind, msg.c_str()); }

int main(int argc, char** argv) {
    bool schedules = false, thorough = false;
    for (int i = 1; i < argc; ++i) {
        if (!strcmp(argv[i], "mode=schedules")) schedules = true;
        if (!strcmp(argv[i], "thorough")) thorough = true;
    }
    if (schedules) {
        std::vector<vx::Scenario> scs;
        struct In {
            const char* keys;
            int threads;
        } ins[] = {{"210", 2}, {"10201", 2}, {"210", 3}, {"11011", 3}, {"2102101", 3}, {"2102101", 2}, {"1111", 4}};
        for (auto& in : ins)
            for (int sp = 0; sp <= 1; ++sp)
                for (int tr = 0; tr <= 1; ++tr) {
                    Case c{parse_keys(in.keys), in.threads, sp, true, tr == 1, 2};
                    vx::Scenario s;
                    s.name = "pms:" + c.str();
                    s.family = c.label();
                    s.body = [c]() {
                        run_sort(c, &fail_sched);
                        vs_observe("sorted");
                    };
                    s.delay = in.threads >= 3;
                    s.bound_quick = in.threads >= 4 ? 1 : (in.threads == 3 ? 2 : 1);
                    s.bound_thorough = in.threads >= 4 ? 2 : (in.threads == 3 ? 3 : 2);
                    s.horizon = 100000;
                    scs.push_back(s);
                }
        return vx::run(argc, argv, scs);
    }
    vh::init(argc, argv);
    if (vh::args().has_replay)
        return vh::replay_one([&](const std::string& r) {
            Case c = parse_case(r);
            vh::at(c.label().c_str(), c.str());
            vx::run_default([&] { run_sort(c, &fail_inputs); });
        });
    std::vector<std::vector<uint32_t>> in = inputs(thorough);
    // more than 16 threads = more than 16 sequences for the exact splitter (std::sort stability threshold, see the inputs)
    std::vector<int> threads = thorough ? std::vector<int>{1, 2, 3, 4, 5, 6, 7, 8, 16, 17, 33} : std::vector<int>{1, 2, 3, 5, 8, 16, 17};
    std::vector<int> overs = thorough ? std::vector<int>{1, 2, 10} : std::vector<int>{2, 10};
    // case id -> (input, threads, splitting, stable, tracked, oversampling)
    uint64_t per = threads.size() * 2 * 2 * 2 * overs.size();
    uint64_t ncases = in.size() * per;
    if (vh::args().shard == 0) {
        Case ex{in[in.size() / 2], 3, 0, true, true, 2};
        vh::sample("input " + ex.str() + " (keys as digits; tag = original position) sorted on the default schedule, compared with std::stable_sort");
    }
    vh::run_cases(ncases, [&](uint64_t id) {
        uint64_t q = id % per, ii = id / per;
        Case c;
        c.keys = in[ii];
        c.threads = threads[q % threads.size()];
        q /= threads.size();
        c.splitting = q % 2;
        q /= 2;
        c.stable = q % 2;
        q /= 2;
        c.tracked = q % 2;
        q /= 2;
        c.oversampling = overs[q % overs.size()];
        if (c.splitting == 1 && c.oversampling != overs[0]) return;  // oversampling only matters for sampling
        vh::at(c.label().c_str(), c.str());
        long steps = vx::run_default([&] { run_sort(c, &fail_inputs); });
        vh::stat_add("cases");
        vh::stat_add("states");
        vh::stat_add("executions");
        vh::stat_add("transitions", steps);
        if (c.keys.size() > 1 && !std::is_sorted(c.keys.begin(), c.keys.end())) vh::stat_add("nontrivial_cases");
        if ((id & 1023) == 0) vh::outcome(vh::fmt("n=%zu threads=%d %s", c.keys.size(), c.threads, c.splitting ? "exact" : "sampling"));
    });
    return vh::finish();
}
