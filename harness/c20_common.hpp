// C20 — shared part of the two C20 harnesses (c20_math.cpp, c20_math32.cpp).
//
// * independent references for the integer helpers of tlx/math/*.hpp, computed on the
//   mathematical value held in __int128 / on the zero-extended bit pattern.  Two versions:
//   naive bit loops (the definition) and a table driven fast version (16-bit tables filled by
//   the naive loops) for the 2^32 sweep; both are cross-checked at start-up (self_check()).
// * per-(function,type) failure sites: signature "<function><<type>>/mismatch".
// * the per-value / per-pair check routines, generic over the integer type.
//
// Documented domains used (doc comments of /repo/tlx/math/*.hpp, tests/math_test.cpp where the
// comment is silent):
//   clz/ctz(0) = bit width (explicit branch in the header, pinned by math_test) -> called on 0.
//   ffs(0) = 0 ("or zero if none are set").
//   clz/ctz/ffs/popcount of a signed value: defined on the two's complement bit pattern
//     (the signed overloads cast to unsigned).
//   integer_log2_floor / _ceil: only x >= 1 (log2 of 0 / negatives is not defined; math_test never
//     calls them with 0; integer_log2_floor_template does not terminate for negative values).
//   is_power_of_two: total (false for x <= 0).
//   round_up_to_power_of_two: x >= 1 and only where the next power of two fits the return type
//     (x = 0 is not pinned by the tests and "next power of two" of 0 is ambiguous).
//   round_down_to_power_of_two: x >= 1; x = 0 -> 0 is pinned by math_test
//     (round_down_to_power_of_two(i - 1) == i >> 1 for i = 1).  Negative values: never called.
//   div_ceil(n,k): "for n and k positive" -> n >= 1, k >= 1.
//   round_up(n,k): "for n and k positive"; n = 0 -> 0 is pinned by math_test (i starts at 0).
//   abs_diff<T>(a,b): all a, b where |a-b| is representable in T (never called otherwise).
//   rol/ror: shift 0..width-1.
#pragma once
#include <tlx/math/abs_diff.hpp>
#include <tlx/math/aggregate.hpp>
#include <tlx/math/bswap.hpp>
#include <tlx/math/clz.hpp>
#include <tlx/math/ctz.hpp>
#include <tlx/math/div_ceil.hpp>
#include <tlx/math/ffs.hpp>
#include <tlx/math/integer_log2.hpp>
#include <tlx/math/is_power_of_two.hpp>
#include <tlx/math/popcount.hpp>
#include <tlx/math/rol.hpp>
#include <tlx/math/ror.hpp>
#include <tlx/math/round_to_power_of_two.hpp>
#include <tlx/math/round_up.hpp>
#include <tlx/math/sgn.hpp>

#include <algorithm>
#include <cmath>
#include <limits>
#include <type_traits>

#include "common/vharness.hpp"

namespace c20 {

typedef __int128 i128;
typedef unsigned __int128 u128;

// ---------------------------------------------------------------------------------------------
// type names used in signatures

template <class T> struct TN;
#define C20_TN(T, n) \
    template <> struct TN<T> { static constexpr const char* name = n; }
C20_TN(void, "");
C20_TN(signed char, "int8");
C20_TN(unsigned char, "uint8");
C20_TN(short, "int16");
C20_TN(unsigned short, "uint16");
C20_TN(int, "int32");
C20_TN(unsigned, "uint32");
C20_TN(long, "int64");
C20_TN(unsigned long, "uint64");
C20_TN(long long, "longlong");
C20_TN(unsigned long long, "ulonglong");
C20_TN(double, "double");
#undef C20_TN

enum Fn {
    F_clz, F_clz_template, F_ctz, F_ctz_template, F_ffs, F_ffs_template, F_popcount,
    F_popcount_generic8, F_popcount_generic16, F_popcount_generic32, F_popcount_generic64,
    F_popcount_buffer, F_log2_floor, F_log2_floor_template, F_log2_ceil, F_is_pow2,
    F_is_pow2_template, F_round_up_pow2, F_round_up_pow2_template, F_round_down_pow2, F_bswap16,
    F_bswap16_generic, F_bswap32, F_bswap32_generic, F_bswap64, F_bswap64_generic, F_rol32,
    F_rol32_generic, F_rol64, F_rol64_generic, F_ror32, F_ror32_generic, F_ror64, F_ror64_generic,
    F_div_ceil, F_round_up, F_abs_diff, F_sgn, F_NUM
};
static constexpr const char* FN_NAME[F_NUM] = {
    "clz", "clz_template", "ctz", "ctz_template", "ffs", "ffs_template", "popcount",
    "popcount_generic8", "popcount_generic16", "popcount_generic32", "popcount_generic64",
    "popcount(data,size)", "integer_log2_floor", "integer_log2_floor_template", "integer_log2_ceil",
    "is_power_of_two", "is_power_of_two_template", "round_up_to_power_of_two",
    "round_up_to_power_of_two_template", "round_down_to_power_of_two", "bswap16", "bswap16_generic",
    "bswap32", "bswap32_generic", "bswap64", "bswap64_generic", "rol32", "rol32_generic", "rol64",
    "rol64_generic", "ror32", "ror32_generic", "ror64", "ror64_generic", "div_ceil", "round_up",
    "abs_diff", "sgn"};

// one failure site = one signature
struct Site {
    const char* fn;
    const char* t1;
    const char* t2;
    unsigned long long nfail;
};
template <int F, class T1 = void, class T2 = void>
struct S {
    static Site s;
};
template <int F, class T1, class T2>
Site S<F, T1, T2>::s = {FN_NAME[F], TN<T1>::name, TN<T2>::name, 0};

static inline std::string sig_of(const Site& s, const char* kind = "mismatch") {
    std::string r = s.fn;
    if (s.t1[0]) {
        r += "<";
        r += s.t1;
        if (s.t2[0]) {
            r += ",";
            r += s.t2;
        }
        r += ">";
    }
    return r + "/" + kind;
}

// ---------------------------------------------------------------------------------------------
// current input (for the replay string), counters, outcomes

struct In {
    const char* fam;  // replay family
    uint64_t a, b;
};
static In g_in = {"none", 0, 0};
static unsigned long long g_ncmp = 0, g_nfail = 0, g_ninputs = 0, g_nskipped = 0;

static inline std::string cur_replay() {
    return vh::fmt("%s:%llx:%llx", g_in.fam, (unsigned long long)g_in.a, (unsigned long long)g_in.b);
}

static std::string dec(i128 v) {
    bool neg = v < 0;
    u128 u = neg ? (u128)0 - (u128)v : (u128)v;
    std::string s;
    do {
        s.insert(s.begin(), (char)('0' + (int)(u % 10)));
        u /= 10;
    } while (u);
    if (neg) s.insert(s.begin(), '-');
    return s;
}
static std::string both(i128 v) { return dec(v) + vh::fmt("[0x%llx]", (unsigned long long)v); }

static const i128 NOARG = ((i128)1 << 100);

__attribute__((noinline, cold)) static void report(Site& s, i128 got, i128 want, i128 a, i128 b, i128 c) {
    ++g_nfail;
    if (s.nfail++ >= 2) return;  // vh::fail prints the first two per signature; skip the formatting for the rest
    std::string sig = sig_of(s);
    std::string args = both(a);
    if (b != NOARG) args += ", " + both(b);
    if (c != NOARG) args += ", " + both(c);
    vh::fail(sig, cur_replay(),
             vh::fmt("%s(%s): tlx=%s ref=%s", sig.substr(0, sig.find('/')).c_str(), args.c_str(), both(got).c_str(),
                     both(want).c_str()));
}

template <class G>
static inline void cmp(Site& s, G got, i128 want, i128 a, i128 b = NOARG, i128 c = NOARG) {
    ++g_ncmp;
    if (__builtin_expect((i128)got != want, 0)) report(s, (i128)got, want, a, b, c);
}

// outcome families: which result values were observed (shows the enumeration is not vacuous)
enum OFam { O_clz, O_ctz, O_ffs, O_popcount, O_log2_floor, O_log2_ceil, O_sgn, O_is_pow2, O_aggcount, O_misc, O_NUM };
static const char* OFAM_NAME[O_NUM] = {"clz", "ctz", "ffs", "popcount", "log2_floor", "log2_ceil", "sgn+1", "is_pow2", "aggregate:count", "path"};
enum Misc {
    M_round_up_checked, M_round_up_skipped_unrepresentable, M_round_down_zero, M_round_down_pos,
    M_div_exact, M_div_rounded, M_div_skipped, M_round_up_mult_skipped, M_abs_diff_checked, M_abs_diff_skipped,
    M_log2_skipped_domain, M_NUM
};
static const char* MISC_NAME[M_NUM] = {"round_up_pow2:checked", "round_up_pow2:skipped(result not representable)",
                                       "round_down_pow2:zero", "round_down_pow2:positive", "div_ceil:exact",
                                       "div_ceil:rounded", "div_ceil:skipped(domain)",
                                       "round_up:skipped(result not representable)", "abs_diff:checked",
                                       "abs_diff:skipped(result not representable)", "log2:skipped(x<1)"};
static u128 g_seen[O_NUM], g_flushed[O_NUM];
static inline void seen(int fam, int v) { g_seen[fam] |= (u128)1 << v; }

static void flush_case() {
    for (int f = 0; f < O_NUM; ++f) {
        u128 nw = g_seen[f] & ~g_flushed[f];
        for (int v = 0; v < 128 && nw; ++v)
            if (nw >> v & 1) {
                vh::outcome(f == O_misc ? std::string(MISC_NAME[v]) : vh::fmt("%s=%d", OFAM_NAME[f], v));
                nw &= ~((u128)1 << v);
            }
        g_flushed[f] = g_seen[f];
    }
    vh::stat_add("inputs", (long long)g_ninputs);
    vh::stat_add("comparisons", (long long)g_ncmp);
    vh::stat_add("skipped_not_applicable", (long long)g_nskipped);
    vh::stat_add("failing_evaluations", (long long)g_nfail);
    g_ninputs = g_ncmp = g_nskipped = g_nfail = 0;
}

// hide a value from the optimiser: tlx calls that overflow a signed type (a defect this check reports) are
// undefined behaviour; the barrier keeps the compiler from propagating assumptions derived from that into
// the harness code around the call.
template <class T>
static inline T launder(T v) {
    asm volatile("" : "+r"(v));
    return v;
}

// ---------------------------------------------------------------------------------------------
// references

// naive definitions
static int naive_lg(u128 v) {  // floor(log2 v), -1 for 0
    int r = -1;
    while (v) v >>= 1, ++r;
    return r;
}
static int naive_ctz(u128 v, int w) {
    if (!v) return w;
    int r = 0;
    while (!(v & 1)) v >>= 1, ++r;
    return r;
}
static int naive_pop(u128 v) {
    int r = 0;
    for (; v; v >>= 1) r += (int)(v & 1);
    return r;
}
static int naive_ceil_lg(u128 v) {  // smallest p with 2^p >= v, v >= 1
    int p = 0;
    while (((u128)1 << p) < v) ++p;
    return p;
}

// table driven (16 bit tables filled by the naive functions)
struct Tables {
    int8_t lg[65536];
    uint8_t ctz[65536];
    uint8_t pop[65536];
};
static Tables* g_t = nullptr;
static void build_tables() {
    g_t = new Tables;
    for (unsigned v = 0; v < 65536; ++v) {
        g_t->lg[v] = (int8_t)naive_lg(v);
        g_t->ctz[v] = (uint8_t)naive_ctz(v, 16);
        g_t->pop[v] = (uint8_t)naive_pop(v);
    }
}
static inline int ref_lg(uint64_t b) {  // floor(log2 b), -1 for 0
    if (b >> 48) return 48 + g_t->lg[b >> 48];
    if (b >> 32) return 32 + g_t->lg[b >> 32];
    if (b >> 16) return 16 + g_t->lg[b >> 16];
    return g_t->lg[b];
}
static inline int ref_clz(uint64_t bits, int w) { return w - 1 - ref_lg(bits); }  // w for 0
static inline int ref_ctz(uint64_t b, int w) {
    if (!b) return w;
    if (b & 0xffff) return g_t->ctz[b & 0xffff];
    if (b & 0xffff0000ull) return 16 + g_t->ctz[(b >> 16) & 0xffff];
    if (b & 0xffff00000000ull) return 32 + g_t->ctz[(b >> 32) & 0xffff];
    return 48 + g_t->ctz[b >> 48];
}
static inline int ref_pop(uint64_t b) {
    return g_t->pop[b & 0xffff] + g_t->pop[(b >> 16) & 0xffff] + g_t->pop[(b >> 32) & 0xffff] + g_t->pop[b >> 48];
}
static inline int ref_ceil_lg(uint64_t b) {  // b >= 1
    int f = ref_lg(b);
    return (b & (b - 1)) ? f + 1 : f;
}
static inline uint64_t ref_bswap(uint64_t x, int nbytes) {
    uint64_t r = 0;
    for (int i = 0; i < nbytes; ++i) r = (r << 8) | (x & 0xff), x >>= 8;
    return r;
}
static inline uint64_t ref_rol(uint64_t x, int s, int w) {  // 0 <= s < w, w in {32,64}
    u128 t = (u128)x << s;
    u128 m = w == 64 ? (u128)~0ull : (u128)0xffffffffu;
    return (uint64_t)((t | (t >> w)) & m);
}
static inline uint64_t ref_ror(uint64_t x, int s, int w) {
    u128 t = ((u128)x << w) >> s;
    u128 m = w == 64 ? (u128)~0ull : (u128)0xffffffffu;
    return (uint64_t)((t | (t >> w)) & m);
}

// ---------------------------------------------------------------------------------------------
// structured values of width w (bit patterns): one- and two-bit patterns, 2^k+-1, 2^k-2^j, extremes,
// byte patterns; each with its two's complement negation and its complement.  three_bit: additionally all
// three-bit patterns (thorough tier of the 64-bit family).
static std::vector<uint64_t> structured(int w, bool three_bit = false) {
    const uint64_t M = w == 64 ? ~0ull : ((1ull << w) - 1);
    std::vector<uint64_t> v;
    auto add = [&](uint64_t x) {
        v.push_back(x & M);
        v.push_back((0 - x) & M);
        v.push_back(~x & M);
    };
    for (uint64_t x : {0ull, 1ull, 2ull, 3ull, 5ull, 6ull, 7ull, 9ull, 10ull, 100ull, 1000ull, 0x1234567812345678ull,
                       0x0102030405060708ull, 0xa5a5a5a5a5a5a5a5ull, 0xff00ff00ff00ff00ull, 0x00ff00ff00ff00ffull,
                       0x5555555555555555ull, 0x3333333333333333ull, 0x0f0f0f0f0f0f0f0full, 0x1111111111111111ull,
                       0xdeadbeefcafebabeull})
        add(x);
    add(M);
    add(M >> 1);
    add((M >> 1) + 1);
    add(M / 3);
    for (int k = 0; k < w; ++k) {
        uint64_t p = 1ull << k;
        add(p);
        add(p + 1);
        add(p - 1);
        for (int j = 0; j < k; ++j) {
            add(p | (1ull << j));
            add(p - (1ull << j));
        }
    }
    for (int byte = 0; byte < w / 8; ++byte)
        for (uint64_t pat : {0x01ull, 0x80ull, 0xffull, 0xa7ull}) add(pat << (8 * byte));
    if (three_bit)
        for (int k = 2; k < w; ++k)
            for (int j = 1; j < k; ++j)
                for (int i = 0; i < j; ++i) add((1ull << k) | (1ull << j) | (1ull << i));
    std::sort(v.begin(), v.end());
    v.erase(std::unique(v.begin(), v.end()), v.end());
    return v;
}

static void self_check() {
    // fast references == naive definitions on every 16-bit value and on the structured 32/64-bit values
    std::vector<uint64_t> v = structured(64);
    std::vector<uint64_t> v32 = structured(32);
    v.insert(v.end(), v32.begin(), v32.end());
    for (uint64_t x = 0; x < 65536; ++x) v.push_back(x);
    for (uint64_t x : v) {
        bool ok = ref_lg(x) == naive_lg(x) && ref_ctz(x, 64) == naive_ctz(x, 64) && ref_pop(x) == naive_pop(x) &&
                  (x == 0 || ref_ceil_lg(x) == naive_ceil_lg(x)) && ref_clz(x, 64) == 63 - naive_lg(x);
        // rotation / byte swap references against bit-by-bit definitions
        for (int s = 0; s < 64 && ok; s += 7) {
            uint64_t r = 0;
            for (int i = 0; i < 64; ++i)
                if (x >> i & 1) r |= 1ull << ((i + s) % 64);
            ok = ref_rol(x, s, 64) == r && ref_ror(r, s, 64) == x;
            uint32_t x3 = (uint32_t)x, r3 = 0;
            for (int i = 0; i < 32; ++i)
                if (x3 >> i & 1) r3 |= 1u << ((i + s) % 32);
            if (s < 32) ok = ok && ref_rol(x3, s, 32) == r3 && ref_ror(r3, s, 32) == x3;
        }
        uint64_t bs = 0;
        for (int i = 0; i < 8; ++i) bs |= ((x >> (8 * i)) & 0xff) << (8 * (7 - i));
        ok = ok && ref_bswap(x, 8) == bs;
        if (!ok) {
            vh::out_line(vh::fmt("ERROR reference self-check failed for 0x%llx", (unsigned long long)x));
            exit(2);
        }
    }
}

// ---------------------------------------------------------------------------------------------
// per-value checks

// the generic templates + sgn; every integer type
template <class T>
static inline void check_templates(T x) {
    typedef typename std::make_unsigned<T>::type U;
    constexpr int W = 8 * sizeof(T);
    const uint64_t bits = (U)x;
    const i128 val = x;
    const i128 TMAX = std::numeric_limits<T>::max();
    const int rclz = ref_clz(bits, W), rctz = ref_ctz(bits, W);
    cmp(S<F_clz_template, T>::s, tlx::clz_template<T>(x), rclz, val);
    cmp(S<F_ctz_template, T>::s, tlx::ctz_template<T>(x), rctz, val);
    cmp(S<F_ffs_template, T>::s, tlx::ffs_template<T>(x), bits ? rctz + 1 : 0, val);
    const bool p2 = val > 0 && (bits & (bits - 1)) == 0;
    cmp(S<F_is_pow2_template, T>::s, tlx::is_power_of_two_template<T>(x), p2, val);
    const int sg = val > 0 ? 1 : val < 0 ? -1 : 0;
    cmp(S<F_sgn, T>::s, tlx::sgn<T>(x), sg, val);
    seen(O_clz, rclz), seen(O_ctz, rctz), seen(O_ffs, bits ? rctz + 1 : 0), seen(O_sgn, sg + 1), seen(O_is_pow2, p2);
    if (val >= 1) {
        const int fl = ref_lg(bits), ce = ref_ceil_lg(bits);
        cmp(S<F_log2_floor_template, T>::s, tlx::integer_log2_floor_template<T>(x), fl, val);
        const i128 up = (i128)1 << ce;
        if (up <= TMAX) {
            cmp(S<F_round_up_pow2_template, T>::s, tlx::round_up_to_power_of_two_template<T>(x), up, val);
            seen(O_misc, M_round_up_checked);
        } else
            ++g_nskipped, seen(O_misc, M_round_up_skipped_unrepresentable);
        seen(O_log2_floor, fl);
    } else
        g_nskipped += 2, seen(O_misc, M_log2_skipped_domain);
}

// the overload sets (intrinsic-backed under gcc/clang); T in {int, unsigned, long, unsigned long, long long,
// unsigned long long}
template <class T>
static inline void check_overloads(T x) {
    typedef typename std::make_unsigned<T>::type U;
    constexpr int W = 8 * sizeof(T);
    const uint64_t bits = (U)x;
    const i128 val = x;
    const i128 TMAX = std::numeric_limits<T>::max();
    const int rclz = ref_clz(bits, W), rctz = ref_ctz(bits, W), rpop = ref_pop(bits);
    cmp(S<F_clz, T>::s, tlx::clz<T>(x), rclz, val);
    cmp(S<F_ctz, T>::s, tlx::ctz<T>(x), rctz, val);
    cmp(S<F_ffs, T>::s, tlx::ffs(x), bits ? rctz + 1 : 0, val);
    cmp(S<F_popcount, T>::s, tlx::popcount(x), rpop, val);
    seen(O_popcount, rpop);
    const bool p2 = val > 0 && (bits & (bits - 1)) == 0;
    cmp(S<F_is_pow2, T>::s, tlx::is_power_of_two(x), p2, val);
    if (val >= 1) {
        const int fl = ref_lg(bits), ce = ref_ceil_lg(bits);
        cmp(S<F_log2_floor, T>::s, tlx::integer_log2_floor(x), fl, val);
        cmp(S<F_log2_ceil, T>::s, tlx::integer_log2_ceil(x), ce, val);
        seen(O_log2_ceil, ce);
        const i128 up = (i128)1 << ce;
        if (up <= TMAX)
            cmp(S<F_round_up_pow2, T>::s, tlx::round_up_to_power_of_two(x), up, val);
        else
            ++g_nskipped;
        // largest power of two <= x: always representable
        cmp(S<F_round_down_pow2, T>::s, tlx::round_down_to_power_of_two(launder(x)), (i128)1 << fl, val);
        seen(O_misc, M_round_down_pos);
    } else {
        g_nskipped += 3;
        if (val == 0) {
            cmp(S<F_round_down_pow2, T>::s, tlx::round_down_to_power_of_two(x), 0, val);  // pinned by math_test
            seen(O_misc, M_round_down_zero);
        } else
            ++g_nskipped;
    }
}

// div_ceil / round_up on one pair; Wide = arithmetic type in which the reference is exact
template <class N, class K, class Wide = i128>
static inline void check_div(N n, K k) {
    typedef decltype(n + k) R;
    typedef typename std::conditional<std::is_same<N, K>::value, void, K>::type K2;
    const Wide vn = n, vk = k;
    if (vn < 0 || vk < 1) {  // outside the documented domain: never called
        g_nskipped += 2, seen(O_misc, M_div_skipped);
        return;
    }
    const Wide RMAX = std::numeric_limits<R>::max();
    const Wide q = vn / vk + (vn % vk != 0 ? 1 : 0);  // <= vn: always representable in R
    if (vn >= 1) {
        cmp(S<F_div_ceil, N, K2>::s, tlx::div_ceil(launder(n), launder(k)), q, vn, vk);
        seen(O_misc, vn % vk ? M_div_rounded : M_div_exact);
    } else
        ++g_nskipped;
    // q <= RMAX / vk  <=>  q * vk <= RMAX (no overflow in Wide inside the guarded branch)
    if (q <= RMAX / vk)
        cmp(S<F_round_up, N, K2>::s, tlx::round_up(launder(n), launder(k)), q * vk, vn, vk);
    else
        ++g_nskipped, seen(O_misc, M_round_up_mult_skipped);
}

template <class T, class Wide = i128>
static inline void check_abs_diff(T a, T b) {
    const Wide va = a, vb = b;
    const Wide d = va > vb ? va - vb : vb - va;
    if (d <= (Wide)std::numeric_limits<T>::max()) {
        cmp(S<F_abs_diff, T>::s, tlx::abs_diff<T>(a, b), d, va, vb);
        seen(O_misc, M_abs_diff_checked);
    } else
        ++g_nskipped, seen(O_misc, M_abs_diff_skipped);
}

static inline bool parse_replay(const std::string& r, std::string* fam, uint64_t* a, uint64_t* b) {
    size_t c1 = r.find(':');
    if (c1 == std::string::npos) return false;
    size_t c2 = r.find(':', c1 + 1);
    if (c2 == std::string::npos) return false;
    *fam = r.substr(0, c1);
    *a = strtoull(r.substr(c1 + 1, c2 - c1 - 1).c_str(), nullptr, 16);
    *b = strtoull(r.substr(c2 + 1).c_str(), nullptr, 16);
    return true;
}

}  // namespace c20
