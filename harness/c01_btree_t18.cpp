// C01/C02 type configurations, group 18 (see c01_btree.hpp; C01_TYPE(kind, greater, leaf, inner, search 0=linear 1=binary 2=default traits, element))
#include "c01_btree.hpp"
C01_TYPE(SET, false, 8, 6, 0, int)
C01_TYPE(MMAP, true, 8, 6, 1, int)
C01_TYPE(MAP, true, 8, 7, 1, int)
C01_TYPE(MSET, false, 8, 7, 0, int)
C01_TYPE(MAP, true, 8, 9, 1, int)
C01_TYPE(MSET, false, 8, 9, 0, int)
C01_TYPE(MAP, true, 9, 4, 1, int)
